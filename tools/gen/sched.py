"""C06: inputs that are neither bytes nor path nor a cell of the package — the thread SCHEDULE and INTERPRETER-WIDE settings
-> S2T/Gen/Sched.lean

1. concurrencyUses   (file, function, expression)  every name / attribute / call in the package (tests excluded) that resolves
                     (through the imports of its module) into threading / _thread / concurrent.futures / multiprocessing /
                     asyncio / queue / subprocess / signal / sched, plus os.fork / os.spawn* / os.posix_spawn, plus any call of a
                     method named like an out-of-order collector (as_completed, imap_unordered, wait(… FIRST_COMPLETED),
                     add_done_callback) whatever its receiver.  A worker pool is harmless as long as results are collected
                     in submission order (S2T.C06Sched.submission_order_schedule_free); `as_completed` makes the schedule
                     an input (completion_order_schedule_dependent).
2. interpWrites      (file, function, expression, restored)  every call that changes an interpreter-wide setting
                     (sys.setrecursionlimit / setswitchinterval / set_int_max_str_digits / setprofile / settrace,
                     locale.setlocale, decimal.setcontext / getcontext().prec =, socket.setdefaulttimeout, os.chdir / umask /
                     putenv / environ[...] =, csv.field_size_limit(n), warnings.simplefilter / filterwarnings outside
                     catch_warnings, logging.disable, gc.disable / enable / freeze, random.seed, mimetypes.add_type / init,
                     ET.register_namespace, codecs.register, threading.stack_size(n), time.tzset, faulthandler.*,
                     resource.setrlimit); `restored` = the enclosing function puts the old value back in a `finally:` clause
                     (a second call of the same setter inside a finally of the same function).
3. bareYieldManagers (file, function)  generator-based context managers (@contextmanager / @contextlib.contextmanager) with a
                     `yield` that is not inside a `try` with a `finally` (or an `except` that re-establishes and re-raises):
                     their exit code does not run when the managed block raises (S2T.C06Sched.bare_yield_leaks).
"""
import ast
import os

from translate import HEADER, REPO, generator, lean_list, lean_str

CONC_ROOTS = {"threading", "_thread", "concurrent", "multiprocessing", "asyncio", "queue", "subprocess", "signal", "sched", "selectors"}
OS_SPAWN = {"fork", "forkpty", "posix_spawn", "posix_spawnp", "system", "popen"}
UNORDERED = {"as_completed", "imap_unordered", "add_done_callback", "FIRST_COMPLETED", "FIRST_EXCEPTION"}

SETTERS = {
    "sys.setrecursionlimit", "sys.setswitchinterval", "sys.set_int_max_str_digits", "sys.setprofile", "sys.settrace",
    "sys.setdlopenflags", "sys.set_asyncgen_hooks", "sys.setrecursionlimit",
    "locale.setlocale", "decimal.setcontext", "socket.setdefaulttimeout", "os.chdir", "os.umask", "os.putenv", "os.unsetenv",
    "warnings.simplefilter", "warnings.filterwarnings", "warnings.resetwarnings", "logging.disable", "logging.basicConfig",
    "logging.setLoggerClass", "gc.disable", "gc.enable", "gc.freeze", "gc.set_threshold", "random.seed", "mimetypes.add_type",
    "mimetypes.init", "codecs.register", "codecs.register_error", "threading.stack_size", "threading.setprofile",
    "threading.settrace", "time.tzset", "faulthandler.enable", "faulthandler.disable", "resource.setrlimit",
    "xml.etree.ElementTree.register_namespace", "csv.field_size_limit", "csv.register_dialect", "atexit.register",
    "importlib.invalidate_caches", "sys.setdefaultencoding",
}
SETTER_TAILS = {"setrecursionlimit", "setswitchinterval", "set_int_max_str_digits", "setlocale", "setdefaulttimeout",
                "register_namespace", "field_size_limit", "setcontext", "tzset", "chdir"}


def _files():
    pkg = os.path.join(REPO, "sharepoint2text")
    for root, dirs, files in os.walk(pkg):
        dirs[:] = sorted(d for d in dirs if d not in ("tests", "__pycache__"))
        for fn in sorted(files):
            if fn.endswith(".py"):
                yield os.path.relpath(os.path.join(root, fn), REPO)


def _short(rel):
    return rel[len("sharepoint2text/"):] if rel.startswith("sharepoint2text/") else rel


def _imports(tree):
    m = {}
    for n in ast.walk(tree):
        if isinstance(n, ast.Import):
            for a in n.names:
                m[(a.asname or a.name).split(".")[0]] = a.name if a.asname else a.name.split(".")[0]
        elif isinstance(n, ast.ImportFrom) and n.module and n.level == 0:
            for a in n.names:
                m[a.asname or a.name] = n.module + "." + a.name
    return m


def _dotted(e, imp):
    parts = []
    while isinstance(e, ast.Attribute):
        parts.append(e.attr)
        e = e.value
    if isinstance(e, ast.Name):
        parts.append(imp.get(e.id, "?" + e.id))
        return ".".join(reversed(parts))
    return "?." + ".".join(reversed(parts))


def _enclosing(tree):
    enc = {}

    def mark(node, cur, fn):
        for ch in ast.iter_child_nodes(node):
            c2, f2 = cur, fn
            if isinstance(ch, (ast.FunctionDef, ast.AsyncFunctionDef, ast.ClassDef)):
                c2 = ch.name if cur == "<module>" else cur + "." + ch.name
                if not isinstance(ch, ast.ClassDef):
                    f2 = ch
            enc[ch] = (c2, f2)
            mark(ch, c2, f2)
    mark(tree, "<module>", None)
    return enc


def _src(node):
    s = ast.unparse(node)
    return s if len(s) <= 90 else s[:87] + "..."


def _in_finally(fn_node):
    """set of nodes lying inside a `finally:` clause (or an except handler that ends in a bare `raise`) of the function"""
    inside = set()
    for t in ast.walk(fn_node):
        if isinstance(t, ast.Try):
            for st in t.finalbody:
                inside.update(ast.walk(st))
            for h in t.handlers:
                if h.body and isinstance(h.body[-1], ast.Raise) and h.body[-1].exc is None:
                    for st in h.body:
                        inside.update(ast.walk(st))
    return inside


def inventory():
    conc, writes, bare = set(), set(), set()
    for rel in _files():
        with open(os.path.join(REPO, rel), encoding="utf-8") as fh:
            tree = ast.parse(fh.read())
        imp = _imports(tree)
        enc = _enclosing(tree)
        short = _short(rel)
        attr_children = {id(n.value) for n in ast.walk(tree) if isinstance(n, ast.Attribute)}
        for n in ast.walk(tree):
            where = enc.get(n, ("<module>", None))[0]
            # ---- 1. concurrency
            if isinstance(n, (ast.Import, ast.ImportFrom)):
                mods = [a.name for a in n.names] if isinstance(n, ast.Import) else [n.module or ""]
                for mname in mods:
                    if mname.split(".")[0] in CONC_ROOTS:
                        conc.add((short, where, _src(n)))
            elif isinstance(n, (ast.Name, ast.Attribute)) and id(n) not in attr_children and isinstance(getattr(n, "ctx", None), ast.Load):
                d = _dotted(n, imp)
                root = d.split(".")[0]
                if root in CONC_ROOTS or (d.startswith("os.") and d.split(".")[1] in OS_SPAWN) or d.startswith("os.spawn") \
                        or d.rpartition(".")[2] in UNORDERED:
                    conc.add((short, where, _src(n)))
            # ---- 2. interpreter-wide settings
            if isinstance(n, ast.Call):
                d = _dotted(n.func, imp)
                tail = d.rpartition(".")[2]
                hit = d in SETTERS or (tail in SETTER_TAILS and not d.startswith("?self"))
                if d in ("csv.field_size_limit", "threading.stack_size") and not n.args:
                    hit = False                      # without argument these only read
                if hit:
                    fn = enc.get(n, ("<module>", None))[1]
                    restored = False
                    if fn is not None:
                        fin = _in_finally(fn)
                        same = [c for c in ast.walk(fn) if isinstance(c, ast.Call) and _dotted(c.func, imp) == d]
                        restored = n not in fin and any(c in fin for c in same)
                        if n in fin:
                            restored = True          # the restoring call itself
                    writes.add((short, where, _src(n), restored))
            if isinstance(n, (ast.Assign, ast.AugAssign)):
                tgts = n.targets if isinstance(n, ast.Assign) else [n.target]
                for t in tgts:
                    base = t.value if isinstance(t, (ast.Subscript, ast.Attribute)) else None
                    if base is not None:
                        bd = _dotted(base, imp) if isinstance(base, (ast.Name, ast.Attribute)) else \
                            (_dotted(base.func, imp) + "()" if isinstance(base, ast.Call) else "")
                        if bd in ("os.environ", "decimal.getcontext()", "sys.flags") or (bd == "sys" and isinstance(t, ast.Attribute)):
                            writes.add((short, where, _src(n), False))
            # ---- 3. generator context managers
            if isinstance(n, (ast.FunctionDef, ast.AsyncFunctionDef)):
                decos = [_dotted(x.func if isinstance(x, ast.Call) else x, imp) for x in n.decorator_list]
                if any(x.rpartition(".")[2] in ("contextmanager", "asynccontextmanager") for x in decos):
                    protected = set()
                    for t in ast.walk(n):
                        if isinstance(t, ast.Try) and (t.finalbody or any(h.body and isinstance(h.body[-1], ast.Raise) for h in t.handlers)):
                            for st in t.body:
                                protected.update(ast.walk(st))
                    ys = [y for y in ast.walk(n) if isinstance(y, (ast.Yield, ast.YieldFrom))]
                    for y in ys:
                        if y in protected:
                            continue
                        # a bare yield is harmless when nothing but `return` follows it (nothing to undo)
                        if not _code_after_yield(n, y):
                            continue
                        bare.add((short, where if where != "<module>" else n.name))
    return sorted(conc), sorted(writes), sorted(bare)


def _code_after_yield(fn, y):
    """is there a statement other than `return` / `pass` behind the statement holding the yield, in its block chain?"""
    def blocks(node):
        for fld in ("body", "orelse", "finalbody"):
            b = getattr(node, fld, None)
            if isinstance(b, list) and b and isinstance(b[0], ast.stmt):
                yield b
        for h in getattr(node, "handlers", []) or []:
            yield h.body

    def find(node):
        """None: yield not below node; "end": control leaves the function behind the yield; True / False: code follows / not"""
        for b in blocks(node):
            for i, st in enumerate(b):
                if st is y_stmt or y in set(ast.walk(st)):
                    deeper = find(st)
                    if deeper in ("end", True):
                        return deeper
                    for s2 in b[i + 1:]:
                        if isinstance(s2, ast.Return):
                            return "end"
                        if not isinstance(s2, ast.Pass):
                            return True
                    return False
        return None
    y_stmt = None
    return find(fn) is True


@generator("Sched")
def gen_sched() -> str:
    conc, writes, bare = inventory()
    L = [HEADER.format(src="AST of every module under sharepoint2text/ (tests excluded)")]
    L.append("namespace S2T.Gen.Sched\n")
    L.append("/-- (file, function, expression): uses of threads / processes / event loops / out-of-order collectors -/")
    L.append("def concurrencyUses : List (String × String × String) := " + lean_list(
        f"({lean_str(a)}, {lean_str(b)}, {lean_str(c)})" for a, b, c in conc) + "\n")
    L.append("/-- (file, function, expression, put back in a finally clause): writes of interpreter-wide settings -/")
    L.append("def interpWrites : List (String × String × String × Bool) := " + lean_list(
        f"({lean_str(a)}, {lean_str(b)}, {lean_str(c)}, {'true' if r else 'false'})" for a, b, c, r in writes) + "\n")
    L.append("/-- (file, function): generator context managers whose exit code is skipped when the managed block raises -/")
    L.append("def bareYieldManagers : List (String × String) := " + lean_list(
        f"({lean_str(a)}, {lean_str(b)})" for a, b in bare) + "\n")
    L.append("end S2T.Gen.Sched\n")
    return "\n".join(L)
