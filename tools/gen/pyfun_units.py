"""Function-level translator, units part (extends tools/gen/pyfun_paths.py WITHOUT editing it).

Generator `PyUnits`: `_join_unit_text` and the `iterate_units` / `get_full_text` methods (with the properties and
helper methods they call) of the content classes of `parsing/extractors/data_types.py`
-> lean/S2T/Gen/PyUnits.lean; prelude lean/S2T/Py/Units.lean (namespace `S2T.Py.Units`); equivalence theorems
lean/S2T/Props/C03_Src.lean.

`UFuncTr(FuncTrX)` / `UModTr(ModTrX)` add, construct by construct (new cases first, everything else falls through
to pyfun_paths.py / pyfun.py unchanged):

* dataclasses: every dataclass reachable from the whitelisted methods becomes a GENERATED Lean structure (one field
  per `dataclasses.fields` entry of the running class, same name, type from the field's annotation, default from the
  dataclass default); `Cls(k=e, …)` is a structure instance, `dataclasses.replace(x, k=e)` is `{ x with k := e }`;
  an annotation the translator cannot map gives an `Opaque` field (copy only)
* generator methods (`yield e`, `yield from xs`, bare `return`) as the list of yielded values — a raising
  operation that can run after a `yield` is a note (branch-sensitive)
* `enumerate(xs, start=k)`, `x or d` on an Optional, `xs.extend(ys)`, `xs = []` typed by its first use,
  `[x] if c else []`, properties (`slide.text_combined`), `str.strip/lstrip/rstrip/split()/splitlines()/lower()`,
  `a in s` on strings -> the definitions of S2T/Model/Units.lean at `env.tables`
* a parameter annotated with a `typing.Protocol` class (`Iterable[UnitInterface]`): a type variable with a
  generated type class whose instances are the translated methods of the implementing classes
* narrowing that cannot raise: `if x:` / `if x is not None:` / `a and b` as dependent `if h : … then`, uses of the
  narrowed value as `getT x h` / `getS x h` / `lastNE xs h` …
* `while xs and …: xs.pop()` as an auxiliary definition by well-founded recursion on `xs.length` (no fuel)
* dictionaries keyed by ints (`d[k] = v`, `d[k].append(x)`, `k in d`, `d.get(k, dflt)`)
* nested functions (closures with `nonlocal`) as auxiliary definitions with explicit state

Like pyfun.py: nothing is approximated — an unknown construct appends to `notes`.
"""
from __future__ import annotations

import ast
import copy
import dataclasses

from translate import HEADER, chars, fresh_import, generator, lean_list, lean_str, parse
from gen import pyfun
from gen.pyfun import (BOOL, INT, MODULES, NAT, NONE, RECORDS, STR, UNK, Dict, Fn, FuncTr, Lst, Opt, Rec, Sig, Tup,
                       Unsupported, ident, lt, unify)
from gen.pyfun_paths import ANY, FuncTrX, ModTrX, _parents

DT_SRC = "sharepoint2text/parsing/extractors/data_types.py"
P = "S2T.Py.Units"            # prelude namespace
RP = "Units."                 # prefix of this file's keys in the shared RECORDS table
OPAQUE = Rec(RP + "Opaque")
RECORDS[RP + "Opaque"] = dict(lean=f"{P}.Opaque", attrs={}, methods={})

CONTENT = ["PdfContent", "PptxContent", "OdpContent", "XlsxContent", "OdsContent", "EpubContent", "HtmlContent",
           "PlainTextContent", "EmailContent", "OdgContent", "OdfContent", "RtfContent", "XlsContent", "PptContent"]

HEADING_CONTENT = ["OdtContent", "DocContent"]
HEADING_UNITS = ["OdtUnit", "DocUnit"]
UNIT_CLASSES = HEADING_UNITS + ["EmailUnit", "PdfUnit", "PlainTextUnit", "HtmlUnit", "PptUnit", "PptxUnit", "XlsUnit", "XlsxUnit", "OdgUnit",
                "OdfUnit", "OdpUnit", "OdsUnit", "RtfUnit", "EpubChapter"]
UNIT_FUNCS = ([(f"{u}.{m}", {}) for u in UNIT_CLASSES for m in ("get_text", "get_metadata")]
              + [("_join_unit_text", {}), ("PptSlideContent.text_combined", {}), ("OdpSlide.text_combined", {}),
                 ("PptxSlide.get_text", {}),
                 # `rows` holds header strings and cell values: a list of lists of objects
                 ("XlsSheet.get_table", {"locals": {"rows": Lst(Lst(ANY))}})]
              + [(f"{c}.{m}", {}) for c in CONTENT + HEADING_CONTENT for m in ("iterate_units", "get_full_text")]
              # DocxContent.iterate_units is NOT translated: `next_heading_for_index[paragraph_index]` and the regex /
              # int() of its nested `heading_level` can raise after a `yield` (the list-of-yields translation is refused)
              + [("DocxContent.get_full_text", {})])

UMODULES = {
    "PyUnits": dict(
        src=DT_SRC, pymod="sharepoint2text.parsing.extractors.data_types",
        imports=["S2T.Py.Units"], uses=[], consts={}, envtype=f"{P}.Env", loggers={"logger"},
        # Protocol classes used as parameter types: name -> the methods the translated code calls on them
        protocols={"UnitInterface": ["get_text"]},
        # representation of fields whose annotation names an interface: the class the code stores there
        field_types={"PdfUnit.images": "list[PdfImage]", "OdtUnit.images": "list[OpenDocumentImage]"},
        funcs=UNIT_FUNCS),
}
MODULES.update(UMODULES)

LIST_MUTATORS = {"append", "extend", "pop"}


def rec_name(cls: str) -> str:
    return RP + cls


def is_urec(t) -> bool:
    return t[0] == "rec" and t[1].startswith(RP) and "pyclass" in RECORDS[t[1]]


# ----------------------------------------------------------------------------- annotations -> types
_LIST_HEADS = {"List", "list", "typing.List", "typing.Iterator", "typing.Iterable", "Iterator", "Iterable",
               "typing.Sequence", "Sequence"}
_BASE = {"int": INT, "str": STR, "bool": BOOL, "None": NONE, "typing.Any": ANY, "Any": ANY}


class Annot:
    """annotation (AST node or source text) -> translator type, against the dataclasses of one running module"""

    def __init__(self, mod: "UModTr"):
        self.mod = mod

    def parse(self, a, want_record=None):
        if a is None:
            return None
        if isinstance(a, str):
            try:
                a = ast.parse(a, mode="eval").body
            except SyntaxError:
                return None
        if isinstance(a, ast.Constant):
            if a.value is None:
                return NONE
            if isinstance(a.value, str):
                return self.parse(a.value)
            return None
        txt = ast.unparse(a)
        if txt in _BASE:
            return _BASE[txt]
        if isinstance(a, ast.Name):
            if a.id in self.mod.cfg.get("protocols", {}) and self.mod.is_protocol(a.id):
                return self.mod.protocol_type(a.id)
            if self.mod.is_dataclass(a.id):
                self.mod.need_record(a.id)
                return Rec(rec_name(a.id))
            return None
        if isinstance(a, ast.BinOp) and isinstance(a.op, ast.BitOr):
            l, r = self.parse(a.left), self.parse(a.right)
            if r == NONE and l not in (None, NONE):
                return l if l[0] == "opt" else Opt(l)
            if l == NONE and r not in (None, NONE):
                return r if r[0] == "opt" else Opt(r)
            return None
        if isinstance(a, ast.Subscript):
            head = ast.unparse(a.value)
            if head in _LIST_HEADS:
                inner = self.parse(a.slice)
                return None if inner in (None, NONE) else Lst(inner)
            if head in ("typing.Generator", "Generator") and isinstance(a.slice, ast.Tuple) and a.slice.elts:
                inner = self.parse(a.slice.elts[0])
                return None if inner in (None, NONE) else Lst(inner)
            if head in ("Optional", "typing.Optional"):
                inner = self.parse(a.slice)
                return None if inner in (None, NONE) else (inner if inner[0] == "opt" else Opt(inner))
            if head in ("tuple", "Tuple", "typing.Tuple") and isinstance(a.slice, ast.Tuple):
                parts = [self.parse(x) for x in a.slice.elts]
                return None if any(p in (None, NONE) for p in parts) else Tup(*parts)
            if head in ("dict", "Dict", "typing.Dict") and isinstance(a.slice, ast.Tuple) and len(a.slice.elts) == 2:
                k, v = self.parse(a.slice.elts[0]), self.parse(a.slice.elts[1])
                if k in (INT, STR) and v not in (None, NONE):
                    return Dict(k, v)
                return None
        return None


# ----------------------------------------------------------------------------- one module
class UModTr(ModTrX):
    def __init__(self, name):
        super().__init__(name)
        self.annot = Annot(self)
        self.rec_order: list = []      # dataclass names, dependency order (a record after the records of its fields)
        self.rec_text: dict = {}       # dataclass name -> Lean structure text
        self.rec_busy: set = set()
        self.aux: list = []
        self.tree = parse(self.cfg["src"])
        self.classdefs = {n.name: n for n in self.tree.body if isinstance(n, ast.ClassDef)}

    # ---- classes of the running module
    def is_dataclass(self, n):
        c = getattr(self.pymod, n, None)
        return isinstance(c, type) and dataclasses.is_dataclass(c) and not getattr(c, "_is_protocol", False) \
            and n in self.classdefs and c.__module__ == self.pymod.__name__

    def is_protocol(self, n):
        c = getattr(self.pymod, n, None)
        return isinstance(c, type) and getattr(c, "_is_protocol", False) and n in self.classdefs

    def protocol_type(self, n):
        key = RP + "proto:" + n
        RECORDS[key] = dict(lean=f"U_{n}", attrs={}, methods={}, protocol=n)
        return Rec(key)

    def implements(self, cls, proto):
        c, p = getattr(self.pymod, cls, None), getattr(self.pymod, proto, None)
        return isinstance(c, type) and isinstance(p, type) and p in c.__mro__

    # ---- records generated from the dataclasses
    def need_record(self, n):
        """make sure the Lean structure of dataclass `n` (and of every dataclass its fields mention) exists"""
        key = rec_name(n)
        if n in self.rec_text or n in self.rec_busy:
            if n in self.rec_busy and n not in self.rec_text:
                self.notes.append(f"{self.cfg['src']}: dataclass `{n}` refers to itself through its fields (not modelled)")
            return
        self.rec_busy.add(n)
        cls = getattr(self.pymod, n)
        # placeholder first: the attribute table is filled below
        RECORDS[key] = dict(lean=f"S2T.Gen.{self.name}.{ident(n)}", pyclass=n, attrs={}, methods={}, settable=False,
                            uctor=[], udefaults={})
        lines, attrs, ctor, dflts = [], {}, [], {}
        for f in dataclasses.fields(cls):
            over = self.cfg.get("field_types", {}).get(f"{n}.{f.name}")
            src = over if over is not None else (f.type if isinstance(f.type, str) else getattr(f.type, "__name__", repr(f.type)))
            t = self.annot.parse(src)
            if t is None or t == NONE:
                t = OPAQUE
            if f.default is None and t != OPAQUE and t[0] != "opt":
                t = Opt(t)      # `x: str = None`: the default shows that None is a value of the field
                src = f"{src} (default None: Optional)"
            d = self.default_code(f, t)
            attrs[f.name] = (ident(f.name), t, False)
            ctor.append(f.name)
            if d is not None:
                dflts[f.name] = d
            lines.append(f"  {ident(f.name)} : {lt(t)}" + (f" := {d}" if d is not None else "")
                         + (f"   -- {src}" if t == OPAQUE or over is not None or "Optional)" in str(src) else ""))
        RECORDS[key].update(attrs=attrs, uctor=ctor, udefaults=dflts)
        doc = f"/-- dataclass `{n}` ({', '.join(b.__name__ for b in cls.__bases__)}) -/"
        body = "\n".join(lines) if lines else ""
        self.rec_text[n] = f"{doc}\nstructure {ident(n)} where\n{body}\n  deriving Inhabited\n" if lines else \
            f"{doc}\nstructure {ident(n)} where\n  deriving Inhabited\n"
        self.rec_order.append(n)
        self.rec_busy.discard(n)

    def default_code(self, f, t):
        """Lean text of the dataclass default of field `f` (None: the field is required)"""
        if f.default is not dataclasses.MISSING:
            d = f.default
            if t == OPAQUE: return "default"
            if d is None and t[0] == "opt": return "none"
            if isinstance(d, bool) and t == BOOL: return "true" if d else "false"
            if isinstance(d, int) and not isinstance(d, bool) and t == INT: return f"({d} : Int)"
            if isinstance(d, int) and not isinstance(d, bool) and t == Opt(INT): return f"(some ({d} : Int))"
            if isinstance(d, str) and t == STR: return chars(d)
            if isinstance(d, str) and t == Opt(STR): return f"(some {chars(d)})"
            if d is None and t == STR:
                # a `str` field whose default is None (annotation and default disagree in the source)
                self.notes.append(f"{self.cfg['src']}: field `{f.name}`: default None for a field annotated {f.type}")
                return None
            self.notes.append(f"{self.cfg['src']}: field `{f.name}`: default {d!r} is not expressible at type {lt(t)}")
            return None
        if f.default_factory is not dataclasses.MISSING:
            fac = f.default_factory
            if t == OPAQUE: return "default"
            if fac is list and t[0] == "list": return "[]"
            if fac is dict and t[0] == "dict": return "[]"
            if isinstance(fac, type) and t[0] == "rec" and RECORDS[t[1]].get("pyclass") == fac.__name__:
                return "{}"      # Lean checks that every field of that structure has a default
            self.notes.append(f"{self.cfg['src']}: field `{f.name}`: default factory {fac!r} is not expressible at type {lt(t)}")
            return None
        return None

    def check_method(self, cls, m):
        c = getattr(self.pymod, cls, None)
        if not isinstance(c, type) or m not in vars(c):
            self.notes.append(f"{self.cfg['src']}: `{cls}.{m}` is not defined in the body of the class")

    # ---- the module
    def run(self):
        tree = self.tree
        fdefs = {n.name: n for n in tree.body if isinstance(n, ast.FunctionDef)}
        for cls in tree.body:
            if isinstance(cls, ast.ClassDef):
                for n in cls.body:
                    if isinstance(n, ast.FunctionDef):
                        fdefs[f"{cls.name}.{n.name}"] = n
        defs, own = [], []
        for fname, opts in self.cfg["funcs"]:
            if fname not in fdefs:
                self.notes.append(f"{self.cfg['src']}: function `{fname}` not found")
                continue
            obj = self._runtime(fname)
            if isinstance(obj, property):
                obj = obj.fget
            if getattr(getattr(obj, "__code__", None), "co_firstlineno", None) not in (
                    fdefs[fname].lineno, *(d.lineno for d in fdefs[fname].decorator_list)):
                self.notes.append(f"{self.cfg['src']}: runtime `{fname}` is not the function defined in the source text")
            opts = dict(opts)
            if "." in fname:
                cname = fname.rsplit(".", 1)[0]
                if not self.is_dataclass(cname):
                    self.notes.append(f"{self.cfg['src']}: `{cname}` is not a dataclass of the module at run time")
                    continue
                self.need_record(cname)
                opts.setdefault("types", {})
                opts["types"] = dict(opts["types"])
                opts["types"].setdefault("self", Rec(rec_name(cname)))
            ft = UFuncTr(self, fdefs[fname], opts, qualname=fname)
            text, sig = ft.translate()
            self.sigs[fname] = sig
            own.append(fname)
            defs.append((fname, text, list(ft.aux)))
        self.notes = list(dict.fromkeys(self.notes))
        # protocol classes: one type class per protocol, one instance per translated implementing class
        protos = []
        for pn, meths in self.cfg.get("protocols", {}).items():
            if not self.is_protocol(pn):
                self.notes.append(f"{self.cfg['src']}: `{pn}` is not a Protocol class at run time")
                continue
            impls = []
            for cn in [c for c in self.rec_order if self.implements(c, pn)]:
                if all(f"{cn}.{m}" in self.sigs for m in meths):
                    bad = [m for m in meths if self.sigs[f"{cn}.{m}"].eff or self.sigs[f"{cn}.{m}"].env
                           or len(self.sigs[f"{cn}.{m}"].params) != 1]
                    if bad:
                        self.notes.append(f"{self.cfg['src']}: `{cn}.{bad[0]}` is not a pure method of `self` only (protocol {pn})")
                        continue
                    for m in meths:
                        self.check_method(cn, m)
                    impls.append(cn)
            protos.append((pn, meths, impls))
        L = [HEADER.format(src=self.cfg["src"])]
        L.append("import S2T.Py.Prelude")
        for i in self.cfg["imports"]:
            L.append(f"import {i}")
        L.append("set_option linter.unusedVariables false")
        L.append(f"namespace S2T.Gen.{self.name}\n")
        for cn, mro in sorted(self.excs.items()):
            L.append(f"/-- `raise {cn}(…)` at the `site`-th raise statement of `func` (message dropped) -/")
            L.append(f"def exc_{cn} (func : String) (site : Nat) : S2T.Py.Exc :=\n  ⟨{lean_str(cn)}, ["
                     + ", ".join(lean_str(m) for m in mro) + "], func, site⟩\n")
        L.append("/-! ## the dataclasses (generated from `dataclasses.fields` of the running classes) -/\n")
        for n in self.rec_order:
            L.append(self.rec_text[n])
        emitted_protos = set()

        def emit_proto(pn, meths):
            L.append(f"/-- Protocol `{pn}`: the methods the translated functions call on a value of this type -/")
            L.append(f"class {ident(pn)} (α : Type) where")
            for m in meths:
                rt = self.proto_sigs.get((pn, m))
                L.append(f"  {ident(m)} : α → {lt(rt) if rt else 'Unit'}")
            L.append("")
        self.proto_sigs = {}
        for pn, meths, impls in protos:
            for m in meths:
                rts = {self.sigs[f"{c}.{m}"].ret for c in impls}
                if len(rts) == 1:
                    self.proto_sigs[(pn, m)] = rts.pop()
                elif rts:
                    self.notes.append(f"{self.cfg['src']}: implementations of `{pn}.{m}` have different result types")
        pending_inst = {pn: list(impls) for pn, _, impls in protos}
        proto_meths = {pn: meths for pn, meths, _ in protos}
        done_funcs = set()
        for fname, text, aux in defs:
            # a protocol class is declared (with the instances available so far) before its first use
            for pn in proto_meths:
                if f"U_{pn}" in text and pn not in emitted_protos:
                    emit_proto(pn, proto_meths[pn])
                    emitted_protos.add(pn)
            for a in aux:
                L.append(a)
            L.append(text)
            done_funcs.add(fname)
            for pn in list(emitted_protos):
                for cn in list(pending_inst[pn]):
                    if all(f"{cn}.{m}" in done_funcs for m in proto_meths[pn]):
                        L.append(f"instance : {ident(pn)} {ident(cn)} := ⟨" + ", ".join(
                            f"{ident(cn + '.' + m)}" for m in proto_meths[pn]) + "⟩\n")
                        pending_inst[pn].remove(cn)
        for pn in proto_meths:
            if pn not in emitted_protos:
                emit_proto(pn, proto_meths[pn])
                emitted_protos.add(pn)
            for cn in pending_inst[pn]:
                L.append(f"instance : {ident(pn)} {ident(cn)} := ⟨" + ", ".join(
                    f"{ident(cn + '.' + m)}" for m in proto_meths[pn]) + "⟩\n")
        L.append("/-- names of the translated functions, source order of the whitelist -/")
        L.append("def translated : List String := " + lean_list((lean_str(f) for f in own), per_line=4) + "\n")
        L.append("/-- the generated structures (dataclasses), dependency order -/")
        L.append("def records : List String := " + lean_list((lean_str(f) for f in self.rec_order), per_line=6) + "\n")
        L.append("/-- classes with an instance of each protocol type class -/")
        L.append("def protocol_instances : List (String × List String) := " + lean_list(
            f"({lean_str(pn)}, {lean_list((lean_str(c) for c in impls), per_line=8, indent='')})".replace("\n", " ")
            for pn, _, impls in protos) + "\n")
        self.notes = list(dict.fromkeys(self.notes))
        L.append("/-- constructs the translator did not understand (must be empty) -/")
        L.append("def notes : List String := " + lean_list(lean_str(n) for n in self.notes) + "\n")
        L.append(f"end S2T.Gen.{self.name}\n")
        return "\n".join(L)


def translate_module(name):
    if name not in UMODULES:
        from gen import pyfun_paths
        return pyfun_paths.translate_module(name)
    if name not in pyfun._DONE:
        m = UModTr(name)
        text = m.run()
        pyfun._DONE[name] = {"text": text, "sigs": m.sigs, "notes": m.notes}
    return pyfun._DONE[name]


def _mk(name):
    def gen():
        return translate_module(name)["text"]
    gen.__name__ = "gen_" + name
    return gen


for _name in UMODULES:
    generator(_name)(_mk(_name))


# ----------------------------------------------------------------------------- one function
class UFuncTr(FuncTrX):
    def __init__(self, mod, node, opts, qualname=None):
        super().__init__(mod, node, opts, qualname=qualname)
        self.aux: list = []              # auxiliary definitions (while loops, nested functions), emitted before the function
        self.is_generator = any(isinstance(n, (ast.Yield, ast.YieldFrom)) for n in self._own_nodes(node))
        self.after_yield = False
        self.hyps: list = [dict()]       # stack of {narrowing key: [hypothesis name, form, used?]}
        self.hcount = 0
        self.protos: list = []           # protocol type variables of the signature
        self.whiles = 0
        self.nested: dict = {}           # nested function name -> NestedFn
        self.is_property = any(isinstance(d, ast.Name) and d.id == "property" for d in node.decorator_list)
        self.refvars: dict = {}          # local holding a reference to an element of a local list -> that list
        self.refidx: dict = {}           # loop variable over such a list -> the Lean name of its position

    _STATE = FuncTrX._STATE + ("after_yield", "hcount", "whiles", "nested", "aux", "refidx")

    def snapshot(self):
        # the hypothesis records are shared (a use inside a probe that is undone only makes the `if` dependent)
        return super().snapshot(), [dict(d) for d in self.hyps]

    def restore(self, snap):
        base, hyps = snap
        super().restore(base)
        self.hyps = [dict(d) for d in hyps]

    @staticmethod
    def _own_nodes(node):
        """nodes of a function body without the bodies of nested functions / lambdas"""
        todo = list(node.body)
        while todo:
            n = todo.pop()
            yield n
            for ch in ast.iter_child_nodes(n):
                if not isinstance(ch, (ast.FunctionDef, ast.AsyncFunctionDef, ast.Lambda, ast.ClassDef)):
                    todo.append(ch)

    # ---- types
    def annot(self, node):
        if node is None:
            return None
        return self.mod.annot.parse(node)

    def proto_of(self, t):
        return RECORDS[t[1]].get("protocol") if t[0] == "rec" and t[1] in RECORDS else None

    def proto_ret(self, pn, m):
        rts = {s.ret for k, s in self.mod.sigs.items()
               if k.endswith("." + m) and self.mod.is_dataclass(k.rsplit(".", 1)[0]) and self.mod.implements(k.rsplit(".", 1)[0], pn)}
        if len(rts) != 1:
            raise Unsupported(f"method .{m} of protocol {pn}: {len(rts)} result types among the translated implementations")
        return rts.pop()

    def coercion(self, t, want):
        if t == want:
            return ""
        if want[0] == "rec" and self.proto_of(want) and is_urec(t) \
                and self.mod.implements(RECORDS[t[1]]["pyclass"], self.proto_of(want)):
            return ""      # the type variable is instantiated by this class (checked by Lean's unifier)
        return super().coercion(t, want)

    def coerce(self, code, t, want, node):
        if want is not None and t is not None and t != want and want != UNK and t != UNK:
            f = self.coercion(t, want)
            if f == "":
                return code
        return super().coerce(code, t, want, node)

    def unify2(self, a, b):
        if a == Lst(UNK) and b[0] == "list": return b
        if b == Lst(UNK) and a[0] == "list": return a
        return unify(a, b)

    # ---- analysis: lists mutated in place stay un-aliased
    def analyse(self):
        FuncTr.analyse(self)
        par = _parents(self.node)
        params = {a.arg for a in list(self.node.args.args) + list(self.node.args.kwonlyargs)}
        inplace = set()
        for n in ast.walk(self.node):
            if isinstance(n, ast.Call) and isinstance(n.func, ast.Attribute) and n.func.attr in LIST_MUTATORS \
                    and isinstance(n.func.value, ast.Name):
                inplace.add(n.func.value.id)
        self.inplace = inplace
        # d[k] = v / d[k].append(x) on a local dict: the dict is re-bound (`d := dSet …`); its list values are only
        # ever created by the `[]` literal stored there, and every mutation precedes every read that lets a value out
        self.dict_mut = {}
        for n in ast.walk(self.node):
            tgt = None
            if isinstance(n, (ast.Assign, ast.AnnAssign)):
                for t in (n.targets if isinstance(n, ast.Assign) else [n.target]):
                    if isinstance(t, ast.Subscript) and isinstance(t.value, ast.Name):
                        tgt = t.value.id
            if isinstance(n, ast.Call) and isinstance(n.func, ast.Attribute) and n.func.attr in LIST_MUTATORS \
                    and isinstance(n.func.value, ast.Subscript) and isinstance(n.func.value.value, ast.Name):
                tgt = n.func.value.value.id
            if tgt and tgt not in params:
                self.dict_mut[tgt] = max(self.dict_mut.get(tgt, 0), n.end_lineno)
                self.mut.add(tgt)
        for v, last in self.dict_mut.items():
            for n in ast.walk(self.node):
                if isinstance(n, ast.Name) and n.id == v and isinstance(n.ctx, ast.Load) and n.lineno <= last:
                    p = par.get(n)
                    ok = isinstance(p, ast.Subscript) or (isinstance(p, ast.Compare) and n in p.comparators)
                    if not ok:
                        self.note(n, f"dict `{v}` is read (`{ast.unparse(p)[:40]}`) before its last in-place update "
                                     "(a value could be shared)")
        for v in sorted(inplace):
            if v in params:
                self.note(self.node, f"in-place mutation of the parameter `{v}` (visible to the caller)")
                continue
            self.mut.add(v)
            for n in ast.walk(self.node):
                if isinstance(n, ast.Name) and n.id == v and isinstance(n.ctx, ast.Load):
                    p = par.get(n)
                    if not self.alias_free_use(n, p, par):
                        self.note(n, f"list `{v}` is mutated in place and used where an alias could be created "
                                     f"({type(p).__name__}: {ast.unparse(p)[:50]})")
                if isinstance(n, (ast.Assign, ast.AnnAssign)) and n.value is not None:
                    tg = n.targets if isinstance(n, ast.Assign) else [n.target]
                    if any(isinstance(t, ast.Name) and t.id == v for t in tg) and not self.fresh_list(n.value):
                        self.note(n, f"list `{v}` is mutated in place but bound to a value that may be shared "
                                     f"({ast.unparse(n.value)[:40]})")
        self.find_refs()

    # ---- references to elements of a local list of objects
    def ref_source(self, v):
        """the list an expression takes an element of BY REFERENCE: loop variable of `for x in L`, `L[0]`, `L[-1]`,
        `next((u for u in reversed(L) if …), <such an expression>)`; "" for None; None if it is not of this kind"""
        if isinstance(v, ast.Constant) and v.value is None:
            return ""
        if isinstance(v, ast.Name):
            for f in ast.walk(self.node):
                if isinstance(f, ast.For) and isinstance(f.target, ast.Name) and f.target.id == v.id \
                        and isinstance(f.iter, ast.Name) and f.lineno <= v.lineno <= f.end_lineno:
                    return f.iter.id
            return None
        if isinstance(v, ast.Subscript) and isinstance(v.value, ast.Name) and not isinstance(v.slice, ast.Slice):
            i = v.slice
            iv = i.value if isinstance(i, ast.Constant) else (
                -i.operand.value if isinstance(i, ast.UnaryOp) and isinstance(i.op, ast.USub)
                and isinstance(i.operand, ast.Constant) and isinstance(i.operand.value, int) else None)
            return v.value.id if iv in (0, -1) else None
        if isinstance(v, ast.Call) and isinstance(v.func, ast.Name) and v.func.id == "next" and len(v.args) == 2 \
                and not v.keywords and isinstance(v.args[0], ast.GeneratorExp) and len(v.args[0].generators) == 1:
            g = v.args[0].generators[0]
            it = g.iter
            if isinstance(it, ast.Call) and isinstance(it.func, ast.Name) and it.func.id == "reversed" and len(it.args) == 1 \
                    and isinstance(it.args[0], ast.Name) and isinstance(g.target, ast.Name) \
                    and isinstance(v.args[0].elt, ast.Name) and v.args[0].elt.id == g.target.id:
                L = it.args[0].id
                return L if self.ref_source(v.args[1]) == L else None
        return None

    def find_refs(self):
        cand = []
        for n in ast.walk(self.node):
            if isinstance(n, ast.Expr) and isinstance(n.value, ast.Call) and isinstance(n.value.func, ast.Attribute) \
                    and n.value.func.attr in ("append", "extend") and isinstance(n.value.func.value, ast.Attribute):
                recv = n.value.func.value.value
                if isinstance(recv, ast.BoolOp) and isinstance(recv.op, ast.Or):
                    recv = recv.values[0]
                if isinstance(recv, ast.Name) and recv.id not in cand:
                    cand.append(recv.id)
        params = {a.arg for a in list(self.node.args.args) + list(self.node.args.kwonlyargs)}
        for x in cand:
            if x in params:
                continue
            lists, ok = set(), True
            for n in ast.walk(self.node):
                if isinstance(n, (ast.Assign, ast.AnnAssign)) and n.value is not None:
                    tg = n.targets if isinstance(n, ast.Assign) else [n.target]
                    if any(isinstance(t, ast.Name) and t.id == x for t in tg):
                        L = self.ref_source(n.value)
                        if L is None:
                            ok = False
                        elif L:
                            lists.add(L)
                if isinstance(n, (ast.For, ast.comprehension)) and x in self._targets(n.target):
                    ok = False
            if ok and len(lists) == 1:
                L = lists.pop()
                self.refvars[x] = L
                self.mut.add(x)
                self.mut.add(L)
        # the list must keep its shape while references into it are alive: never re-bound / popped / appended after
        # the first reference is taken
        for x, L in self.refvars.items():
            first = min((n.lineno for n in ast.walk(self.node) if isinstance(n, (ast.Assign, ast.AnnAssign)) and n.value is not None
                         and any(isinstance(t, ast.Name) and t.id == x for t in (n.targets if isinstance(n, ast.Assign) else [n.target]))
                         and self.ref_source(n.value)), default=None)
            for n in ast.walk(self.node):
                if first is None or getattr(n, "lineno", 0) <= first:
                    continue
                bad = (isinstance(n, ast.Call) and isinstance(n.func, ast.Attribute) and n.func.attr in LIST_MUTATORS
                       and isinstance(n.func.value, ast.Name) and n.func.value.id == L) or \
                      (isinstance(n, ast.Name) and n.id == L and isinstance(n.ctx, ast.Store))
                if bad:
                    self.note(n, f"list `{L}` is re-bound / resized while `{x}` refers to one of its elements")

    def ref_expr(self, v):
        """code of type Nat: the position of the element the reference expression `v` denotes"""
        if isinstance(v, ast.Name) and v.id in self.refidx:
            return self.refidx[v.id]
        L = self.ref_source(v)
        if not L or L not in self.declared or self.vars.get(L, UNK)[0] != "list":
            raise Unsupported(f"`{ast.unparse(v)[:40]}` is not a reference into a local list")
        if isinstance(v, ast.Subscript):
            self.eff = True
            i = v.slice
            first = isinstance(i, ast.Constant) and i.value == 0
            return f"(← {P}.{'refFirst' if first else 'refLast'} {ident(L)})"
        if isinstance(v, ast.Call):
            g = v.args[0].generators[0]
            d = self.ref_expr(v.args[1])
            u = g.target.id
            if u in self.vars:
                raise Unsupported("generator variable shadows a local")
            self.vars[u] = self.vars[L][1]
            try:
                conds = []
                for c in g.ifs:
                    cc, ec = self.cond(c)
                    if ec:
                        raise Unsupported("condition of next(…) that may raise")
                    conds.append(cc)
            finally:
                del self.vars[u]
            body = " && ".join(conds) if conds else "true"
            return f"(({P}.refFindLast (fun {ident(u)} => {body}) {ident(L)}).getD {d})"
        raise Unsupported(f"reference expression {ast.unparse(v)[:40]}")

    def alias_free_use(self, n, p, par):
        if isinstance(p, ast.Attribute):
            return True                                  # receiver of a method call
        if isinstance(p, ast.Return):
            return True
        if isinstance(p, (ast.If, ast.While, ast.IfExp)) and p.test is n:
            return True
        if isinstance(p, (ast.BoolOp, ast.Compare)) or (isinstance(p, ast.UnaryOp) and isinstance(p.op, ast.Not)):
            return True
        if isinstance(p, ast.Call) and n in p.args:
            if isinstance(p.func, ast.Name) and p.func.id in ("len", "bool", "list", "tuple", "max", "min", "any", "all",
                                                              "reversed", "enumerate", "iter"):
                return True
            if isinstance(p.func, ast.Attribute) and p.func.attr in ("join", "extend"):
                return True                              # copies the elements
            return False
        if isinstance(p, (ast.For, ast.comprehension)) and p.iter is n:
            body = p.body if isinstance(p, ast.For) else []
            return not any(isinstance(m, ast.Call) and isinstance(m.func, ast.Attribute) and m.func.attr in LIST_MUTATORS
                           and isinstance(m.func.value, ast.Name) and m.func.value.id == n.id
                           for s in body for m in ast.walk(s))
        if isinstance(p, ast.Subscript) and p.value is n:
            return True
        if isinstance(p, ast.BinOp) and isinstance(p.op, ast.Add):
            return True                                  # a new list
        if isinstance(p, ast.keyword) and isinstance(par.get(p), ast.Call):
            # stored in a freshly built object: no alias can be observed if the name was bound to a fresh list in the same
            # function / loop body (so every execution stores another list) and is not mutated after this use there
            scope = p
            while scope in par and not isinstance(scope, (ast.For, ast.While, ast.FunctionDef)):
                scope = par[scope]
            body = [m for s2 in scope.body for m in ast.walk(s2)]
            bound = any(isinstance(m, (ast.Assign, ast.AnnAssign)) and m.value is not None and m.lineno < n.lineno
                        and any(isinstance(t, ast.Name) and t.id == n.id
                                for t in (m.targets if isinstance(m, ast.Assign) else [m.target]))
                        and self.fresh_list(m.value) for m in body)
            later = any(isinstance(m, ast.Call) and isinstance(m.func, ast.Attribute) and m.func.attr in LIST_MUTATORS
                        and isinstance(m.func.value, ast.Name) and m.func.value.id == n.id and m.lineno > n.lineno
                        for m in body)
            return bound and not later
        if isinstance(p, ast.Yield):
            return False
        return False

    def fresh_list(self, e):
        if isinstance(e, ast.IfExp):
            return self.fresh_list(e.body) and self.fresh_list(e.orelse)
        if isinstance(e, ast.Call) and isinstance(e.func, ast.Attribute) and e.func.attr in ("split", "splitlines"):
            return True
        if isinstance(e, ast.List) or isinstance(e, ast.Dict):
            return True
        return super().fresh_list(e)

    # ---- narrowing carried by hypotheses (pure)
    def pkey(self, e):
        """key of an expression whose value cannot change behind the translator's back: a local / parameter name,
        or `p.attr` of a parameter that is never re-bound or updated"""
        if isinstance(e, ast.Name) and e.id in self.vars:
            return e.id
        if isinstance(e, ast.Attribute) and isinstance(e.value, ast.Name):
            p = e.value.id
            if p not in self.mut and not (p == "self" and self.self_mut) and p in self.vars \
                    and p not in self.refvars:
                return f"{p}.{e.attr}"
        return None

    def atom_fact(self, test):
        """(key, form when the test is true, form when it is false) for a test that is a narrowing atom"""
        if isinstance(test, ast.UnaryOp) and isinstance(test.op, ast.Not):
            k = self.pkey(test.operand)
            if k:
                return k, None, "nottruthy"
            return None
        if isinstance(test, ast.Compare) and len(test.ops) == 1 and isinstance(test.comparators[0], ast.Constant) \
                and test.comparators[0].value is None:
            k = self.pkey(test.left)
            if k and isinstance(test.ops[0], ast.IsNot):
                return k, "issome", None
            if k and isinstance(test.ops[0], ast.Is):
                return k, None, "notisnone"
            return None
        k = self.pkey(test)
        if k:
            return k, "truthy", None
        return None

    def push_hyp(self, fact, sense):
        """open a scope; -> the hypothesis record [name, form, used] (or None) for `fact` under `sense`"""
        self.hyps.append({})
        if fact is None:
            return None
        key, pos, neg = fact
        form = pos if sense else neg
        if form is None:
            return None
        self.hcount += 1
        rec = [f"py_h{self.hcount}", form, False]
        self.hyps[-1][key] = rec
        return rec

    def pop_hyp(self):
        self.hyps.pop()

    def find_hyp(self, key):
        for d in reversed(self.hyps):
            if key in d:
                return d[key]
        return None

    def kill(self, name):
        super().kill(name)
        for d in self.hyps:
            for k in [k for k in d if k == name or k.startswith(name + ".")]:
                del d[k]

    def narrowed_value(self, e, c, t):
        """`e` (translated to `c : t`) used where a dominating test gives a hypothesis: Optional -> its value"""
        k = self.pkey(e)
        if not k or t[0] != "opt":
            return None
        h = self.find_hyp(k)
        if h is None:
            return None
        fn = {"truthy": "getT", "issome": "getS", "notisnone": "getN", "nottruthy": "getNT"}[h[1]]
        h[2] = True
        return f"({P}.{fn} {c} {h[0]})", t[1], False

    def name_load(self, e):
        n = e.id
        if n in self.vars and self.vars[n][0] == "opt":
            r = self.narrowed_value(e, ident(n), self.vars[n])
            if r:
                return r
        if n in self.nested and n not in self.vars:
            raise Unsupported(f"nested function `{n}` used as a value")
        return super().name_load(e)

    # ---- expressions
    def expr(self, e):
        r = super().expr(e)
        if self.is_generator and self.after_yield and r[2]:
            self.note(e, "an operation that may raise is evaluated after a `yield` of a generator function "
                         "(the list-of-yielded-values translation would move the exception)")
        return r

    def _expr_x(self, e):
        # r.attr where r refers to an element of a local list
        if isinstance(e, ast.Attribute) and isinstance(e.value, ast.Name) and e.value.id in self.refvars \
                and e.value.id in self.declared:
            x = e.value.id
            L = self.refvars[x]
            tl = self.vars.get(L, UNK)
            if L not in self.declared or tl[0] != "list" or not is_urec(tl[1]) or e.attr not in RECORDS[tl[1][1]]["attrs"]:
                raise Unsupported(f"attribute .{e.attr} through the reference `{x}`")
            fld, ft, _ = RECORDS[tl[1][1]]["attrs"][e.attr]
            self.eff = True
            return f"(← {P}.derefOpt {ident(L)} {ident(x)}).{fld}", ft, True
        # p.attr narrowed by a hypothesis
        if isinstance(e, ast.Attribute) and self.pkey(e) and isinstance(e.value, ast.Name):
            t0 = self.vars.get(e.value.id, UNK)
            if t0[0] == "rec" and e.attr in RECORDS[t0[1]]["attrs"]:
                fld, ft, _ = RECORDS[t0[1]]["attrs"][e.attr]
                if ft[0] == "opt":
                    r = self.narrowed_value(e, f"{ident(e.value.id)}.{fld}", ft)
                    if r:
                        return r
        # a property of a translated class
        if isinstance(e, ast.Attribute):
            snap = self.snapshot()
            c, t, eff = self.expr(e.value)
            if is_urec(t):
                pyc = RECORDS[t[1]]["pyclass"]
                q = f"{pyc}.{e.attr}"
                if q in self.mod.sigs and getattr(self.mod.sigs[q], "is_property", False):
                    s = self.mod.sigs[q]
                    self.mod.check_method(pyc, e.attr)
                    head = self.fn_value(s)
                    if s.eff:
                        self.eff = True
                        return f"(← ({head} {c}))", s.ret, True
                    return f"({head} {c})", s.ret, eff
                if e.attr in RECORDS[t[1]]["attrs"]:
                    fld, ft, _ = RECORDS[t[1]]["attrs"][e.attr]
                    return f"{c}.{fld}", ft, eff
                raise Unsupported(f"attribute .{e.attr} of {pyc} (neither a dataclass field nor a translated property)")
            self.restore(snap)
        # x or d  (x Optional[T], d : T)
        if isinstance(e, ast.BoolOp) and isinstance(e.op, ast.Or) and len(e.values) == 2:
            snap = self.snapshot()
            a, ta, ea = self.expr(e.values[0])
            b, tb, eb = self.expr(e.values[1])
            if ta[0] == "opt" and ta[1] == tb and tb in (INT, STR) and not eb:
                return f"({P}.orD {a} {b})", tb, ea
            self.restore(snap)
        if isinstance(e, ast.IfExp):
            r = self.stream_copy(e)
            if r is not None:
                return r
            snap = self.snapshot()
            c, ec = self.cond(e.test)
            fact = self.atom_fact(e.test)
            r1 = self.push_hyp(fact, True); a, ta, ea = self.expr(e.body); self.pop_hyp()
            r2 = self.push_hyp(fact, False); b, tb, eb = self.expr(e.orelse); self.pop_hyp()
            used = [r for r in (r1, r2) if r is not None and r[2]]
            if not (ea or eb or ec) and (used or ta == Lst(UNK) or tb == Lst(UNK)):
                t = self.unify2(ta, tb)
                if t is not None and t != Lst(UNK) and t != UNK:
                    a, b = self.coerce(a, ta, t, e), self.coerce(b, tb, t, e)
                    if used:
                        hn = used[0][0]
                        for r in used[1:]:
                            b = b.replace(r[0], hn)
                        return f"(if {hn} : {c} then {a} else {b})", t, False
                    return f"(if {c} then {a} else {b})", t, False
            self.restore(snap)
        if isinstance(e, ast.Subscript) and not isinstance(e.slice, ast.Slice):
            k = self.pkey(e.value)
            idx = e.slice
            iv = idx.value if isinstance(idx, ast.Constant) else (
                -idx.operand.value if isinstance(idx, ast.UnaryOp) and isinstance(idx.op, ast.USub)
                and isinstance(idx.operand, ast.Constant) and isinstance(idx.operand.value, int) else None)
            if k and iv in (0, -1):
                h = self.find_hyp(k)
                if h is not None and h[1] in ("truthy", "nottruthy"):
                    snap = self.snapshot()
                    c, t, eff = self.expr(e.value)
                    if t[0] == "list" and not eff:
                        h = self.find_hyp(k)
                        h[2] = True
                        fn = ("first" if iv == 0 else "last") + ("NE" if h[1] == "truthy" else "NT")
                        return f"({P}.{fn} {c} {h[0]})", t[1], False
                    self.restore(snap)
            snap = self.snapshot()
            c, t, eff = self.expr(e.value)
            if t[0] == "dict" and t[1] == INT:
                kc, kt, ke = self.expr(e.slice)
                if kt != INT:
                    raise Unsupported(f"dict key of type {lt(kt)}")
                self.eff = True
                return f"(← {P}.dGetItem {c} {kc})", t[2], True
            self.restore(snap)
        if isinstance(e, ast.BinOp) and isinstance(e.op, ast.Add):
            snap = self.snapshot()
            a, ta, ea = self.expr(e.left)
            b, tb, eb = self.expr(e.right)
            if ta[0] == "list" and tb[0] == "list":
                t = self.unify2(ta, tb)
                if t is not None and t != Lst(UNK):
                    return f"({self.coerce(a, ta, t, e)} ++ {self.coerce(b, tb, t, e)})", t, ea or eb
            self.restore(snap)
        if isinstance(e, ast.Dict) and not e.keys:
            return "[]", ("dict", UNK, UNK), False
        return super()._expr_x(e)

    def stream_copy(self, e: ast.IfExp):
        """`io.BytesIO(x.getvalue()) if x is not None else None` (or the mirrored `None if x is None else …`) where `x`
        is a dataclass field declared as an `io.BytesIO` stream that the translator keeps `Opaque`: a fresh stream with
        the same content, or None — the unspecified prelude function `Opaque.copyStream` of the old value.  `io.BytesIO`,
        `.getvalue()` and the `is None` test on an Opaque value are accepted in exactly this shape and nowhere else."""
        t = e.test
        if not (isinstance(t, ast.Compare) and len(t.ops) == 1 and isinstance(t.comparators[0], ast.Constant)
                and t.comparators[0].value is None and isinstance(t.ops[0], (ast.Is, ast.IsNot))):
            return None
        x = t.left
        some, none = (e.body, e.orelse) if isinstance(t.ops[0], ast.IsNot) else (e.orelse, e.body)
        if not (isinstance(none, ast.Constant) and none.value is None):
            return None
        if not (isinstance(some, ast.Call) and ast.unparse(some.func) == "io.BytesIO" and len(some.args) == 1
                and not some.keywords and isinstance(some.args[0], ast.Call) and not some.args[0].args
                and not some.args[0].keywords and isinstance(some.args[0].func, ast.Attribute)
                and some.args[0].func.attr == "getvalue"
                and ast.dump(some.args[0].func.value) == ast.dump(x)):
            return None
        if not (isinstance(x, ast.Attribute) and "io" not in self.vars):
            return None
        import io as _io
        if getattr(self.mod.pymod, "io", None) is not _io:
            return None
        snap = self.snapshot()
        c0, t0, e0 = self.expr(x.value)
        if is_urec(t0) and not e0:
            cls = getattr(self.mod.pymod, RECORDS[t0[1]]["pyclass"])
            fld = next((f for f in dataclasses.fields(cls) if f.name == x.attr), None)
            decl = fld.type if fld is not None and isinstance(fld.type, str) else ""
            if fld is not None and "io.BytesIO" in decl and RECORDS[t0[1]]["attrs"][x.attr][1] == OPAQUE:
                lf = RECORDS[t0[1]]["attrs"][x.attr][0]
                return f"({P}.Opaque.copyStream {c0}.{lf})", OPAQUE, False
        self.restore(snap)
        return None

    def compare(self, e):
        if len(e.ops) == 1:
            op, rn = e.ops[0], e.comparators[0]
            snap = self.snapshot()
            a, ta, ea = self.expr(e.left)
            b, tb, eb = self.expr(rn)
            if isinstance(op, (ast.Is, ast.IsNot)) and ta == ANY and isinstance(rn, ast.Constant) and rn.value is None:
                return (f"({a} == S2T.Py.Any.none)" if isinstance(op, ast.Is) else f"({a} != S2T.Py.Any.none)"), ea
            if isinstance(op, (ast.In, ast.NotIn)):
                c = None
                if ta == STR and tb == STR:
                    c = f"(S2T.Units.isInfixB {a} {b})"
                elif tb[0] == "dict" and tb[1] == INT and ta == INT:
                    c = f"({P}.dContains {b} {a})"
                elif tb[0] in ("list", "set") and tb[1] == ta and ta in (INT, STR):
                    c = f"(List.contains {b} {a})"
                if c:
                    return (c if isinstance(op, ast.In) else f"(!{c})"), ea or eb
            if isinstance(op, (ast.Eq, ast.NotEq)) and ta == tb and ta in (Lst(STR), Lst(INT), Opt(INT), Tup(INT, STR)):
                return (f"({a} == {b})" if isinstance(op, ast.Eq) else f"({a} != {b})"), ea or eb
            if isinstance(op, (ast.Eq, ast.NotEq)) and {ta, tb} == {INT, Opt(INT)}:
                a2 = a if ta[0] == "opt" else f"(some {a})"
                b2 = b if tb[0] == "opt" else f"(some {b})"
                return (f"({a2} == {b2})" if isinstance(op, ast.Eq) else f"({a2} != {b2})"), ea or eb
            self.restore(snap)
        return super().compare(e)

    def cond(self, e):
        if isinstance(e, ast.BoolOp) and isinstance(e.op, ast.And):
            snap = self.snapshot()
            parts, depth = [], 0
            for v in e.values:
                c, eff = self.cond(v)
                rec = self.push_hyp(self.atom_fact(v), True)
                depth += 1
                parts.append((c, eff, rec))
            for _ in range(depth):
                self.pop_hyp()
            if any(p[2] is not None and p[2][2] for p in parts):
                if any(p[1] for p in parts):
                    raise Unsupported("`and` whose later operand uses the narrowing of an earlier one and may also raise")
                code = parts[-1][0]
                for c, _, rec in reversed(parts[:-1]):
                    code = f"(if {rec[0]} : {c} then {code} else false)" if rec is not None and rec[2] else f"({c} && {code})"
                return code, False
            self.restore(snap)
        if isinstance(e, ast.BoolOp) and isinstance(e.op, ast.Or):
            # `a or b`: b is evaluated when a is false — `not xs or xs[-1] != t`
            snap = self.snapshot()
            parts, depth = [], 0
            for v in e.values:
                c, eff = self.cond(v)
                rec = self.push_hyp(self.atom_fact(v), False)
                depth += 1
                parts.append((c, eff, rec))
            for _ in range(depth):
                self.pop_hyp()
            if any(p[2] is not None and p[2][2] for p in parts):
                if any(p[1] for p in parts):
                    raise Unsupported("`or` whose later operand uses the narrowing of an earlier one and may also raise")
                code = parts[-1][0]
                for c, _, rec in reversed(parts[:-1]):
                    code = f"(if {rec[0]} : {c} then true else {code})" if rec is not None and rec[2] else f"({c} || {code})"
                return code, False
            self.restore(snap)
        if not isinstance(e, (ast.BoolOp, ast.Compare, ast.UnaryOp, ast.Call)):
            snap = self.snapshot()
            c, t, eff = self.expr(e)
            if t[0] == "dict":
                return f"(S2T.Py.truthy {c})", eff
            self.restore(snap)
        return super().cond(e)

    # ---- calls
    def ctor_call(self, n, e):
        key = rec_name(n)
        self.mod.need_record(n)
        cfg = RECORDS[key]
        given = {}
        for i, a in enumerate(e.args):
            if isinstance(a, ast.Starred) or i >= len(cfg["uctor"]):
                raise Unsupported(f"arguments of {n}(…)")
            given[cfg["uctor"][i]] = a
        for k in e.keywords:
            if k.arg not in cfg["uctor"] or k.arg in given:
                raise Unsupported(f"keyword {k.arg!r} of {n}(…)")
            given[k.arg] = k.value
        cls = getattr(self.mod.pymod, n)
        if "__init__" in vars(cls) and not getattr(cls, "__dataclass_params__", None).init:
            raise Unsupported(f"{n} has a hand-written __init__")
        if "__post_init__" in vars(cls):
            raise Unsupported(f"{n}(…): the class has a __post_init__ (not translated)")
        flds, eff = [], False
        for fn in cfg["uctor"]:
            lf, ft, _ = cfg["attrs"][fn]
            if fn in given:
                c, t, ef = self.expr(given[fn])
                flds.append(f"{lf} := {self.coerce(c, t, ft, e)}")
                eff = eff or ef
            elif fn not in cfg["udefaults"]:
                raise Unsupported(f"{n}(…) without `{fn}`, which has no default")
        return "({ " + ", ".join(flds) + " } : " + cfg["lean"] + ")", Rec(key), eff

    def _call_x(self, e):
        f = e.func
        if isinstance(f, ast.Name) and f.id not in self.vars and f.id not in self.localfns and f.id not in self.mod.sigs:
            n = f.id
            if n in self.nested:
                return self.nested_call(e)
            if self.mod.is_dataclass(n):
                return self.ctor_call(n, e)
            if n == "replace" and len(e.args) == 1 and getattr(self.mod.pymod, "replace", None) is dataclasses.replace:
                c, t, eff = self.expr(e.args[0])
                if not is_urec(t):
                    raise Unsupported(f"replace() of {lt(t)}")
                cfg = RECORDS[t[1]]
                ups = []
                for k in e.keywords:
                    if k.arg not in cfg["attrs"]:
                        raise Unsupported(f"replace(…, {k.arg}=…): not a field of {cfg['pyclass']}")
                    lf, ft, _ = cfg["attrs"][k.arg]
                    v, tv, ev = self.expr(k.value)
                    ups.append(f"{lf} := {self.coerce(v, tv, ft, e)}")
                    eff = eff or ev
                return "({ " + c + " with " + ", ".join(ups) + " })", t, eff
            if n == "iter" and len(e.args) == 1 and not e.keywords:
                a = e.args[0]
                if isinstance(a, ast.Tuple) and not a.elts:
                    return "[]", Lst(UNK), False
                c, t, eff = self.expr(a)
                if t[0] == "list":
                    return c, t, eff
                raise Unsupported(f"iter() of {lt(t)}")
            if n == "str" and len(e.args) == 1 and not e.keywords:
                snap = self.snapshot()
                c, t, eff = self.expr(e.args[0])
                if t == ANY:
                    self.env = True
                    return f"({P}.strOf env {c})", STR, eff
                self.restore(snap)
            if n == "len" and len(e.args) == 1 and not e.keywords:
                snap = self.snapshot()
                c, t, eff = self.expr(e.args[0])
                if t[0] == "dict":
                    return f"(S2T.Py.len {c})", INT, eff
                self.restore(snap)
            if n in ("enumerate", "reversed", "zip", "range"):
                raise Unsupported(f"{n}() outside an iteration position")
        return super()._call_x(e)

    def _method_x(self, e):
        f = e.func
        m = f.attr
        snap = self.snapshot()
        c, t, eff = self.expr(f.value)
        # str methods of the unit code: the definitions the hand model uses, at the tables of the environment
        if t == STR and not e.keywords:
            if m in ("strip", "lstrip", "rstrip", "lower", "splitlines") and not e.args:
                self.env = True
                return f"(S2T.Units.{m} env.tables {c})", (Lst(STR) if m == "splitlines" else STR), eff
            if m == "split" and not e.args:
                self.env = True
                return f"(S2T.Units.splitWs env.tables {c})", Lst(STR), eff
        # a method of a Protocol type: the type class method
        pn = self.proto_of(t)
        if pn and not e.args and not e.keywords:
            if m not in self.mod.cfg["protocols"].get(pn, []):
                raise Unsupported(f"method .{m} of protocol {pn} is not listed in the module's `protocols`")
            return f"({ident(pn)}.{ident(m)} {c})", self.proto_ret(pn, m), eff
        # a translated method of a generated record (any receiver expression)
        if is_urec(t):
            pyc = RECORDS[t[1]]["pyclass"]
            q = f"{pyc}.{m}"
            if q in self.mod.sigs and not (isinstance(f.value, ast.Name) and f.value.id == "self" and self.cls == pyc):
                self.restore(snap)
                sig = self.mod.sigs[q]
                self.mod.check_method(pyc, m)
                call = ast.copy_location(ast.Call(func=f, args=[f.value] + list(e.args), keywords=e.keywords), e)
                ast.fix_missing_locations(call)
                return self.apply_sig(sig, self.fn_value(sig), call)
        if t[0] == "dict" and t[1] == INT and not e.keywords:
            args = [self.expr(a) for a in e.args]
            if m == "get" and len(args) == 2 and args[0][1] == INT:
                d = self.coerce(args[1][0], args[1][1], t[2], e)
                return f"({P}.dGetD {c} {args[0][0]} {d})", t[2], eff or args[0][2] or args[1][2]
            if m == "get" and len(args) == 1 and args[0][1] == INT:
                return f"({P}.dGet? {c} {args[0][0]})", Opt(t[2]), eff or args[0][2]
            raise Unsupported(f"method .{m} on {lt(t)} with these arguments")
        self.restore(snap)
        return super()._method_x(e)

    def iterable(self, node):
        if isinstance(node, ast.Call) and isinstance(node.func, ast.Name) and node.func.id not in self.vars:
            n = node.func.id
            if n == "enumerate" and 1 <= len(node.args) <= 2:
                start = node.args[1] if len(node.args) == 2 else None
                for k in node.keywords:
                    if k.arg != "start" or start is not None:
                        raise Unsupported("arguments of enumerate()")
                    start = k.value
                it, tel, eff = self.iterable(node.args[0])
                if start is None:
                    s, ts, es = "(0 : Int)", INT, False
                else:
                    s, ts, es = self.expr(start)
                if ts != INT:
                    raise Unsupported(f"enumerate(start=…) of type {lt(ts)}")
                return f"({P}.enumerateFrom {s} {it})", Tup(INT, tel), eff or es
            if n == "reversed" and len(node.args) == 1 and not node.keywords:
                it, tel, eff = self.iterable(node.args[0])
                return f"(List.reverse {it})", tel, eff
            if n == "zip" and len(node.args) == 2 and not node.keywords:
                a, ta, ea = self.iterable(node.args[0])
                b, tb, eb = self.iterable(node.args[1])
                return f"(List.zip {a} {b})", Tup(ta, tb), ea or eb
        return super().iterable(node)

    # ---- comprehensions (generator expressions consumed as a whole are lists)
    def comprehension(self, elt, gens):
        if any(g.is_async for g in gens):
            raise Unsupported("async comprehension")
        bound, pats = [], []
        try:
            srcs = []
            eff0 = False
            for gi, g in enumerate(gens):
                it, tit, eff = self.iterable(g.iter)
                if eff and gi > 0:
                    raise Unsupported("comprehension whose inner iterable may raise")
                eff0 = eff0 or eff
                tg = g.target
                if isinstance(tg, ast.Name):
                    names, types, pat = [tg.id], [tit], ident(tg.id)
                elif isinstance(tg, ast.Tuple) and tit[0] == "tuple" and len(tit[1]) == len(tg.elts) \
                        and all(isinstance(x, ast.Name) for x in tg.elts):
                    names, types = [x.id for x in tg.elts], list(tit[1])
                    pat = "(" + ", ".join("_" if n == "_" else ident(n) for n in names) + ")"
                else:
                    raise Unsupported("comprehension target shape")
                for n, tt in zip(names, types):
                    if n == "_":
                        continue
                    if n in self.vars:
                        raise Unsupported("comprehension variable shadows a local")
                    self.vars[n] = tt
                    bound.append(n)
                for c in g.ifs:
                    cc, ec = self.cond(c)
                    if ec:
                        raise Unsupported("comprehension condition that may raise")
                    it = f"(List.filter (fun {pat} => {cc}) {it})"
                srcs.append((pat, it))
            body, tb, eb = self.expr(elt)
        finally:
            for n in bound:
                self.vars.pop(n, None)
        if eb:
            raise Unsupported("comprehension element that may raise")
        pat, it = srcs[-1]
        code = f"(List.map (fun {pat} => {body}) {it})"
        for pat, it in reversed(srcs[:-1]):
            code = f"(List.flatMap (fun {pat} => {code}) {it})"
        return code, Lst(tb), eff0

    def _expr(self, e):
        if isinstance(e, ast.GeneratorExp):
            return self.comprehension(e.elt, e.generators)
        return super()._expr(e)

    # ---- statements
    def set_after_yield(self):
        self.after_yield = True

    def empty_list_type(self, name, st):
        """element type of `name = []` from its first `.append(e)` / `.extend(xs)` (probe translation)"""
        found = None
        started = False
        for n in ast.walk(self.node):
            if n is st:
                started = True
            if isinstance(n, ast.Call) and isinstance(n.func, ast.Attribute) and isinstance(n.func.value, ast.Name) \
                    and n.func.value.id == name and n.func.attr in ("append", "extend") and len(n.args) == 1 \
                    and n.lineno >= st.lineno:
                found = n
                break
        return found

    def _stmt(self, st, out, ind, in_loop, in_try):
        # a call of a nested function that changes captured variables, as a whole statement / test / right-hand side /
        # yielded value: it runs first, the captured variables are re-bound, a temporary stands for its result
        if self.nested:
            if isinstance(st, ast.Expr) and self.hoist_nested(st.value, st, out, ind) is not None:
                return
            if isinstance(st, ast.If):
                r = self.hoist_nested(st.test, st, out, ind)
                if r is not None:
                    st = copy.copy(st)
                    st.test = r
            if isinstance(st, (ast.Assign, ast.AnnAssign)) and st.value is not None:
                r = self.hoist_nested(st.value, st, out, ind)
                if r is not None:
                    st = copy.copy(st)
                    st.value = r
            if isinstance(st, ast.Expr) and isinstance(st.value, (ast.Yield, ast.YieldFrom)) and st.value.value is not None:
                r = self.hoist_nested(st.value.value, st, out, ind)
                if r is not None:
                    st = copy.copy(st)
                    st.value = copy.copy(st.value)
                    st.value.value = r
        super()._stmt(st, out, ind, in_loop, in_try)

    def ref_stmt(self, st, out, ind) -> bool:
        # r = <reference expression> / r: T | None = None
        if isinstance(st, (ast.Assign, ast.AnnAssign)) and st.value is not None:
            tg = st.targets if isinstance(st, ast.Assign) else [st.target]
            if len(tg) == 1 and isinstance(tg[0], ast.Name) and tg[0].id in self.refvars:
                if isinstance(st.value, ast.Constant) and st.value.value is None:
                    code = "none"
                else:
                    code = f"(some {self.ref_expr(st.value)})"
                self.assign_to(tg[0], code, Opt(NAT), st, out, ind)
                return True
        # r.attr.append(x) / (r or L[-1]).attr.append(x)
        if isinstance(st, ast.Expr) and isinstance(st.value, ast.Call) and isinstance(st.value.func, ast.Attribute) \
                and st.value.func.attr in ("append", "extend") and isinstance(st.value.func.value, ast.Attribute) \
                and len(st.value.args) == 1 and not st.value.keywords:
            recv = st.value.func.value.value
            attr = st.value.func.value.attr
            alt = None
            if isinstance(recv, ast.BoolOp) and isinstance(recv.op, ast.Or) and len(recv.values) == 2:
                recv, alt = recv.values
            if not (isinstance(recv, ast.Name) and recv.id in self.refvars and recv.id in self.declared):
                return False
            x, L = recv.id, self.refvars[recv.id]
            tl = self.vars.get(L, UNK)
            if L not in self.declared or tl[0] != "list" or not is_urec(tl[1]) or attr not in RECORDS[tl[1][1]]["attrs"]:
                raise Unsupported(f"in-place change of .{attr} through the reference `{x}`")
            fld, ft, _ = RECORDS[tl[1][1]]["attrs"][attr]
            if ft[0] != "list":
                raise Unsupported(f".{attr} is not a list field")
            self.eff = True
            if self.is_generator and self.after_yield:
                self.note(st, "an operation that may raise is evaluated after a `yield` of a generator function")
            if alt is not None:
                if self.ref_source(alt) != L:
                    raise Unsupported("`r or e` where `e` is not a reference into the same list")
                snap_eff = self.eff
                d = self.ref_expr(alt)
                # the alternative is only evaluated when `r` is None: a thunk
                d_thunk = d.replace("(← ", "(", 1) if d.startswith("(← ") else f"(pure {d})"
                idx = f"(← {P}.refOr {ident(x)} {d_thunk})"
                fn = "refModify"
            else:
                idx, fn = ident(x), "refModifyOpt"
            v, tv, ev = self.expr(st.value.args[0])
            if st.value.func.attr == "append":
                v = f"[{self.coerce(v, tv, ft[1], st)}]"
            else:
                v = self.coerce(v, tv, ft, st)
            self.tmp += 1
            tmp = f"py_t{self.tmp}"
            # Python evaluates the receiver, then the argument, then appends
            if alt is not None:
                out.append(f"{ind}let {tmp}_i : Nat := {idx}")
                idx = f"{tmp}_i"
            out.append(f"{ind}let {tmp} : {lt(ft)} := {v}")
            out.append(f"{ind}{ident(L)} := (← {P}.{fn} {ident(L)} {idx} (fun py_u => {{ py_u with {fld} := py_u.{fld} ++ {tmp} }}))")
            return True
        return False

    def for_stmt(self, st, out, ind, in_try):
        if st.orelse:
            raise Unsupported("for … else")
        it, tel, _ = self.iterable(st.iter)
        names = self._targets(st.target)
        if any(n in self.declared for n in names if n != "_"):
            raise Unsupported("loop variable re-uses an assigned local")
        saved = {n: self.vars.get(n) for n in names}
        idx_name = None
        if isinstance(st.target, ast.Name):
            pat = ident(st.target.id)
            self.vars[st.target.id] = tel
            # the loop variable is taken by reference inside the body: iterate with positions
            v = st.target.id
            if isinstance(st.iter, ast.Name) and st.iter.id in self.refvars.values() and any(
                    isinstance(n, (ast.Assign, ast.AnnAssign)) and n.value is not None and isinstance(n.value, ast.Name)
                    and n.value.id == v and any(isinstance(t, ast.Name) and t.id in self.refvars
                                                for t in (n.targets if isinstance(n, ast.Assign) else [n.target]))
                    for s2 in st.body for n in ast.walk(s2)):
                idx_name = f"py_i_{v}"
                pat = f"({ident(v)}, {idx_name})"
                it = f"({P}.withIndex {it})"
        elif isinstance(st.target, ast.Tuple) and tel[0] == "tuple" and len(tel[1]) == len(st.target.elts) \
                and all(isinstance(x, ast.Name) for x in st.target.elts):
            for x, tt in zip(st.target.elts, tel[1]):
                self.vars[x.id] = tt
            pat = "(" + ", ".join("_" if x.id == "_" else ident(x.id) for x in st.target.elts) + ")"
        else:
            raise Unsupported("loop target shape")
        for other in ast.walk(self.node):
            if isinstance(other, ast.Name) and other.id in names and isinstance(other.ctx, ast.Load) \
                    and other.lineno > st.end_lineno and not self.rebound_between(other, st):
                raise Unsupported("loop variable is read after the loop")
        if self.is_generator and any(isinstance(n, (ast.Yield, ast.YieldFrom)) for n in ast.walk(st)):
            self.after_yield = True   # the body runs again after its own yield
        if idx_name:
            self.refidx[st.target.id] = idx_name
        out.append(f"{ind}for {pat} in {it} do")
        out += self.block(st.body, ind + "  ", True, in_try)
        if idx_name:
            self.refidx.pop(st.target.id, None)
        for n in names:
            if saved[n] is None:
                self.vars.pop(n, None)
            else:
                self.vars[n] = saved[n]

    def rebound_between(self, use, loop):
        """is `use` (a read of a loop variable's name after the loop) bound by a later `for` / comprehension / assignment"""
        for n in ast.walk(self.node):
            if isinstance(n, (ast.For, ast.ListComp, ast.GeneratorExp)) and n is not loop \
                    and n.lineno > loop.end_lineno and n.lineno <= use.lineno <= n.end_lineno:
                tgs = [n.target] if isinstance(n, ast.For) else [g.target for g in n.generators]
                if any(use.id in self._targets(tg) for tg in tgs):
                    return True
        return False

    def _stmt_x(self, st, out, ind, in_loop, in_try) -> bool:
        if self.refvars and self.ref_stmt(st, out, ind):
            return True
        if isinstance(st, ast.For):
            self.for_stmt(st, out, ind, in_try)
            return True
        if isinstance(st, ast.FunctionDef):
            if st.name in self.vars or st.name in self.nested:
                raise Unsupported(f"nested function `{st.name}` re-uses a bound name")
            self.nested_def(st)
            return True
        if isinstance(st, ast.While):
            self.while_stmt(st, out, ind)
            return True
        # x: T = e  (the annotation fixes the type of the local)
        if isinstance(st, ast.AnnAssign) and st.value is not None and isinstance(st.target, ast.Name) \
                and st.target.id not in self.declared and not isinstance(st.value, (ast.List, ast.Dict)):
            ta = self.annot(st.annotation)
            if ta is not None and ta != NONE:
                c, t, eff = self.expr(st.value)
                self.assign_to(st.target, self.coerce(c, t, ta, st), ta, st, out, ind)
                return True
        # yield e / yield from xs
        if isinstance(st, ast.Expr) and isinstance(st.value, (ast.Yield, ast.YieldFrom)):
            if not self.is_generator or self.ret is None or self.ret[0] != "list":
                raise Unsupported("yield in a function without a mapped Iterator[...] result annotation")
            if st.value.value is None:
                raise Unsupported("bare yield")
            c, t, eff = self.expr(st.value.value)
            if isinstance(st.value, ast.Yield):
                c = self.coerce(c, t, self.ret[1], st)
                out.append(f"{ind}py_yield := py_yield ++ [{c}]")
            else:
                if t[0] != "list":
                    raise Unsupported(f"yield from a value of type {lt(t)}")
                c = self.coerce(c, t, self.ret, st)
                out.append(f"{ind}py_yield := py_yield ++ {c}")
            self.after_yield = True
            return True
        if isinstance(st, ast.Return) and self.is_generator:
            if st.value is not None and not (isinstance(st.value, ast.Constant) and st.value.value is None):
                raise Unsupported("a generator function returns a value")
            out.append(f"{ind}return py_yield")
            return True
        # xs.extend(ys) on a local list
        if isinstance(st, ast.Expr) and isinstance(st.value, ast.Call) and isinstance(st.value.func, ast.Attribute) \
                and st.value.func.attr == "extend" and isinstance(st.value.func.value, ast.Name) \
                and len(st.value.args) == 1 and not st.value.keywords:
            v = st.value.func.value.id
            if v not in self.declared or self.vars.get(v, UNK)[0] != "list":
                raise Unsupported(f".extend() on `{v}`, which is not a local list")
            c, t, eff = self.expr(st.value.args[0])
            if t[0] != "list":
                raise Unsupported(f"extend by a value of type {lt(t)}")
            c = self.coerce(c, t, self.vars[v], st)
            out.append(f"{ind}{ident(v)} := ({ident(v)} ++ {c})")
            self.kill(v)
            return True
        if isinstance(st, ast.Expr) and isinstance(st.value, ast.Call) and isinstance(st.value.func, ast.Attribute) \
                and st.value.func.attr in ("append", "pop") and isinstance(st.value.func.value, ast.Name):
            v = st.value.func.value.id
            h = self.find_hyp(v)
            if st.value.func.attr == "pop" and not st.value.args and h is not None and h[1] == "truthy" \
                    and v in self.declared and self.vars.get(v, UNK)[0] == "list":
                h[2] = True
                out.append(f"{ind}{ident(v)} := ({P}.popNE {ident(v)} {h[0]})")
                self.kill(v)
                return True
            r = super()._stmt_x(st, out, ind, in_loop, in_try)
            self.kill(v)
            return r
        # d[k] = v on a local dict
        if isinstance(st, ast.Assign) and len(st.targets) == 1 and isinstance(st.targets[0], ast.Subscript) \
                and isinstance(st.targets[0].value, ast.Name) and self.vars.get(st.targets[0].value.id, UNK)[0] == "dict":
            d = st.targets[0].value.id
            td = self.vars[d]
            if d not in self.declared or d not in self.mut or td[1] != INT:
                raise Unsupported(f"store into `{d}` of type {lt(td)}")
            k, tk, ek = self.expr(st.targets[0].slice)
            v, tv, ev = self.expr(st.value)
            if tk != td[1]:
                raise Unsupported(f"dict key of type {lt(tk)}")
            if td[2][0] == "list" and not (isinstance(st.value, ast.List) and not st.value.elts):
                raise Unsupported("a list stored into a dict that is also updated in place must be the literal []")
            out.append(f"{ind}{ident(d)} := ({P}.dSet {k} {self.coerce(v, tv, td[2], st)} {ident(d)})")
            return True
        # d[k].append(x) on a local dict of lists
        if isinstance(st, ast.Expr) and isinstance(st.value, ast.Call) and isinstance(st.value.func, ast.Attribute) \
                and st.value.func.attr == "append" and isinstance(st.value.func.value, ast.Subscript) \
                and isinstance(st.value.func.value.value, ast.Name) and len(st.value.args) == 1 and not st.value.keywords:
            d = st.value.func.value.value.id
            td = self.vars.get(d, UNK)
            if td[0] != "dict" or d not in self.declared or d not in self.mut or td[1] != INT or td[2][0] != "list":
                raise Unsupported(f"in-place append to an element of `{d}` of type {lt(td)}")
            k, tk, ek = self.expr(st.value.func.value.slice)
            x, tx, ex = self.expr(st.value.args[0])
            if tk != INT or ek:
                raise Unsupported("dict key of this append")
            self.eff = True
            if self.is_generator and self.after_yield:
                self.note(st, "an operation that may raise is evaluated after a `yield` of a generator function")
            out.append(f"{ind}{ident(d)} := ({P}.dSet {k} ((← {P}.dGetItem {ident(d)} {k}) ++ [{self.coerce(x, tx, td[2][1], st)}]) {ident(d)})")
            return True
        # x = []  /  x: T = []  /  x: dict[...] = {}
        if isinstance(st, (ast.Assign, ast.AnnAssign)) and st.value is not None:
            tgts = st.targets if isinstance(st, ast.Assign) else [st.target]
            if len(tgts) == 1 and isinstance(tgts[0], ast.Name):
                name = tgts[0].id
                empty_list = isinstance(st.value, ast.List) and not st.value.elts
                empty_dict = isinstance(st.value, ast.Dict) and not st.value.keys
                if empty_list or empty_dict:
                    t = self.annot(st.annotation) if isinstance(st, ast.AnnAssign) else None
                    if t is None and name in self.declared:
                        t = self.vars[name]
                    if t is None and empty_list:
                        use = self.empty_list_type(name, st)
                        if use is not None:
                            snap = self.snapshot()
                            self.vars[name] = Lst(UNK)
                            c, tu, _ = self.expr(use.args[0])
                            self.restore(snap)
                            if use.func.attr == "append" and tu != UNK:
                                t = Lst(tu[1] if tu[0] == "opt" else tu)   # appended under a narrowing test (else: a note at the append)
                            elif use.func.attr == "extend" and tu[0] == "list":
                                t = tu
                    if t is None or t[0] != ("list" if empty_list else "dict") or UNK in t:
                        raise Unsupported(f"empty {'list' if empty_list else 'dict'} `{name}` whose element type is not determined by an "
                                          "annotation or its first append / extend")
                    self.assign_to(tgts[0], "[]", t, st, out, ind)
                    return True
        if isinstance(st, ast.If):
            return self.if_stmt(st, out, ind, in_loop, in_try)
        return super()._stmt_x(st, out, ind, in_loop, in_try)

    def block(self, stmts, ind, in_loop, in_try=False, keep=False):
        """`if c: <return / continue / raise>` followed by statements that use the narrowing `not c` without a
        possible exception: the same control flow written as `if h : c then … else <the rest>`"""
        for i, st in enumerate(stmts):
            if isinstance(st, ast.If) and not st.orelse and self.terminal(st.body) and i + 1 < len(stmts):
                fact = self.atom_fact(st.test)
                if fact is None or fact[2] is None:
                    continue
                snap = self.snapshot()
                before = set(self.declared)
                head = super().block(stmts[:i], ind, in_loop, in_try, keep=True) if i else []
                c, ceff = self.cond(st.test)
                self.hyps.append({})
                ay0 = self.after_yield
                body = super().block(st.body, ind + "  ", in_loop, in_try)
                self.after_yield = ay0
                self.hyps.pop()
                rec = self.push_hyp(fact, False)
                rest = self.block(stmts[i + 1:], ind + "  ", in_loop, in_try)
                self.pop_hyp()
                if rec is not None and rec[2] and not ceff:
                    out = head + [f"{ind}if {rec[0]} : {c} then"] + body + [f"{ind}else"] + rest
                    if not keep:
                        for n in self.declared - before:
                            self.declared.discard(n)
                            self.vars.pop(n, None)
                            self.out_of_scope.add(n)
                    return out
                self.restore(snap)
                break
        return super().block(stmts, ind, in_loop, in_try, keep)

    def if_stmt(self, st, out, ind, in_loop, in_try):
        """`if` with (a) hypotheses for narrowing that cannot raise, (b) branch-sensitive `after_yield`"""
        hoist = [n for n in sorted(self.definitely_assigned([st])) if n not in self.declared and n not in self.vars
                 and self.read_after(n, st)] if st.orelse else []
        if hoist:
            return super()._stmt_x(st, out, ind, in_loop, in_try)
        if isinstance(st.test, ast.BoolOp) and isinstance(st.test.op, ast.And) and not st.orelse \
                and any(self.atom_fact(v) is not None for v in st.test.values):
            # `if a and b: BODY` (no else) is `if a: if b: BODY`: each narrowing test gets its own hypothesis
            inner = st.body
            for v in reversed(st.test.values):
                node = ast.If(test=v, body=inner, orelse=[])
                ast.copy_location(node, st)
                node.end_lineno = st.end_lineno
                inner = [node]
            return self.if_stmt(inner[0], out, ind, in_loop, in_try)
        c, _ = self.cond(st.test)
        fact = self.atom_fact(st.test)
        ay0 = self.after_yield
        rec = self.push_hyp(fact, True)
        self.narrow.append(self.facts(st.test, True))
        body = self.block(st.body, ind + "  ", in_loop, in_try)
        self.narrow.pop()
        self.pop_hyp()
        ay1 = ay0 if self.terminal(st.body) else self.after_yield
        self.after_yield = ay0
        rec2 = None
        tail = []
        if st.orelse:
            rec2 = self.push_hyp(fact, False)
            self.narrow.append(self.facts(st.test, False))
            if len(st.orelse) == 1 and isinstance(st.orelse[0], ast.If):
                sub = self.block(st.orelse, ind, in_loop, in_try)
                sub[0] = f"{ind}else " + sub[0].lstrip()
                tail = sub
            else:
                tail = [f"{ind}else"] + self.block(st.orelse, ind + "  ", in_loop, in_try)
            self.narrow.pop()
            self.pop_hyp()
        self.after_yield = ay1 or (ay0 if (st.orelse and self.terminal(st.orelse)) else self.after_yield)
        used = [r for r in (rec, rec2) if r is not None and r[2]]
        if used:
            # both branches see the same hypothesis name in Lean (`h : c` / `h : ¬ c`)
            hn = used[0][0]
            for r in used[1:]:
                tail = [ln.replace(r[0], hn) for ln in tail]
            out.append(f"{ind}if {hn} : {c} then")
        else:
            out.append(f"{ind}if {c} then")
        out += body
        out += tail
        return True

    def assign_to(self, target, code, t, node, out, ind, monadic_rhs=False):
        if isinstance(target, ast.Name) and target.id in self.out_of_scope and target.id not in self.declared:
            # the earlier binding ended with its block; this assignment binds the name afresh for the current block
            # (a read that is not dominated by it still finds no binding and is reported)
            self.out_of_scope.discard(target.id)
        super().assign_to(target, code, t, node, out, ind, monadic_rhs)

    # ---- the function
    def translate(self):
        node = self.node
        for d in node.decorator_list:
            dn = d.func if isinstance(d, ast.Call) else d
            if not (isinstance(dn, ast.Name) and (dn.id in pyfun.IGNORED_DECORATORS or dn.id == "property")):
                self.note(node, f"decorator {ast.unparse(d)}")
        a = node.args
        if a.vararg or a.kwarg or a.posonlyargs:
            self.note(node, "*args / **kwargs / positional-only parameters")
        params, defaults = [], {}
        allargs = list(a.args) + list(a.kwonlyargs)
        dvals = [None] * (len(a.args) - len(a.defaults)) + list(a.defaults) + list(a.kw_defaults)
        for arg, dv in zip(allargs, dvals):
            t = self.opts.get("types", {}).get(arg.arg) or self.annot(arg.annotation)
            if t is None:
                self.note(arg, f"parameter `{arg.arg}` has no mapped annotation ({ast.unparse(arg.annotation) if arg.annotation else 'none'})")
                t = UNK
            params.append((arg.arg, t))
            self.vars[arg.arg] = t
            self.declared.add(arg.arg)
            pt = t[1] if t[0] == "list" else t
            if self.proto_of(pt) and self.proto_of(pt) not in self.protos:
                self.protos.append(self.proto_of(pt))
        self.self_mut = bool(self.cls) and any(
            isinstance(n, (ast.Assign, ast.AugAssign, ast.AnnAssign))
            and any(self.is_self_attr(t) for t in (n.targets if isinstance(n, ast.Assign) else [n.target]))
            for n in ast.walk(node))
        if self.self_mut:
            self.note(node, "a method that assigns to self.<field>")
        self.analyse()
        for arg, dv in zip(allargs, dvals):
            if dv is not None:
                c, t, eff = self.expr(dv)
                if eff:
                    self.note(dv, "default value that may raise")
                defaults[arg.arg] = self.coerce(c, t, self.vars[arg.arg], dv)
        reassigned = [p for p, _ in params if p in self.mut and p != "self"]
        declared_ret = self.opts["ret"] if "ret" in self.opts else self.annot(node.returns)
        if declared_ret is not None and self.proto_of(declared_ret) and self.proto_of(declared_ret) not in self.protos:
            declared_ret = None      # declared to return "some implementation of the protocol": the class it constructs
        elif declared_ret is None and isinstance(node.returns, ast.Name) and self.mod.is_protocol(node.returns.id):
            pass                     # likewise (a Protocol that is no parameter type of this function)
        elif declared_ret is None and node.returns is not None:
            self.note(node, f"return annotation {ast.unparse(node.returns)} is not mapped")
        if self.is_generator and (declared_ret is None or declared_ret[0] != "list"):
            self.note(node, "generator function without a mapped Iterator[...] annotation")
            declared_ret = Lst(UNK)
        self.ret = declared_ret
        pre = [f"  let mut {ident(p)} := {ident(p)}" for p in reassigned]
        if self.is_generator:
            pre.append(f"  let mut py_yield : {lt(self.ret)} := []")
        body = self.block(node.body, "  ", False, keep=True)
        if self.ret is None:
            self.ret = NONE
        if not self.terminal(node.body):
            if self.is_generator:
                if body == ["  pure ()"]:
                    body = []
                body.append("  return py_yield")
            elif self.ret == NONE:
                pass
            elif self.ret[0] == "opt":
                body.append("  return none")
            else:
                self.note(node, "control can reach the end of a function whose result type is not None-able")
        body = pre + body
        sig = Sig(f"S2T.Gen.{self.mod.name}.{ident(self.name)}", params, self.ret, self.eff, self.env, defaults)
        sig.is_property = self.is_property
        sig.generator = self.is_generator
        tv = "".join(f" {{U_{p} : Type}} [{ident(p)} U_{p}]" for p in self.protos)
        ps = "".join(f" ({ident(p)} : {lt(t)})" for p, t in params)
        envp = f" (env : {self.mod.cfg.get('envtype', 'S2T.Py.Env')})" if self.env else ""
        rt = lt(self.ret)
        if self.is_generator:
            self.remarks.append("generator function: translated as the list of the yielded values")
        if self.is_property:
            self.remarks.append("property: translated as a function of `self`")
        L = [f"/-- `{self.name}` of {self.mod.cfg['src']}" + "".join("\n    " + r for r in self.remarks) + " -/"]
        if self.eff:
            L.append(f"def {ident(self.name)}{envp}{tv}{ps} : S2T.Py.M {rt} := do")
        else:
            L.append(f"def {ident(self.name)}{envp}{tv}{ps} : {rt} := Id.run do")
        L += body
        return "\n".join(L) + "\n", sig

    # ---- `while xs and …: xs.pop()`: well-founded recursion on len(xs), no fuel
    #   accepted shape:   while V [and REST…]:   V.pop()
    #   where V is a local list, the body is exactly the statement `V.pop()` and REST cannot raise (it may use
    #   `V[-1]`: V is non-empty there).  Emitted:
    #       def f.while_n (read-only locals) (V : List T) : List T :=
    #         if h : (if h1 : truthy V then REST else false) then f.while_n … (popNE V (dand_left h)) else V
    #       termination_by V.length
    #       decreasing_by exact while_pop_decreasing _ _
    def while_stmt(self, st, out, ind):
        if st.orelse:
            raise Unsupported("while … else")
        test = st.test
        vals = test.values if isinstance(test, ast.BoolOp) and isinstance(test.op, ast.And) else [test]
        v = vals[0].id if isinstance(vals[0], ast.Name) else None
        if v is None or v not in self.declared or self.vars.get(v, UNK)[0] != "list" or v not in self.mut:
            raise Unsupported("while loop whose test does not start with a local list (only `while xs [and …]: xs.pop()` "
                              "has a fuel-free translation)")
        body = [s for s in st.body if not isinstance(s, ast.Pass)]
        ok = len(body) == 1 and isinstance(body[0], ast.Expr) and isinstance(body[0].value, ast.Call) \
            and isinstance(body[0].value.func, ast.Attribute) and body[0].value.func.attr == "pop" \
            and isinstance(body[0].value.func.value, ast.Name) and body[0].value.func.value.id == v \
            and not body[0].value.args and not body[0].value.keywords
        if not ok:
            raise Unsupported(f"while loop whose body is not exactly `{v}.pop()`")
        reads = []
        for n in ast.walk(test):
            if isinstance(n, ast.Name) and n.id != v and n.id in self.vars and n.id not in reads:
                reads.append(n.id)
        # the values of the read-only names at the loop (narrowed where a dominating test narrows them)
        args, saved = [], {}
        for n in reads:
            c, t, eff = self.expr(ast.copy_location(ast.Name(id=n, ctx=ast.Load()), test))
            if eff:
                raise Unsupported(f"while test reads `{n}`, whose value may raise here")
            args.append((n, c, t))
        self.whiles += 1
        fname = f"{ident(self.name)}.while_{self.whiles}"
        snap_vars, snap_hyps, snap_narrow = dict(self.vars), self.hyps, self.narrow
        for n, c, t in args:
            self.vars[n] = t
        self.hyps, self.narrow = [dict()], [set()]
        eff0 = self.eff
        self.eff = False
        try:
            c0 = f"(S2T.Py.truthy {ident(v)})"
            if len(vals) > 1:
                rec = self.push_hyp((v, "truthy", None), True)
                rest_node = vals[1] if len(vals) == 2 else ast.copy_location(ast.BoolOp(op=ast.And(), values=vals[1:]), test)
                crest, erest = self.cond(rest_node)
                self.pop_hyp()
                if erest or self.eff:
                    raise Unsupported("while test that may raise")
                tcode = f"(if {rec[0]} : {c0} then {crest} else false)"
                proof = f"({P}.dand_left h)"
            else:
                tcode, proof = c0, "h"
        finally:
            self.vars, self.hyps, self.narrow = snap_vars, snap_hyps, snap_narrow
            self.eff = eff0
        tv = lt(self.vars[v])
        ps = "".join(f" ({ident(n)} : {lt(t)})" for n, _, t in args)
        A = [f"/-- `while {ast.unparse(test)}: {v}.pop()` (number {self.whiles} of `{self.name}`): read-only {reads}; "
             f"well-founded recursion on the length of `{v}` -/",
             f"def {fname}{ps} ({ident(v)} : {tv}) : {tv} :=",
             f"  if h : {tcode} then",
             f"    {fname} " + " ".join([ident(n) for n, _, _ in args] + [f"({P}.popNE {ident(v)} {proof})"]),
             f"  else {ident(v)}",
             f"termination_by {ident(v)}.length",
             f"decreasing_by exact {P}.while_pop_decreasing _ _"]
        self.aux.append("\n".join(A) + "\n")
        call = f"S2T.Gen.{self.mod.name}.{fname} " + " ".join([c for _, c, _ in args] + [ident(v)])
        out.append(f"{ind}{ident(v)} := ({call})")
        self.kill(v)

    # ---- nested functions (closures): auxiliary definitions with explicit state
    def nested_def(self, st: ast.FunctionDef):
        if st.decorator_list or st.args.vararg or st.args.kwarg or st.args.posonlyargs:
            raise Unsupported("nested function with decorators / *args / **kwargs")
        own_params = [a.arg for a in list(st.args.args) + list(st.args.kwonlyargs)]
        nonlocals, assigned, mutated, loaded = [], set(), [], []
        for n in ast.walk(st):
            if isinstance(n, ast.Nonlocal):
                nonlocals += [x for x in n.names if x not in nonlocals]
            if isinstance(n, ast.Global):
                raise Unsupported("`global` in a nested function")
            if isinstance(n, ast.Name) and isinstance(n.ctx, ast.Store):
                assigned.add(n.id)
            if isinstance(n, ast.Name) and isinstance(n.ctx, ast.Load) and n.id not in loaded:
                loaded.append(n.id)
            if isinstance(n, ast.Call) and isinstance(n.func, ast.Attribute) and n.func.attr in LIST_MUTATORS | {"setdefault"} \
                    and isinstance(n.func.value, ast.Name) and n.func.value.id not in mutated:
                mutated.append(n.func.value.id)
            if isinstance(n, (ast.FunctionDef, ast.Lambda)) and n is not st:
                raise Unsupported("function nested in a nested function")
        local = (assigned - set(nonlocals)) | set(own_params)
        carried = [n for n in self.vars if (n in nonlocals or (n in mutated and n not in local)) and n in self.declared]
        missing = [n for n in nonlocals if n not in carried]
        if missing:
            raise Unsupported(f"nonlocal {missing} of `{st.name}` is not bound before the definition of the nested function")
        reads = [n for n in self.vars if n in loaded and n not in local and n not in carried]
        unknown = [n for n in loaded if n not in local and n not in self.vars and n not in self.nested
                   and n not in self.mod.sigs and not hasattr(__import__("builtins"), n)
                   and not hasattr(self.mod.pymod, n)]
        if unknown:
            raise Unsupported(f"nested function `{st.name}` reads {unknown}, not bound before its definition")
        for n in carried:
            if n not in self.mut:
                raise Unsupported(f"`{n}` is changed by the nested function `{st.name}` but is not a mutable local")
        child = NestedTr(self, st, reads, carried)
        text, sig = child.translate()
        self.aux += child.aux
        self.aux.append(text)
        self.nested[st.name] = dict(sig=sig, reads=reads, carried=carried, ret=child.value_ret, params=child.own_params,
                                    defaults=sig.defaults)

    def nested_args(self, info, e: ast.Call):
        """argument code of a call of a nested function: read-only captured values, carried values, own arguments"""
        sig = info["sig"]
        given = {}
        for i, a in enumerate(e.args):
            if isinstance(a, ast.Starred) or i >= len(info["params"]):
                raise Unsupported("arguments of a nested function call")
            given[info["params"][i][0]] = a
        for kw in e.keywords:
            if kw.arg is None or kw.arg not in dict(info["params"]):
                raise Unsupported(f"keyword argument {kw.arg!r} of a nested function call")
            given[kw.arg] = kw.value
        out, eff = [], False
        for n in info["reads"] + info["carried"]:
            if n not in self.vars:
                raise Unsupported(f"`{n}`, used by the nested function, is not bound at this call")
            if self.vars[n] != dict(sig.params)[n]:
                raise Unsupported(f"`{n}` has another type at this call than at the definition of the nested function")
            out.append(ident(n))
        for pn, pt in info["params"]:
            if pn in given:
                c, t, ef = self.expr(given[pn])
                out.append(self.coerce(c, t, pt, e))
                eff = eff or ef
            elif pn in info["defaults"]:
                out.append(info["defaults"][pn])
            else:
                raise Unsupported(f"missing argument `{pn}` of a nested function call")
        head = sig.lean + (" env" if sig.env else "")
        if sig.env:
            self.env = True
        code = "(" + " ".join([head] + [f"({a})" if " " in a and not a.startswith("(") else a for a in out]) + ")"
        return code, eff

    def nested_call(self, e: ast.Call):
        """a nested function called inside an expression: only if it changes no captured variable"""
        info = self.nested[e.func.id]
        if info["carried"]:
            raise Unsupported(f"call of the nested function `{e.func.id}`, which changes captured variables, inside an expression")
        code, eff = self.nested_args(info, e)
        if info["sig"].eff:
            self.eff = True
            return f"(← {code})", info["ret"], True
        return code, info["ret"], eff

    def hoist_nested(self, node, st, out, ind):
        """`node` (the whole test / right-hand side / yielded value of statement `st`) is a call of a nested function
        that changes captured variables: run it first, re-bind the captured variables; -> a Name standing for its result"""
        if not (isinstance(node, ast.Call) and isinstance(node.func, ast.Name) and node.func.id in self.nested
                and node.func.id not in self.vars and self.nested[node.func.id]["carried"]):
            return None
        info = self.nested[node.func.id]
        code, eff = self.nested_args(info, node)
        if info["sig"].eff:
            self.eff = True
            if self.is_generator and self.after_yield:
                self.note(st, "an operation that may raise is evaluated after a `yield` of a generator function")
            code = f"(← {code})"
        self.tmp += 1
        tmp = f"py_t{self.tmp}"
        rt = info["sig"].ret
        out.append(f"{ind}let {tmp} : {lt(rt)} := {code}")
        has_val = info["ret"] not in (None, NONE)
        comps = ([None] if has_val else []) + info["carried"]
        n = len(comps)
        res = None
        for i, cn in enumerate(comps):
            proj = tmp if n == 1 else tmp + ".2" * i + (".1" if i < n - 1 else "")
            if cn is None:
                res = f"{tmp}_r"
                out.append(f"{ind}let {res} : {lt(info['ret'])} := {proj}")
                self.vars[res] = info["ret"]
                self.declared.add(res)
            else:
                out.append(f"{ind}{ident(cn)} := {proj}")
                self.kill(cn)
        if res is None:
            return ast.copy_location(ast.Constant(value=None), node)
        return ast.copy_location(ast.Name(id=res, ctx=ast.Load()), node)


class NestedTr(UFuncTr):
    """a nested function as an auxiliary definition: parameters = the captured variables it only reads, the captured
    variables it changes, its own parameters; result = (its return value, the changed variables)"""

    def __init__(self, outer: UFuncTr, node, reads, carried):
        super().__init__(outer.mod, node, {}, qualname=f"{outer.name}.{node.name}")
        self.cls = outer.cls
        self.outer, self.reads, self.carried = outer, reads, carried
        self.nested = dict(outer.nested)
        self.value_ret = None
        self.own_params = []
        self.is_generator = False

    def result_of(self, value_code):
        comps = ([value_code] if self.value_ret not in (None, NONE) else []) + [ident(c) for c in self.carried]
        if not comps:
            return "()"
        return comps[0] if len(comps) == 1 else "(" + ", ".join(comps) + ")"

    def _stmt_x(self, st, out, ind, in_loop, in_try) -> bool:
        if isinstance(st, ast.Nonlocal):
            return True
        if isinstance(st, ast.Return):
            if st.value is None or (isinstance(st.value, ast.Constant) and st.value.value is None):
                if self.value_ret not in (None, NONE) and self.value_ret[0] != "opt":
                    raise Unsupported("bare return in a nested function that returns a value")
                out.append(f"{ind}return {self.result_of('none')}")
                return True
            c, t, _ = self.expr(st.value)
            if self.value_ret is None:
                self.value_ret = t
            c = self.coerce(c, t, self.value_ret, st)
            out.append(f"{ind}return {self.result_of(c)}")
            return True
        return super()._stmt_x(st, out, ind, in_loop, in_try)

    def translate(self):
        node, outer = self.node, self.outer
        a = node.args
        params = []
        for n in self.reads + self.carried:
            t = outer.vars[n]
            params.append((n, t))
            self.vars[n] = t
            self.declared.add(n)
        allargs = list(a.args) + list(a.kwonlyargs)
        dvals = [None] * (len(a.args) - len(a.defaults)) + list(a.defaults) + list(a.kw_defaults)
        defaults = {}
        for arg, dv in zip(allargs, dvals):
            t = self.annot(arg.annotation)
            if t is None:
                self.note(arg, f"parameter `{arg.arg}` of the nested function has no mapped annotation")
                t = UNK
            params.append((arg.arg, t))
            self.own_params.append((arg.arg, t))
            self.vars[arg.arg] = t
            self.declared.add(arg.arg)
        self.analyse()
        self.mut |= set(self.carried)
        for arg, dv in zip(allargs, dvals):
            if dv is not None:
                c, t, eff = self.expr(dv)
                if eff:
                    self.note(dv, "default value that may raise")
                defaults[arg.arg] = self.coerce(c, t, self.vars[arg.arg], dv)
        vr = self.annot(node.returns)
        if vr is None and node.returns is not None and not (isinstance(node.returns, ast.Constant) and node.returns.value is None):
            self.note(node, f"return annotation {ast.unparse(node.returns)} of the nested function is not mapped")
        self.value_ret = vr
        has_val = vr not in (None, NONE)
        self.ret = None
        pre = [f"  let mut {ident(p)} := {ident(p)}" for p in self.carried]
        pre += [f"  let mut {ident(p)} := {ident(p)}" for p, _ in self.own_params if p in self.mut]
        body = self.block(node.body, "  ", False, keep=True)
        if not self.terminal(node.body):
            if has_val and self.value_ret[0] != "opt":
                self.note(node, "control can reach the end of a nested function whose result type is not None-able")
            if body == ["  pure ()"]:
                body = []
            body.append(f"  return {self.result_of('none')}")
        comps = ([self.value_ret] if has_val else []) + [self.vars[c] for c in self.carried]
        rt = NONE if not comps else (comps[0] if len(comps) == 1 else Tup(*comps))
        sig = Sig(f"S2T.Gen.{self.mod.name}.{ident(self.name)}", params, rt, self.eff, self.env, defaults)
        ps = "".join(f" ({ident(p)} : {lt(t)})" for p, t in params)
        envp = f" (env : {self.mod.cfg.get('envtype', 'S2T.Py.Env')})" if self.env else ""
        self.remarks.append(f"nested function of `{outer.name}`: reads the captured {self.reads}, changes the captured "
                            f"{self.carried} (returned after its own result)")
        L = [f"/-- `{self.name}` of {self.mod.cfg['src']}" + "".join("\n    " + r for r in self.remarks) + " -/"]
        if self.eff:
            L.append(f"def {ident(self.name)}{envp}{ps} : S2T.Py.M {lt(rt)} := do")
        else:
            L.append(f"def {ident(self.name)}{envp}{ps} : {lt(rt)} := Id.run do")
        L += pre + body
        return "\n".join(L) + "\n", sig
