"""C03: state kept in a context object while the units of a package are built -> S2T/Gen/UnitsCarrier.lean

`contextStores`: every keyed store into an attribute of an object (`obj.attr[key] = v`, `obj.attr.setdefault(key, v)`,
`obj.attr.update(...)`, `obj.attr = {key: v for ...}`) in the modules that build units out of several parts of one
package (pptx, odp, ods, epub and the zip / ooxml context base classes), with the PROVENANCE of the key, classified by use
and not by name:

* `part-name`        the key name is, in the same function, the name under which a part is read from the package
                     (`self.read_xml_root(key)`, `self.read_bytes(key)`, `self.exists(key)`, `key in self._namelist`,
                     `for key in self._namelist`): unique in the package;
* `owner-part-name`  the key name is a parameter of the function and is also the look-up key of another attribute whose
                     stores are all `part-name` (a per-part memo next to a per-part cache);
* `xml-attribute`    the key name was bound from `<element>.get("...")`: an id read from a document;
* `expr:<node>`      anything else (a subscript such as rel["id"], a call, a constant ...).

An id that is only unique inside one slide / sheet part (a relationship id) reaches this inventory as `expr:…` or
`xml-attribute` and is not in the Lean allow-list.
"""
import ast

from translate import HEADER, generator, lean_list, lean_str, parse

MODULES = ["sharepoint2text/parsing/extractors/ms_modern/pptx_extractor.py",
           "sharepoint2text/parsing/extractors/open_office/odp_extractor.py",
           "sharepoint2text/parsing/extractors/open_office/ods_extractor.py",
           "sharepoint2text/parsing/extractors/epub_extractor.py",
           "sharepoint2text/parsing/extractors/util/zip_context.py",
           "sharepoint2text/parsing/extractors/util/ooxml_context.py"]
READERS = ("read", "open", "exists", "get_bytes", "load")


def _attr_of(node):
    """obj.attr -> attr (obj a plain name)"""
    if isinstance(node, ast.Attribute) and isinstance(node.value, ast.Name):
        return node.attr
    return None


def _functions(tree):
    for node in ast.walk(tree):
        if isinstance(node, ast.ClassDef):
            for m in node.body:
                if isinstance(m, (ast.FunctionDef, ast.AsyncFunctionDef)):
                    yield node.name, m
    for node in tree.body:
        if isinstance(node, (ast.FunctionDef, ast.AsyncFunctionDef)):
            yield "", node


def _is_part_name(fn, name):
    for n in ast.walk(fn):
        if isinstance(n, ast.Call) and isinstance(n.func, ast.Attribute) and n.func.attr.startswith(READERS) and n.args \
                and isinstance(n.args[0], ast.Name) and n.args[0].id == name:
            return True
        if isinstance(n, ast.Compare) and isinstance(n.left, ast.Name) and n.left.id == name and any(isinstance(o, (ast.In, ast.NotIn)) for o in n.ops) \
                and any("namelist" in ast.unparse(c) for c in n.comparators):
            return True
        if isinstance(n, ast.For) and isinstance(n.target, ast.Name) and n.target.id == name and "namelist" in ast.unparse(n.iter):
            return True
    return False


def _bound_from_xml_get(fn, name):
    for n in ast.walk(fn):
        if isinstance(n, ast.Assign) and any(isinstance(t, ast.Name) and t.id == name for t in n.targets):
            v = n.value
            if isinstance(v, ast.Call) and isinstance(v.func, ast.Attribute) and v.func.attr == "get" and v.args and isinstance(v.args[0], (ast.Constant, ast.Name, ast.JoinedStr)):
                return True
    return False


def _raw_stores(tree):
    """(class, function node, attr, key node | None, how)"""
    for cls, fn in _functions(tree):
        for n in ast.walk(fn):
            if isinstance(n, (ast.Assign, ast.AugAssign, ast.AnnAssign)):
                targets = n.targets if isinstance(n, ast.Assign) else [n.target]
                for t in targets:
                    if isinstance(t, ast.Subscript) and _attr_of(t.value):
                        yield cls, fn, _attr_of(t.value), t.slice, "item"
                    if _attr_of(t) and isinstance(getattr(n, "value", None), ast.DictComp):
                        yield cls, fn, _attr_of(t), n.value.key, "dictcomp"
            if isinstance(n, ast.Call) and isinstance(n.func, ast.Attribute) and _attr_of(n.func.value) and n.func.attr in ("setdefault", "update", "__setitem__"):
                yield cls, fn, _attr_of(n.func.value), (n.args[0] if n.args and n.func.attr != "update" else None), n.func.attr


def context_stores():
    raw = []
    for rel in MODULES:
        tree = parse(rel)
        for cls, fn, attr, key, how in _raw_stores(tree):
            raw.append((rel.rsplit("/", 1)[-1], cls, fn, attr, key, how))
    kinds = []
    for mod, cls, fn, attr, key, how in raw:
        if isinstance(key, ast.Name) and _is_part_name(fn, key.id):
            k = "part-name"
        elif isinstance(key, ast.Name) and _bound_from_xml_get(fn, key.id):
            k = "xml-attribute"
        elif isinstance(key, ast.Name):
            k = "name"
        elif key is None:
            k = "expr:update"
        else:
            k = "expr:" + type(key).__name__.lower()
        kinds.append(k)
    part_attrs = {a for (_, _, _, a, _, _), k in zip(raw, kinds) if k == "part-name"}
    part_attrs -= {a for (_, _, _, a, _, _), k in zip(raw, kinds) if k not in ("part-name",)}
    out = []
    for (mod, cls, fn, attr, key, how), k in zip(raw, kinds):
        if k == "name":
            params = {a.arg for a in fn.args.args}
            used_as_key = any(
                (isinstance(n, ast.Call) and isinstance(n.func, ast.Attribute) and n.func.attr == "get" and _attr_of(n.func.value) in part_attrs
                 and n.args and isinstance(n.args[0], ast.Name) and n.args[0].id == key.id)
                or (isinstance(n, ast.Subscript) and _attr_of(n.value) in part_attrs and isinstance(n.slice, ast.Name) and n.slice.id == key.id
                    and isinstance(n.ctx, ast.Load))
                for n in ast.walk(fn))
            k = "owner-part-name" if key.id in params and used_as_key else "name:unclassified"
        e = (f"{mod}:{cls}" if cls else mod, fn.name, attr, k)
        if e not in out:
            out.append(e)
    return out


@generator("UnitsCarrier")
def gen_units_carrier() -> str:
    L = [HEADER.format(src="the context classes of the pptx / odp / ods / epub extractors")]
    L.append("namespace S2T.Gen.UnitsCarrier\n")
    L.append("/-- (module:class, function, attribute, key provenance) of every keyed store into an object attribute -/")
    L.append("def contextStores : List (String × String × String × String) := "
             + lean_list(f"({lean_str(a)}, {lean_str(b)}, {lean_str(c)}, {lean_str(d)})" for a, b, c, d in context_stores()) + "\n")
    L.append("end S2T.Gen.UnitsCarrier\n")
    return "\n".join(L)
