"""C12: WHEN and WHERE bytes come into memory  ->  S2T/Gen/C12Sites.lean

Two inventories read from the CURRENT source tree:

* `readFileActivations` — for `read_file` and every function of sharepoint2text/__init__.py it reaches: every place
  that looks at the SIZE of the file (stat / getsize / st_size / the comparison against max_file_size) and every place
  that READS it (open / .read / read_bytes / read_text / mmap), each with the ACTIVATION it runs in: "call" (runs while
  `read_file(...)` is being called) or "consume" (runs when the returned iterator is advanced).  A generator function's
  body runs at "consume"; a plain function's body runs in the activation of its caller; a generator that a plain
  function iterates itself (for / list() / tuple() / yield from inside a generator) runs in the caller's activation;
  a generator object that is returned or stored runs at "consume".  Anything the reader cannot classify is "unknown".
* `inflateSites` — every call in archive_extractor.py that opens a container or produces bytes out of packed data
  (zipfile / tarfile / gzip / bz2 / lzma / zlib / shutil.unpack_archive / SevenZipFile and the read / extract /
  extractfile / extractall / decompress / open methods of the objects they return, plus open()/read of real files),
  with its receiver traced back to the call that created it, and how the number of bytes it may yield is bounded:
  "n" (an explicit length / max_length argument), "none" (everything the stream expands to).
"""
import ast

from translate import HEADER, generator, lean_list, lean_str, parse

INIT = "sharepoint2text/__init__.py"
ARC = "sharepoint2text/parsing/extractors/archive_extractor.py"

_SIZE_ATTRS = {"stat", "lstat", "fstat", "getsize", "st_size"}
_READ_ATTRS = {"read", "read_bytes", "read_text", "readall", "readinto", "readlines", "mmap", "getvalue", "getbuffer"}
_ITER_WRAPPERS = {"list", "tuple", "sorted", "set", "frozenset", "sum", "any", "all", "max", "min", "next", "deque"}


def _own_nodes(fn):
    """nodes of fn's body that belong to fn itself (not to nested defs / lambdas / classes)"""
    out, todo = [], list(fn.body)
    while todo:
        n = todo.pop()
        out.append(n)
        for ch in ast.iter_child_nodes(n):
            if isinstance(ch, (ast.FunctionDef, ast.AsyncFunctionDef, ast.Lambda, ast.ClassDef)):
                continue
            todo.append(ch)
    return out


def _is_generator(fn):
    return any(isinstance(n, (ast.Yield, ast.YieldFrom)) for n in _own_nodes(fn))


def _parents(fn):
    par = {}
    for n in ast.walk(fn):
        for ch in ast.iter_child_nodes(n):
            par[ch] = n
    return par


def _read_file_activations(notes):
    mod = parse(INIT)
    funcs = {n.name: n for n in mod.body if isinstance(n, (ast.FunctionDef, ast.AsyncFunctionDef))}
    if "read_file" not in funcs:
        notes.append("read_file not found in " + INIT)
        return []
    sites, seen = [], set()

    def visit(name, caller_act, depth):
        fn = funcs[name]
        act = "consume" if _is_generator(fn) else caller_act
        if (name, act) in seen or depth > 6:
            return
        seen.add((name, act))
        par = _parents(fn)
        own = _own_nodes(fn)
        if len(own) != sum(1 for _ in ast.walk(ast.Module(body=fn.body, type_ignores=[]))) - 1:
            # nested defs / lambdas: their bodies run whenever they are called — not classified
            for n in ast.walk(fn):
                if n is not fn and isinstance(n, (ast.FunctionDef, ast.AsyncFunctionDef, ast.Lambda)):
                    inner = [m for m in ast.walk(n) if isinstance(m, (ast.Call, ast.Attribute))
                             and ((isinstance(m, ast.Attribute) and m.attr in _SIZE_ATTRS | _READ_ATTRS)
                                  or (isinstance(m, ast.Call) and isinstance(m.func, ast.Name) and m.func.id == "open"))]
                    if inner:
                        sites.append(("read" if any(isinstance(m, ast.Call) or m.attr in _READ_ATTRS for m in inner) else "guard",
                                      name, "unknown"))
        for n in own:
            if isinstance(n, ast.Compare) and any(isinstance(m, ast.Name) and m.id == "max_file_size" for m in ast.walk(n)) \
                    and not all(isinstance(c, ast.Constant) for c in n.comparators):
                sites.append(("guard", name, act))
            elif isinstance(n, ast.Attribute) and n.attr in _SIZE_ATTRS:
                sites.append(("guard", name, act))
            elif isinstance(n, ast.Call) and isinstance(n.func, ast.Name) and n.func.id == "open":
                sites.append(("read", name, act))
            elif isinstance(n, ast.Call) and isinstance(n.func, ast.Attribute) and n.func.attr in _READ_ATTRS:
                sites.append(("read", name, act))
            if isinstance(n, ast.Call) and isinstance(n.func, ast.Name) and n.func.id in funcs and n.func.id != name:
                callee = funcs[n.func.id]
                if not _is_generator(callee):
                    visit(n.func.id, act, depth + 1)
                    continue
                # a generator object: does THIS activation iterate it, or does it leave the function?
                p = par.get(n)
                iterated_here = (isinstance(p, ast.YieldFrom)
                                 or (isinstance(p, (ast.For, ast.comprehension)) and p.iter is n)
                                 or (isinstance(p, ast.Call) and isinstance(p.func, ast.Name) and p.func.id in _ITER_WRAPPERS and n in p.args))
                if iterated_here:
                    sub_seen = len(sites)
                    visit(n.func.id, act, depth + 1)
                    # the callee was classified with its own "consume"; it runs when this activation runs
                    for i in range(sub_seen, len(sites)):
                        r, f, a = sites[i]
                        if a == "consume":
                            sites[i] = (r, f, act)
                elif isinstance(p, ast.Return) and act == "call":
                    visit(n.func.id, "call", depth + 1)        # its body: "consume" (it is a generator)
                else:
                    sub_seen = len(sites)
                    visit(n.func.id, act, depth + 1)
                    for i in range(sub_seen, len(sites)):
                        sites[i] = (sites[i][0], sites[i][1], "unknown")
    visit("read_file", "call", 0)
    # a decorator on read_file (caching, wrapping) changes when its body runs
    if funcs["read_file"].decorator_list:
        sites.append(("guard", "read_file", "unknown"))
        notes.append("read_file is decorated: " + ", ".join(ast.unparse(d) for d in funcs["read_file"].decorator_list))
    return sorted(set(sites))


# ------------------------------------------------------------------ inflate sites
_OPENERS = {"zipfile.ZipFile", "tarfile.open", "tarfile.TarFile", "tarfile.TarFile.open", "gzip.open", "gzip.GzipFile", "bz2.open", "bz2.BZ2File",
            "lzma.open", "lzma.LZMAFile", "zlib.decompressobj", "bz2.BZ2Decompressor", "lzma.LZMADecompressor",
            "SevenZipFile", "open", "io.open", "os.fdopen", "tempfile.NamedTemporaryFile", "tempfile.TemporaryFile",
            "tempfile.SpooledTemporaryFile", "mmap.mmap", "codecs.open"}
_ONE_SHOT = {"gzip.decompress", "zlib.decompress", "bz2.decompress", "lzma.decompress", "shutil.unpack_archive",
             "shutil.copyfileobj", "codecs.decode", "base64.b64decode", "binascii.a2b_base64"}
_PACK_MODULES = ("zipfile", "tarfile", "gzip", "bz2", "lzma", "zlib", "shutil", "py7zr", "zstandard", "brotli", "mmap")
_YIELD_METHODS = {"read", "read1", "readall", "readinto", "readline", "readlines", "extract", "extractall", "extractfile", "decompress",
                  "open", "flush", "unpack", "getvalue", "read_bytes"}


def _dotted(e, bound):
    if isinstance(e, ast.Name):
        return bound.get(e.id, e.id)
    if isinstance(e, ast.Attribute):
        b = _dotted(e.value, bound)
        return None if b is None else b + "." + e.attr
    return None


def _inflate_sites(notes):
    mod = parse(ARC)
    bound = {}          # local name -> dotted import
    for n in mod.body:
        if isinstance(n, ast.Import):
            for a in n.names:
                bound[a.asname or a.name.split(".")[0]] = a.name if a.asname else a.name.split(".")[0]
        elif isinstance(n, ast.ImportFrom) and n.module:
            for a in n.names:
                if n.module.split(".")[0] in _PACK_MODULES:
                    bound[a.asname or a.name] = n.module + "." + a.name
    sites = []
    for fn in [n for n in ast.walk(mod) if isinstance(n, (ast.FunctionDef, ast.AsyncFunctionDef))]:
        params = {a.arg for a in fn.args.args + fn.args.kwonlyargs}
        origin = {}     # local name -> description of the call that created it

        def describe(e, depth=0):
            """where does the object `e` come from: 'zipfile.ZipFile()', 'tarfile.open().extractfile()', 'param:file_like', …"""
            if depth > 6:
                return "?"
            if isinstance(e, ast.Name):
                if e.id in origin:
                    return origin[e.id]
                if e.id in params:
                    return "param:" + e.id
                return bound.get(e.id, "?" + e.id)
            if isinstance(e, ast.Call):
                d = _dotted(e.func, bound)
                if isinstance(e.func, ast.Attribute) and (d is None or d.split(".")[0] not in bound.values() and d not in _OPENERS):
                    return describe(e.func.value, depth + 1) + "." + e.func.attr + "()"
                return (d or "?") + "()"
            if isinstance(e, ast.Attribute):
                return describe(e.value, depth + 1) + "." + e.attr
            return "?"
        own = _own_nodes(fn)
        # bindings first (source order), then the calls
        for n in sorted([m for m in own if isinstance(m, (ast.Assign, ast.With, ast.AsyncWith, ast.NamedExpr))], key=lambda m: (m.lineno, m.col_offset)):
            if isinstance(n, ast.Assign) and len(n.targets) == 1 and isinstance(n.targets[0], ast.Name):
                origin[n.targets[0].id] = describe(n.value)
            elif isinstance(n, ast.NamedExpr) and isinstance(n.target, ast.Name):
                origin[n.target.id] = describe(n.value)
            elif isinstance(n, (ast.With, ast.AsyncWith)):
                for it in n.items:
                    if isinstance(it.optional_vars, ast.Name):
                        origin[it.optional_vars.id] = describe(it.context_expr)
        for n in sorted([m for m in own if isinstance(m, ast.Call)], key=lambda m: (m.lineno, m.col_offset)):
            d = _dotted(n.func, bound)
            kind = what = None
            if d in _OPENERS or (d and d.split(".")[0] in _PACK_MODULES and d not in _ONE_SHOT and isinstance(n.func, (ast.Name, ast.Attribute))
                                 and d.split(".")[0] in bound.values()):
                kind, what = "open", d
            if d in _ONE_SHOT:
                kind, what = "one-shot", d
            if kind is None and isinstance(n.func, ast.Attribute) and n.func.attr in _YIELD_METHODS:
                recv = describe(n.func.value)
                if recv.startswith("param:") and n.func.attr in ("getvalue", "read"):
                    kind, what = "input", recv + "." + n.func.attr      # the archive bytes themselves (already in memory)
                elif recv.startswith(("?", "logger", "os", "time", "struct")) and not recv.startswith("?"):
                    continue
                else:
                    kind, what = "yield", recv + "." + n.func.attr
            if kind is None:
                continue
            lim = "none"
            if kind in ("yield", "input", "one-shot"):
                pos = [a for a in n.args if not isinstance(a, ast.Starred)]
                attr = n.func.attr if isinstance(n.func, ast.Attribute) else ""
                if attr in ("read", "read1", "readline", "readinto") and pos and not (isinstance(pos[0], ast.Constant) and pos[0].value in (None, -1)):
                    lim = "n"
                if attr == "decompress" and kind == "yield" and (len(pos) >= 2 or any(k.arg == "max_length" for k in n.keywords)):
                    lim = "n"
                if attr in ("extractall",) and any(k.arg == "members" for k in n.keywords):
                    lim = "members"
                if attr in ("extractfile", "extract", "open") and pos:
                    lim = "member"
                if attr == "read" and kind == "yield" and pos and what.startswith("zipfile.ZipFile()"):
                    lim = "member"
            sites.append((fn.name, kind, what, lim))
    return sites


@generator("C12Sites")
def gen_c12_sites():
    notes = []
    L = [HEADER.format(src=f"{INIT} (read_file and the functions it reaches), {ARC} (every container / decompression call)")]
    L.append("namespace S2T.Gen.C12Sites\n")
    acts = _read_file_activations(notes)
    L.append("/-- (role, function, activation) — role \"guard\": looks at the file's size / compares it with max_file_size; role \"read\": "
             "opens / reads the file; activation \"call\": runs while read_file(...) is being called, \"consume\": runs when the "
             "returned iterator is advanced, \"unknown\" -/")
    L.append("def readFileActivations : List (String × String × String) := " + lean_list(
        f"({lean_str(a)}, {lean_str(b)}, {lean_str(c)})" for a, b, c in acts) + "\n")
    inf = _inflate_sites(notes)
    L.append("/-- (function, kind, call with its receiver traced to the call that created it, bound on the bytes it may yield) for every "
             "container / decompression / file-read call of archive_extractor.py, in source order -/")
    L.append("def inflateSites : List (String × String × String × String) := " + lean_list(
        f"({lean_str(a)}, {lean_str(b)}, {lean_str(c)}, {lean_str(d)})" for a, b, c, d in inf) + "\n")
    L.append("def notes : List String := " + lean_list(lean_str(n) for n in notes) + "\n")
    L.append("end S2T.Gen.C12Sites\n")
    return "\n".join(L)
