"""C05: dataclass schema seen by the reflective (de)serialiser -> S2T/Gen/Schema.lean

Everything is read from the *current* tree: the registry through the library's own
`_get_type_registry()` (cross-checked with `dir(data_types)`), the field order through
`dataclasses.fields`, type hints through the library's own `_get_field_types` /
`_unwrap_optional`, defaults by evaluating them, `__post_init__` bodies and marker keys through the AST.
"""
import ast
import dataclasses
import inspect
import io
import textwrap
import typing

from translate import HEADER, fresh_import, generator, lean_list, lean_str, parse

SER = "sharepoint2text/parsing/extractors/serialization.py"


def chars(s: str) -> str:
    """Lean term of type List Char, as an explicit list (kernel evaluation of `"..".toList` is slow)."""
    out = []
    for ch in s:
        o = ord(ch)
        if ch == "'":
            out.append("'\\''")
        elif ch == "\\":
            out.append("'\\\\'")
        elif o < 0x20 or o == 0x7F or o > 0x7E:
            out.append("(Char.ofNat %d)" % o)
        else:
            out.append("'" + ch + "'")
    return "[" + ", ".join(out) + "]"

XLSX = "sharepoint2text/parsing/extractors/ms_modern/xlsx_extractor.py"


def _ty(tp, S, registry) -> str:
    if tp is typing.Any:
        return ".any"
    if tp is type(None):
        return ".none"
    inner, is_opt = S._unwrap_optional(tp)
    if is_opt:
        return f"(.opt {_ty(inner, S, registry)})"
    prim = {bool: ".bool", int: ".int", float: ".float", str: ".str", bytes: ".bytes", bytearray: ".bytearray",
            io.BytesIO: ".bytesio"}
    for k, v in prim.items():
        if tp is k:
            return v
    origin = typing.get_origin(tp)
    args = typing.get_args(tp)
    if origin is list:
        return f"(.list {_ty(args[0], S, registry) if args else '.any'})"
    if origin is dict:
        k = _ty(args[0], S, registry) if args else ".any"
        v = _ty(args[1], S, registry) if len(args) > 1 else ".any"
        return f"(.dict {k} {v})"
    if isinstance(tp, type) and tp.__name__ in registry:
        return f"(.cls {chars(tp.__name__)})"
    r = repr(tp).replace("sharepoint2text.parsing.extractors.data_types.", "")
    return f"(.other {chars(r)})"


def _val(v, depth=0) -> str:
    """Lean term of type PyVal for a default value."""
    if depth > 6:
        raise ValueError("default value too deep")
    if v is None:
        return ".none"
    if isinstance(v, bool):
        return f"(.bool {'true' if v else 'false'})"
    if isinstance(v, int):
        return f"(.int ({v}))"
    if isinstance(v, float):
        return f"(.float {chars(repr(v))})"
    if isinstance(v, str):
        return f"(.str {chars(v)})"
    if isinstance(v, io.BytesIO):
        return f"(.bytesio [{', '.join(str(b) for b in v.getvalue())}])"
    if isinstance(v, bytearray):
        return f"(.bytearray [{', '.join(str(b) for b in v)}])"
    if isinstance(v, bytes):
        return f"(.bytes [{', '.join(str(b) for b in v)}])"
    if dataclasses.is_dataclass(v) and not isinstance(v, type):
        fs = ", ".join(f"({chars(f.name)}, {_val(getattr(v, f.name), depth + 1)})" for f in dataclasses.fields(v))
        return f"(.obj {chars(type(v).__name__)} [{fs}])"
    if isinstance(v, dict):
        items = ", ".join(f"({_key(k)}, {_val(x, depth + 1)})" for k, x in v.items())
        return f"(.dict [{items}])"
    if isinstance(v, (list, tuple, set)):
        tag = "list" if isinstance(v, list) else "tuple" if isinstance(v, tuple) else "set"
        return f"(.{tag} [{', '.join(_val(x, depth + 1) for x in v)}])"
    return f"(.foreign {chars(type(v).__name__)})"


def _key(k) -> str:
    if k is None:
        return ".none"
    if isinstance(k, bool):
        return f"(.bool {'true' if k else 'false'})"
    if isinstance(k, int):
        return f"(.int ({k}))"
    if isinstance(k, str):
        return f"(.str {chars(k)})"
    return f"(.other {chars(str(k))})"


def _post_init(cls, notes):
    """names stripped by `__post_init__`; anything else the method does is reported as a note."""
    fn = None
    for k in cls.__mro__:
        if "__post_init__" in k.__dict__:
            fn = k.__dict__["__post_init__"]
            break
    if fn is None:
        return []
    tree = ast.parse(textwrap.dedent(inspect.getsource(fn)))
    body = tree.body[0].body
    strip = []
    for st in body:
        # self.X = self.X.strip()
        if (isinstance(st, ast.Assign) and len(st.targets) == 1 and isinstance(st.targets[0], ast.Attribute)
                and isinstance(st.targets[0].value, ast.Name) and st.targets[0].value.id == "self"
                and isinstance(st.value, ast.Call) and not st.value.args and not st.value.keywords
                and isinstance(st.value.func, ast.Attribute) and st.value.func.attr == "strip"
                and isinstance(st.value.func.value, ast.Attribute) and isinstance(st.value.func.value.value, ast.Name)
                and st.value.func.value.value.id == "self" and st.value.func.value.attr == st.targets[0].attr):
            strip.append(st.targets[0].attr)
            continue
        # dict.__init__(self, f=self.f, ...)  (ImageMetadata mirrors its fields into its dict base: no field changes)
        if (isinstance(st, ast.Expr) and isinstance(st.value, ast.Call) and isinstance(st.value.func, ast.Attribute)
                and st.value.func.attr == "__init__" and isinstance(st.value.func.value, ast.Name)
                and st.value.func.value.id == "dict"
                and all(isinstance(kw.value, ast.Attribute) and isinstance(kw.value.value, ast.Name)
                        and kw.value.value.id == "self" and kw.value.attr == kw.arg for kw in st.value.keywords)):
            continue
        if isinstance(st, ast.Expr) and isinstance(st.value, ast.Constant):  # docstring
            continue
        notes.append(f"{cls.__name__}.__post_init__: statement not understood: {ast.unparse(st)[:80]}")
    return strip


def _marker_literals():
    """string constants used as dict keys / membership tests in serialization.py"""
    tree = parse(SER)
    found = set()
    consts = {}
    for node in tree.body:
        if isinstance(node, ast.Assign) and len(node.targets) == 1 and isinstance(node.targets[0], ast.Name) \
                and isinstance(node.value, ast.Constant) and isinstance(node.value.value, str):
            consts[node.targets[0].id] = node.value.value
    for fn in tree.body:
        if not (isinstance(fn, ast.FunctionDef) and fn.name in ("_serialize_for_json", "_deserialize_value")):
            continue
        for node in ast.walk(fn):
            if isinstance(node, ast.Dict):
                for k in node.keys:
                    if isinstance(k, ast.Constant) and isinstance(k.value, str):
                        found.add(k.value)
                    elif isinstance(k, ast.Name) and k.id in consts:
                        found.add(consts[k.id])
            if isinstance(node, ast.Compare) and len(node.ops) == 1 and isinstance(node.ops[0], ast.In):
                l = node.left
                if isinstance(l, ast.Constant) and isinstance(l.value, str):
                    found.add(l.value)
                elif isinstance(l, ast.Name) and l.id in consts:
                    found.add(consts[l.id])
    return sorted(found)


@generator("Schema")
def gen_schema() -> str:
    S = fresh_import("sharepoint2text.parsing.extractors.serialization")
    D = fresh_import("sharepoint2text.parsing.extractors.data_types")
    notes = []
    registry = dict(S._get_type_registry())
    # cross-check: registry == dataclasses visible in dir(data_types)
    expect = {n for n in dir(D) if isinstance(getattr(D, n), type) and dataclasses.is_dataclass(getattr(D, n))}
    if set(registry) != expect:
        notes.append(f"registry differs from dir(data_types) dataclasses: {sorted(set(registry) ^ expect)[:6]}")
    for n, c in registry.items():
        if c.__name__ != n:
            notes.append(f"registry key {n} names class {c.__name__}")
    if S._TYPE_KEY != "_type":
        pass  # the marker set below carries it; Props compares with the model's constants
    classes = []
    for n in sorted(registry):
        c = registry[n]
        hints = S._get_field_types(c)
        fl = []
        for f in dataclasses.fields(c):
            if not f.init:
                notes.append(f"{n}.{f.name}: init=False field (constructor rejects it)")
            if f.name not in hints:
                notes.append(f"{n}.{f.name}: no type hint")
            ty = _ty(hints.get(f.name, typing.Any), S, registry)
            if f.default is not dataclasses.MISSING:
                d = f"(some {_val(f.default)})"
            elif f.default_factory is not dataclasses.MISSING:
                d = f"(some {_val(f.default_factory())})"
            else:
                d = "none"
            fl.append(f"{{ name := {chars(f.name)}, ty := {ty}, default := {d} }}")
        strip = _post_init(c, notes)
        abstract = bool(getattr(c, "_is_protocol", False)) or bool(getattr(c, "__abstractmethods__", ()))
        classes.append(
            f"{{ name := {chars(n)}, abstract := {'true' if abstract else 'false'}, "
            f"strip := [{', '.join(chars(x) for x in strip)}],\n    fields := " + lean_list(fl, indent="      ") + " }")
    ws = [c for c in range(0x110000) if chr(c).isspace()]
    # xlsx cell normalisation: the isoformat types and the pass-through types, runtime vs AST
    X = fresh_import("sharepoint2text.parsing.extractors.ms_modern.xlsx_extractor")
    iso = [t.__name__ for t in X._DATETIME_TYPES]
    L = [HEADER.format(src=f"{SER}, data_types.py, xlsx_extractor.py")]
    L.append("import S2T.Model.Serial\nnamespace S2T.Gen.Schema\nopen S2T.Serial\n")
    L.append("set_option maxRecDepth 100000\n")
    L.append("def schema : Schema := " + lean_list(classes) + "\n")
    L.append("/-- marker keys found in `_serialize_for_json` / `_deserialize_value` (dict literals and `in` tests) -/")
    L.append("def markerKeys : List Str := " + lean_list((chars(m) for m in _marker_literals()), per_line=4) + "\n")
    L.append("/-- `_TYPE_KEY` -/\ndef typeKey : Str := " + chars(S._TYPE_KEY) + "\n")
    L.append("/-- code points with `str.isspace()` at runtime -/")
    L.append("def whitespace : List Nat := [" + ", ".join(str(c) for c in ws) + "]\n")
    L.append("/-- `xlsx_extractor._DATETIME_TYPES` (cells turned into `.isoformat()`) -/")
    L.append("def cellIsoTypes : List Str := " + lean_list((chars(t) for t in iso), per_line=4) + "\n")
    L.append("/-- translator cross-check notes; must be empty -/")
    L.append("def notes : List String := " + lean_list(lean_str(x) for x in notes) + "\n")
    L.append("end S2T.Gen.Schema\n")
    return "\n".join(L)
