"""C13: tag names / tag sets used by the table walkers -> S2T/Gen/Tables.lean

Runtime values of the module constants (they are f-strings over a namespace constant, so the
cross-check re-evaluates the f-string from the AST with the module's literal namespace values),
the path literals handed to find/findall inside the ODP / ODS table functions, and the HTML tag
sets `_CELL_BREAK_TAGS` / `REMOVE_TAGS`.
"""
import ast

from translate import HEADER, ast_literal_assign, chars, fresh_import, generator, lean_list, lean_str, parse

EX = "sharepoint2text/parsing/extractors/"
DOCX = EX + "ms_modern/docx_extractor.py"
PPTX = EX + "ms_modern/pptx_extractor.py"
ODT = EX + "open_office/odt_extractor.py"
ODP = EX + "open_office/odp_extractor.py"
ODS = EX + "open_office/ods_extractor.py"
HTML = EX + "html_extractor.py"


def _module_assigns(rel):
    out = {}
    for node in parse(rel).body:
        if isinstance(node, ast.Assign) and len(node.targets) == 1 and isinstance(node.targets[0], ast.Name):
            out[node.targets[0].id] = node.value
        elif isinstance(node, ast.AnnAssign) and node.value is not None and isinstance(node.target, ast.Name):
            out[node.target.id] = node.value
    return out


def _eval(node, assigns, depth=0):
    """value of a constant expression built from literals, names of such, NS['x'] and f-strings"""
    if depth > 8:
        raise ValueError("too deep")
    if isinstance(node, ast.Constant):
        return node.value
    if isinstance(node, ast.Name):
        return _eval(assigns[node.id], assigns, depth + 1)
    if isinstance(node, ast.Subscript):
        return _eval(node.value, assigns, depth + 1)[_eval(node.slice, assigns, depth + 1)]
    if isinstance(node, ast.Dict):
        return {_eval(k, assigns, depth + 1): _eval(v, assigns, depth + 1) for k, v in zip(node.keys, node.values)}
    if isinstance(node, ast.JoinedStr):
        return "".join(_eval(v, assigns, depth + 1) for v in node.values)
    if isinstance(node, ast.FormattedValue):
        return str(_eval(node.value, assigns, depth + 1))
    if isinstance(node, (ast.Set, ast.List, ast.Tuple)):
        return {_eval(e, assigns, depth + 1) for e in node.elts}
    if isinstance(node, ast.BinOp) and isinstance(node.op, ast.BitOr):
        return set(_eval(node.left, assigns, depth + 1)) | set(_eval(node.right, assigns, depth + 1))
    if isinstance(node, ast.Call) and getattr(node.func, "id", None) in ("set", "frozenset") and len(node.args) == 1:
        return set(_eval(node.args[0], assigns, depth + 1))
    raise ValueError(f"not a constant expression: {ast.dump(node)[:80]}")


def _const(mod, rel, name, notes, assigns):
    if not hasattr(mod, name):
        notes.append(f"{rel}: {name} does not exist")
        return None
    rt = getattr(mod, name)
    try:
        lit = _eval(assigns[name], assigns)
        if (set(lit) if isinstance(rt, (set, frozenset)) else lit) != (set(rt) if isinstance(rt, (set, frozenset)) else rt):
            notes.append(f"{rel}: runtime value of {name} differs from the source expression")
    except Exception as e:  # not a constant expression
        notes.append(f"{rel}: {name} is not a constant expression in the source ({e})")
    return rt


def _path_literals(rel, fn_name):
    """string literals passed as first argument to .find/.findall/.iter inside function fn_name"""
    out = []
    for node in ast.walk(parse(rel)):
        if isinstance(node, ast.FunctionDef) and node.name == fn_name:
            for c in ast.walk(node):
                if isinstance(c, ast.Call) and isinstance(c.func, ast.Attribute) and c.func.attr in ("find", "findall", "iter") \
                        and c.args and isinstance(c.args[0], ast.Constant) and isinstance(c.args[0].value, str):
                    out.append((c.func.attr, c.args[0].value))
    return out


def _resolve(path, ns):
    """ElementTree path 'a:b/c:d' with a namespace map -> list of Clark names"""
    res = []
    for step in path.split("/"):
        pre, _, loc = step.partition(":")
        res.append("{" + ns[pre] + "}" + loc)
    return res


def _s(v):
    return chars(v if isinstance(v, str) else "\u0000MISSING")


@generator("Tables")
def gen_tables() -> str:
    notes = []
    dx = fresh_import("sharepoint2text.parsing.extractors.ms_modern.docx_extractor")
    px = fresh_import("sharepoint2text.parsing.extractors.ms_modern.pptx_extractor")
    ot = fresh_import("sharepoint2text.parsing.extractors.open_office.odt_extractor")
    op = fresh_import("sharepoint2text.parsing.extractors.open_office.odp_extractor")
    osx = fresh_import("sharepoint2text.parsing.extractors.open_office.ods_extractor")
    hx = fresh_import("sharepoint2text.parsing.extractors.html_extractor")

    L = [HEADER.format(src=", ".join([DOCX, PPTX, ODT, ODP, ODS, HTML]))]
    L.append("import S2T.Model.Tables\nnamespace S2T.Gen.Tables\nopen S2T.Tables\n")

    a = _module_assigns(DOCX)
    d = {k: _const(dx, DOCX, n, notes, a) for k, n in
         [("p", "W_P"), ("tbl", "W_TBL"), ("tr", "W_TR"), ("tc", "W_TC"), ("t", "W_T")]}
    L.append("def docx : DocxTags := { " + ", ".join(f"{k} := {_s(v)}" for k, v in d.items()) + " }\n")

    a = _module_assigns(PPTX)
    d = {k: _const(px, PPTX, n, notes, a) for k, n in
         [("graphicData", "A_GRAPHICDATA"), ("tbl", "A_TBL"), ("tr", "A_TR"), ("tc", "A_TC"), ("txBody", "A_TXBODY"),
          ("p", "A_P"), ("r", "A_R"), ("fld", "A_FLD"), ("br", "A_BR"), ("t", "A_T"), ("tableUri", "TABLE_URI")]}
    L.append("def pptx : PptxTags := {\n  " + ",\n  ".join(f"{k} := {_s(v)}" for k, v in d.items()) + " }\n")

    def odf(mod, rel, name, table_fn, want_paths):
        a = _module_assigns(rel)
        ns = getattr(mod, "NS", {})
        try:
            if _eval(a["NS"], a) != ns:
                notes.append(f"{rel}: runtime NS differs from the source literal")
        except Exception as e:
            notes.append(f"{rel}: NS is not a literal ({e})")
        vals = {k: _const(mod, rel, n, notes, a) for k, n in
                [("p", "_TEXT_P_TAG"), ("s", "_TEXT_SPACE_TAG"), ("tab", "_TEXT_TAB_TAG"),
                 ("lineBreak", "_TEXT_LINE_BREAK_TAG"), ("attrC", "_ATTR_TEXT_C")]}
        skip = _const(mod, rel, "_TEXT_SKIP_TAGS", notes, a)
        try:
            vals["table"] = _resolve("table:table", ns)[0]
            vals["row"] = _resolve("table:table-row", ns)[0]
            vals["cell"] = _resolve("table:table-cell", ns)[0]
            vals["headerRows"] = _resolve("table:table-header-rows", ns)[0]
        except Exception as e:
            notes.append(f"{rel}: namespace map lacks the table prefix ({e})")
        # module constants for the table tags, where the module has them
        for k, n in [("table", "_TABLE_TABLE_TAG"), ("row", "_TABLE_ROW_TAG"), ("cell", "_TABLE_CELL_TAG")]:
            if hasattr(mod, n):
                v = _const(mod, rel, n, notes, a)
                if v != vals.get(k):
                    notes.append(f"{rel}: {n} is not {{table-ns}}{k}")
        got = _path_literals(rel, table_fn)
        if sorted(got) != sorted(want_paths):
            notes.append(f"{rel}: {table_fn} uses the path literals {sorted(got)}, the model was written for {sorted(want_paths)}")
        order = ["table", "row", "cell", "headerRows", "p", "s", "tab", "lineBreak", "attrC"]
        L.append(f"def {name} : OdfTags := {{\n  " + ",\n  ".join(f"{k} := {_s(vals.get(k))}" for k in order)
                 + ",\n  skip := " + lean_list((chars(x) for x in sorted(skip or [])), per_line=1, indent="    ") + " }\n")

    odf(ot, ODT, "odt", "_extract_tables", [])
    odf(op, ODP, "odp", "_extract_table",
        [("findall", "table:table-header-rows/table:table-row"), ("findall", "table:table-row"), ("findall", "table:table-cell")])
    odf(osx, ODS, "ods", "_extract_sheet", [("findall", "table:table-row"), ("findall", "table:table-cell")])

    a = _module_assigns(HTML)
    cb = _const(hx, HTML, "_CELL_BREAK_TAGS", notes, a)
    rm = _const(hx, HTML, "REMOVE_TAGS", notes, a)
    L.append("def html : HtmlTags := {\n  cellBreak := " + lean_list((chars(x) for x in sorted(cb or [])), per_line=6, indent="    ")
             + ",\n  remove := " + lean_list((chars(x) for x in sorted(rm or [])), per_line=6, indent="    ") + " }\n")

    # ODS: the two repeat caps of _extract_sheet (`cell_repeat > N`, `row_repeat > N`)
    caps = {}
    for node in ast.walk(parse(ODS)):
        if isinstance(node, ast.FunctionDef) and node.name == "_extract_sheet":
            for c in ast.walk(node):
                if isinstance(c, ast.Compare) and isinstance(c.left, ast.Name) and c.left.id in ("cell_repeat", "row_repeat"):
                    ok = len(c.ops) == 1 and isinstance(c.ops[0], ast.Gt) and isinstance(c.comparators[0], ast.Constant) \
                        and isinstance(c.comparators[0].value, int)
                    if not ok:
                        notes.append(f"{ODS}: _extract_sheet compares {c.left.id} with {ast.unparse(c)!r}, the model was written for `{c.left.id} > <int literal>`")
                    elif c.left.id in caps:
                        notes.append(f"{ODS}: _extract_sheet compares {c.left.id} more than once")
                    else:
                        caps[c.left.id] = c.comparators[0].value
    for k in ("cell_repeat", "row_repeat"):
        if k not in caps:
            notes.append(f"{ODS}: _extract_sheet has no cap comparison on {k}")
    L.append(f"def odsCaps : Ods.Caps := {{ cell := {caps.get('cell_repeat', 0)}, row := {caps.get('row_repeat', 0)} }}\n")

    L.append("/-- translator cross-check notes; must be empty -/")
    L.append("def notes : List String := " + lean_list(lean_str(n) for n in notes) + "\n")
    L.append("end S2T.Gen.Tables\n")
    return "\n".join(L)
