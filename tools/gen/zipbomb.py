"""C11: ZipBombLimits defaults -> S2T/Gen/ZipBomb.lean ;
inventory of every place a ZIP container gets opened -> S2T/Gen/ZipOpenSites.lean"""
import ast
import dataclasses
import math
import os
from fractions import Fraction

from translate import HEADER, REPO, chars, fresh_import, generator, lean_list, lean_str, parse

ZB = "sharepoint2text/parsing/extractors/util/zip_bomb.py"
FIELDS = ["max_entries", "max_total_uncompressed_bytes", "max_single_uncompressed_bytes",
          "max_total_compression_ratio", "max_entry_compression_ratio"]


def _const(node):
    """value of an arithmetic constant expression (ints/floats, + - * // ** <<), else raises"""
    if isinstance(node, ast.Constant) and isinstance(node.value, (int, float)) and not isinstance(node.value, bool):
        return node.value
    if isinstance(node, ast.UnaryOp) and isinstance(node.op, (ast.USub, ast.UAdd)):
        v = _const(node.operand)
        return -v if isinstance(node.op, ast.USub) else v
    if isinstance(node, ast.BinOp):
        a, b = _const(node.left), _const(node.right)
        ops = {ast.Add: lambda: a + b, ast.Sub: lambda: a - b, ast.Mult: lambda: a * b, ast.FloorDiv: lambda: a // b,
               ast.Pow: lambda: a ** b, ast.LShift: lambda: a << b, ast.Div: lambda: a / b}
        for k, f in ops.items():
            if isinstance(node.op, k):
                return f()
    raise ValueError("not a constant expression: " + ast.dump(node)[:80])


def _ratio(v):
    """exact (num, den) of a Python number used as a ratio limit"""
    if isinstance(v, bool) or not isinstance(v, (int, float)):
        raise TypeError(f"ratio limit {v!r} is not an int/float")
    if isinstance(v, float) and not math.isfinite(v):
        raise ValueError(f"ratio limit {v!r} is not finite (outside the model)")
    f = Fraction(v)
    if f < 0:
        raise ValueError(f"negative ratio limit {v!r} (outside the model)")
    return f.numerator, f.denominator


def _next_up(v):
    """the least float above v (as exact ratio) — v must itself be a float value"""
    fv = float(v)
    if Fraction(fv) != Fraction(v):
        raise ValueError(f"limit {v!r} is not representable as a float")
    f = Fraction(math.nextafter(fv, math.inf))
    return f.numerator, f.denominator


def _zip_attrs_consulted(tree):
    """(function, attribute) for every attribute name of a zipfile.ZipInfo / zipfile.ZipFile object that occurs in
    the guard module — as `x.attr`, or as the constant name in getattr/hasattr(x, "attr") — whatever the receiver"""
    import zipfile
    cand = {n for n in set(dir(zipfile.ZipInfo("x"))) | set(dir(zipfile.ZipFile)) if not n.startswith("__")}
    out = set()
    for fn in ast.walk(tree):
        if not isinstance(fn, (ast.FunctionDef, ast.AsyncFunctionDef)):
            continue
        for node in ast.walk(fn):
            name = None
            if isinstance(node, ast.Attribute):
                name = node.attr
            elif (isinstance(node, ast.Call) and isinstance(node.func, ast.Name) and node.func.id in ("getattr", "hasattr", "setattr")
                  and len(node.args) >= 2):
                name = node.args[1].value if isinstance(node.args[1], ast.Constant) and isinstance(node.args[1].value, str) else "<computed>"
            if name in cand or name == "<computed>":
                out.add((fn.name, name))
    return sorted(out)


@generator("ZipBomb")
def gen_zipbomb() -> str:
    zb = fresh_import("sharepoint2text.parsing.extractors.util.zip_bomb")
    lim = zb.DEFAULT_ZIP_BOMB_LIMITS
    notes = []
    names = [f.name for f in dataclasses.fields(zb.ZipBombLimits)]
    if names != FIELDS:
        notes.append(f"ZipBombLimits fields are {names}, the model knows {FIELDS}")
    vals = {n: getattr(lim, n) for n in FIELDS}
    # source literals of the dataclass defaults
    tree = parse(ZB)
    lit = {}
    for node in tree.body:
        if isinstance(node, ast.ClassDef) and node.name == "ZipBombLimits":
            for st in node.body:
                if isinstance(st, ast.AnnAssign) and isinstance(st.target, ast.Name) and st.value is not None:
                    try:
                        lit[st.target.id] = _const(st.value)
                    except ValueError:
                        notes.append(f"ZipBombLimits.{st.target.id}: default is not a constant expression")
    for n in FIELDS:
        if n not in lit:
            notes.append(f"ZipBombLimits.{n}: no literal default in the source")
        elif lit[n] != vals[n] or type(lit[n]) is not type(vals[n]):
            notes.append(f"ZipBombLimits.{n}: runtime default {vals[n]!r} differs from the source literal {lit[n]!r}")
    for n in FIELDS[:3]:
        if isinstance(vals[n], bool) or not isinstance(vals[n], int) or vals[n] < 0:
            raise ValueError(f"{n} = {vals[n]!r}: the model needs a non-negative int")
    # DEFAULT_ZIP_BOMB_LIMITS = ZipBombLimits() and it is the default of the three entry points
    dflt_ok = False
    for node in tree.body:
        if isinstance(node, ast.Assign) and any(isinstance(t, ast.Name) and t.id == "DEFAULT_ZIP_BOMB_LIMITS" for t in node.targets):
            v = node.value
            dflt_ok = isinstance(v, ast.Call) and isinstance(v.func, ast.Name) and v.func.id == "ZipBombLimits" and not v.args and not v.keywords
    if not dflt_ok:
        notes.append("DEFAULT_ZIP_BOMB_LIMITS is not `ZipBombLimits()`")
    if lim != zb.ZipBombLimits():
        notes.append("runtime DEFAULT_ZIP_BOMB_LIMITS differs from ZipBombLimits()")
    for fn in ("validate_zipfile", "open_zipfile", "validate_zip_bytesio"):
        kd = getattr(getattr(zb, fn), "__kwdefaults__", None) or {}
        if kd.get("limits") is not lim:
            notes.append(f"{fn}: default `limits` is not DEFAULT_ZIP_BOMB_LIMITS")
    tr, er = _ratio(vals[FIELDS[3]]), _ratio(vals[FIELDS[4]])
    trn, ern = _next_up(vals[FIELDS[3]]), _next_up(vals[FIELDS[4]])
    L = [HEADER.format(src=ZB)]
    L.append("import S2T.Model.ZipBomb\nnamespace S2T.Gen.ZipBomb\nopen S2T.ZipBomb\n")
    L.append(f"/-- `DEFAULT_ZIP_BOMB_LIMITS`; ratios {vals[FIELDS[3]]!r}, {vals[FIELDS[4]]!r} as exact fractions -/")
    L.append("def defaultLimits : Limits := {")
    L.append(f"  maxEntries := {vals[FIELDS[0]]},\n  maxTotal := {vals[FIELDS[1]]},\n  maxSingle := {vals[FIELDS[2]]},")
    L.append(f"  totalRatio := ⟨{tr[0]}, {tr[1]}⟩,\n  entryRatio := ⟨{er[0]}, {er[1]}⟩ }}\n")
    L.append("/-- the least IEEE-754 double above each ratio limit (`math.nextafter(L, inf)`), exact -/")
    L.append(f"def totalRatioNext : Ratio := ⟨{trn[0]}, {trn[1]}⟩")
    L.append(f"def entryRatioNext : Ratio := ⟨{ern[0]}, {ern[1]}⟩\n")
    L.append("/-- every attribute of a `zipfile.ZipInfo` / `zipfile.ZipFile` object the guard module consults (function, attribute),\n"
             "    from the AST of the current zip_bomb.py: `x.attr` and getattr/hasattr(x, \"attr\") -/")
    L.append("def zipAttrsConsulted : List (String × String) := " + lean_list(f"({lean_str(f)}, {lean_str(a)})" for f, a in _zip_attrs_consulted(tree)) + "\n")
    L.append("/-- translator cross-check notes (runtime value vs. source literal, default wiring); must be empty -/")
    L.append("def notes : List String := " + lean_list(lean_str(n) for n in notes) + "\n")
    L.append("end S2T.Gen.ZipBomb\n")
    return "\n".join(L)


# ----------------------------------------------------------------------------- open-site inventory
VALIDATORS = {"open_zipfile", "validate_zip_bytesio", "validate_zipfile"}
PKG = "sharepoint2text"


def _package_files():
    out = []
    for root, dirs, files in os.walk(os.path.join(REPO, PKG)):
        dirs[:] = sorted(d for d in dirs if d not in ("tests", "__pycache__"))
        for fn in sorted(files):
            if fn.endswith(".py"):
                out.append(os.path.relpath(os.path.join(root, fn), REPO))
    return out


class _Mod:
    def __init__(self, rel):
        self.rel = rel
        self.tree = parse(rel)
        self.dotted = rel[:-3].replace("/", ".").removesuffix(".__init__")
        self.zip_mod_aliases, self.zipfile_cls_aliases = set(), set()
        self.lw_aliases, self.openpyxl_aliases = set(), set()
        self.validator_names = {}        # local name -> canonical validator
        self.class_bases = {}            # class name -> [base names]
        self.class_nodes = {}
        in_zb = rel == ZB
        for node in ast.walk(self.tree):
            if isinstance(node, ast.Import):
                for a in node.names:
                    if a.name == "zipfile":
                        self.zip_mod_aliases.add(a.asname or "zipfile")
                    if a.name == "openpyxl":
                        self.openpyxl_aliases.add(a.asname or "openpyxl")
            elif isinstance(node, ast.ImportFrom):
                for a in node.names:
                    if node.module == "zipfile" and a.name == "ZipFile":
                        self.zipfile_cls_aliases.add(a.asname or a.name)
                    if (node.module or "").startswith("openpyxl") and a.name == "load_workbook":
                        self.lw_aliases.add(a.asname or a.name)
                    if (node.module or "").endswith("zip_bomb") and a.name in VALIDATORS:
                        self.validator_names[a.asname or a.name] = a.name
            elif isinstance(node, ast.ClassDef):
                self.class_bases[node.name] = [b.id if isinstance(b, ast.Name) else getattr(b, "attr", "?") for b in node.bases]
                self.class_nodes[node.name] = node
        if in_zb:
            for v in VALIDATORS:
                self.validator_names[v] = v


def _ctx_classes(mods):
    """names of ZipContext and (transitive) subclasses, package-wide (by simple name)"""
    ctx = {"ZipContext"}
    changed = True
    while changed:
        changed = False
        for m in mods:
            for c, bases in m.class_bases.items():
                if c not in ctx and any(b in ctx for b in bases):
                    ctx.add(c)
                    changed = True
    return ctx


def _kind_of_call(m, call, ctx_classes):
    f = call.func
    if isinstance(f, ast.Attribute) and f.attr == "ZipFile" and isinstance(f.value, ast.Name) and f.value.id in m.zip_mod_aliases:
        return "rawZipFile"
    if isinstance(f, ast.Name) and f.id in m.zipfile_cls_aliases:
        return "rawZipFile"
    if isinstance(f, ast.Name) and f.id in m.lw_aliases:
        return "loadWorkbook"
    if isinstance(f, ast.Attribute) and f.attr == "load_workbook":
        return "loadWorkbook"
    if isinstance(f, ast.Name) and m.validator_names.get(f.id) == "open_zipfile":
        return "openZipfile"
    if isinstance(f, ast.Name) and m.validator_names.get(f.id) == "validate_zip_bytesio":
        return "validateBytesio"
    if isinstance(f, ast.Name) and f.id in ctx_classes:
        return "zipContext"
    return None


def _is_validating_call(m, node, ctx_classes):
    if not isinstance(node, ast.Call):
        return False
    f = node.func
    if isinstance(f, ast.Name) and (f.id in m.validator_names or f.id in ctx_classes):
        return True
    return False


def _unconditional_calls(node):
    """Call nodes of `node` not nested under a conditional/deferred expression"""
    out = []

    def rec(n):
        if isinstance(n, (ast.Lambda, ast.FunctionDef, ast.AsyncFunctionDef, ast.IfExp, ast.BoolOp,
                          ast.ListComp, ast.SetComp, ast.DictComp, ast.GeneratorExp)):
            return
        if isinstance(n, ast.Call):
            out.append(n)
        for c in ast.iter_child_nodes(n):
            rec(c)

    rec(node)
    return out


SIMPLE = (ast.Expr, ast.Assign, ast.AnnAssign, ast.AugAssign, ast.Return)


def _path_to(func, target):
    """[(stmt_list, index, owner_stmt)] from the function body down to the statement holding `target`"""
    def search(stmts, owner):
        for i, st in enumerate(stmts):
            if any(sub is target for sub in ast.walk(st)):
                here = [(stmts, i, owner)]
                for fld in ("body", "orelse", "finalbody"):
                    sub = getattr(st, fld, None)
                    if isinstance(sub, list) and sub and isinstance(sub[0], ast.stmt):
                        r = search(sub, st)
                        if r is not None:
                            return here + r
                for h in getattr(st, "handlers", []) or []:
                    r = search(h.body, st)
                    if r is not None:
                        return here + r
                if isinstance(st, ast.Match):
                    for c in st.cases:
                        r = search(c.body, st)
                        if r is not None:
                            return here + r
                return here
        return None
    return search(func.body, func) or []


def _dominated(m, func, target, ctx_classes):
    for stmts, idx, owner in _path_to(func, target):
        for st in stmts[:idx]:
            if isinstance(st, SIMPLE) and any(_is_validating_call(m, c, ctx_classes) for c in _unconditional_calls(st)):
                return True
            if isinstance(st, (ast.With, ast.AsyncWith)) and any(
                    any(_is_validating_call(m, c, ctx_classes) for c in _unconditional_calls(it.context_expr)) for it in st.items):
                return True
        st = stmts[idx]
        if isinstance(st, (ast.With, ast.AsyncWith)):
            # inside the body of `with open_zipfile(...) as zf:` (but not the with-item itself)
            for it in st.items:
                calls = _unconditional_calls(it.context_expr)
                if any(c is target for c in calls):
                    break
                if any(_is_validating_call(m, c, ctx_classes) for c in calls):
                    if any(sub is target for b in st.body for sub in ast.walk(b)):
                        return True
    return False


def _guard_follows(m, func, target):
    """raw open `zf = ZipFile(...)` / `with ZipFile(...) as zf:` whose next use is validate_zipfile(zf, ...)"""
    path = _path_to(func, target)
    if not path:
        return False
    stmts, idx, _ = path[-1]
    st = stmts[idx]

    def first_is_validate(body, name):
        if not body:
            return False
        b0 = body[0]
        if isinstance(b0, ast.Try):
            return first_is_validate(b0.body, name)
        if isinstance(b0, ast.Expr) and isinstance(b0.value, ast.Call):
            c = b0.value
            return (isinstance(c.func, ast.Name) and m.validator_names.get(c.func.id) == "validate_zipfile"
                    and c.args and isinstance(c.args[0], ast.Name) and c.args[0].id == name)
        return False

    if isinstance(st, ast.With):
        for it in st.items:
            if it.context_expr is target and isinstance(it.optional_vars, ast.Name):
                return first_is_validate(st.body, it.optional_vars.id)
    if isinstance(st, ast.Assign) and st.value is target and len(st.targets) == 1 and isinstance(st.targets[0], ast.Name):
        return first_is_validate(stmts[idx + 1:], st.targets[0].id)
    return False


def _functions(tree):
    """[(qualified name, node)] of every function/method; module-level code is ('<module>', tree)"""
    out = []

    def rec(node, prefix):
        for c in ast.iter_child_nodes(node):
            if isinstance(c, (ast.FunctionDef, ast.AsyncFunctionDef)):
                out.append((prefix + c.name, c))
                rec(c, prefix + c.name + ".")
            elif isinstance(c, ast.ClassDef):
                rec(c, prefix + c.name + ".")
            else:
                rec(c, prefix)

    rec(tree, "")
    return out


def _own_calls(func):
    """Call nodes belonging to `func` itself (not to nested defs)"""
    out = []

    def rec(n):
        for c in ast.iter_child_nodes(n):
            if isinstance(c, (ast.FunctionDef, ast.AsyncFunctionDef, ast.ClassDef)):
                continue
            if isinstance(c, ast.Call):
                out.append(c)
            rec(c)

    rec(func)
    return out


def inventory():
    mods = [_Mod(rel) for rel in _package_files()]
    ctx_classes = _ctx_classes(mods)
    notes = []
    # references to every function name, package-wide.  A `Name` in another module counts only if
    # that module imports the name from the defining module; attributes / identifier-like string
    # constants / relative imports count always (conservative).
    refs = {}      # simple name -> [(mod, node, defining-module-or-None)]
    for m in mods:
        funcs = _functions(m.tree)
        owner_of = {}
        imported_from = {}   # local name -> (module dotted name, original name)
        for node in ast.walk(m.tree):
            if isinstance(node, ast.ImportFrom):
                for a in node.names:
                    imported_from[a.asname or a.name] = (node.module if node.level == 0 else None, a.name)
        local_defs = {qn.split(".")[-1] for qn, _ in funcs}
        for node in ast.walk(m.tree):
            if isinstance(node, ast.Name) and isinstance(node.ctx, ast.Load):
                if node.id in imported_from:
                    modname, orig = imported_from[node.id]
                    refs.setdefault(orig, []).append((m, node, modname or "*"))
                elif node.id in local_defs:
                    refs.setdefault(node.id, []).append((m, node, m.dotted))
            elif isinstance(node, ast.Attribute):
                refs.setdefault(node.attr, []).append((m, node, "*"))
            elif isinstance(node, ast.Constant) and isinstance(node.value, str) and node.value.isidentifier():
                refs.setdefault(node.value, []).append((m, node, "*"))
        m._funcs, m._owner_of = funcs, owner_of
    sites = []
    for m in mods:
        for qn, fn in m._funcs + [("<module>", None)]:
            if fn is None:
                calls = []
                for st in m.tree.body:
                    if not isinstance(st, (ast.FunctionDef, ast.AsyncFunctionDef, ast.ClassDef)):
                        calls += _unconditional_calls(st) + [c for c in ast.walk(st) if isinstance(c, ast.Call)]
                seen, cs = set(), []
                for c in calls:
                    if id(c) not in seen:
                        seen.add(id(c)); cs.append(c)
                calls = cs
            else:
                calls = _own_calls(fn)
            for c in calls:
                kind = _kind_of_call(m, c, ctx_classes)
                if kind is None:
                    continue
                dominated = guard = False
                if fn is not None:
                    dominated = _dominated(m, fn, c, ctx_classes)
                    if kind == "rawZipFile":
                        guard = _guard_follows(m, fn, c)
                if kind == "zipContext":
                    # the constructor must reach ZipContext.__init__ before anything else
                    dominated = _ctor_reaches_base(mods, c.func.id, ctx_classes)
                simple = qn.split(".")[-1]
                public = not simple.startswith("_") or (simple.startswith("__") and simple.endswith("__"))
                nrefs, callers_ok = 0, True
                if fn is None:
                    nrefs, callers_ok = 1, False
                else:
                    for (rm, rnode, where) in refs.get(simple, []):
                        if where not in ("*", m.dotted):
                            continue
                        nrefs += 1
                        call = None
                        for (cm_qn, cm_fn) in rm._funcs:
                            for cc in _own_calls(cm_fn):
                                if cc.func is rnode:
                                    call = (cm_fn, cc)
                        if call is None:
                            callers_ok = False
                        elif not _dominated(rm, call[0], call[1], ctx_classes):
                            callers_ok = False
                    if public:   # exported API (registry strings, getattr): always reachable, callers unknown
                        nrefs, callers_ok = max(nrefs, 1), False
                sites.append(dict(file=m.rel, func=qn, line=c.lineno, kind=kind, dominated=dominated, guard=guard,
                                  refs=nrefs, callers=bool(callers_ok and nrefs > 0)))
    # `self._zip` of the context classes is only ever bound to the result of open_zipfile(...)
    for m in mods:
        for cname, cnode in m.class_nodes.items():
            if cname not in ctx_classes:
                continue
            for node in ast.walk(cnode):
                tgts = []
                if isinstance(node, ast.Assign):
                    tgts = node.targets
                elif isinstance(node, (ast.AnnAssign, ast.AugAssign)):
                    tgts = [node.target]
                for t in tgts:
                    if isinstance(t, ast.Attribute) and t.attr == "_zip":
                        v = node.value
                        ok = isinstance(v, ast.Call) and isinstance(v.func, ast.Name) and m.validator_names.get(v.func.id) == "open_zipfile"
                        if not ok:
                            notes.append(f"{m.rel}:{node.lineno}: {cname} binds self._zip to something other than open_zipfile(...)")
    sites.sort(key=lambda s: (s["file"], s["line"], s["kind"]))
    return sites, notes, sorted(ctx_classes)


def _ctor_reaches_base(mods, cname, ctx_classes, depth=0):
    """ZipContext itself, or a subclass without __init__, or whose __init__ starts with super().__init__(...)"""
    if cname == "ZipContext":
        return True
    if depth > 10:
        return False
    for m in mods:
        node = m.class_nodes.get(cname)
        if node is None:
            continue
        init = next((s for s in node.body if isinstance(s, ast.FunctionDef) and s.name == "__init__"), None)
        bases = [b for b in m.class_bases[cname] if b in ctx_classes]
        if not bases:
            return False
        if init is None:
            return _ctor_reaches_base(mods, bases[0], ctx_classes, depth + 1)
        body = [s for s in init.body if not (isinstance(s, ast.Expr) and isinstance(s.value, ast.Constant))]
        if not body:
            return False
        s0 = body[0]
        if (isinstance(s0, ast.Expr) and isinstance(s0.value, ast.Call) and isinstance(s0.value.func, ast.Attribute)
                and s0.value.func.attr == "__init__" and isinstance(s0.value.func.value, ast.Call)
                and isinstance(s0.value.func.value.func, ast.Name) and s0.value.func.value.func.id == "super"):
            return _ctor_reaches_base(mods, bases[0], ctx_classes, depth + 1)
        return False
    return False


@generator("ZipOpenSites")
def gen_sites() -> str:
    sites, notes, ctx_classes = inventory()
    L = [HEADER.format(src="every *.py of the sharepoint2text package (tests excluded)")]
    L.append("import S2T.Model.ZipBomb\nnamespace S2T.Gen.ZipOpenSites\nopen S2T.ZipBomb\n")
    L.append("/-- every call that opens (or validates) a ZIP container, with its AST dominance facts -/")
    b = lambda x: "true" if x else "false"
    L.append("def sites : List Site := " + lean_list(
        f"{{ file := {chars(s['file'])}, func := {chars(s['func'])}, line := {s['line']}, kind := .{s['kind']}, "
        f"dominated := {b(s['dominated'])}, guardFollows := {b(s['guard'])}, funcRefs := {s['refs']}, "
        f"callersDominated := {b(s['callers'])} }}" for s in sites) + "\n")
    L.append("/-- ZipContext and its subclasses (constructing one validates) -/")
    L.append("def contextClasses : List (List Char) := " + lean_list((chars(c) for c in ctx_classes), per_line=4) + "\n")
    L.append("/-- anomalies the inventory cannot express as a site (must be empty) -/")
    L.append("def notes : List String := " + lean_list(lean_str(n) for n in notes) + "\n")
    L.append("end S2T.Gen.ZipOpenSites\n")
    return "\n".join(L)
