"""C06: ambient inputs (wall clock, time zone, randomness, process identity, environment) -> S2T/Gen/Ambient.lean

"Extraction is a pure function of (bytes, path)" needs a closed world of the places where anything ELSE can be read.

1. ambientReads   (file, function, kind, expression)  every call / attribute in the package (tests excluded) that reads
                  kind `clock`     now / utcnow / today / time.time / time_ns / localtime / gmtime / ctime / asctime / strftime
                       `zone`      astimezone() without argument, fromtimestamp(x) without tz, .timestamp(), mktime, tzname/timezone/altzone,
                                   tzlocal
                       `duration`  perf_counter / monotonic / process_time (differences only)
                       `random`    random.* / secrets.* / uuid1 / uuid4 / os.urandom
                       `process`   os.environ / getenv / getpid / getcwd / getlogin / getuser / gethostname / platform.* / locale.*
                       `tempname`  tempfile.* (names are random)
                       `fs`        os.stat / getmtime / getctime / getatime / os.listdir / scandir / glob (state of the file system)
2. the XLSX "missing date = current time" guard (openpyxl substitutes now() for a date the core-properties part does
   not state; `_core_dates_present` decides which dates the document really states):
   guardReads            what `_core_dates_present` reads from the archive: string literals, or `<expr: …>` for anything computed
   libCorePart           openpyxl.xml.constants.ARC_CORE (runtime value) — the ONLY part openpyxl takes core properties from
   libReadsByConstant    openpyxl.reader.excel reads the core properties with `archive.read(ARC_CORE)` (AST of the installed openpyxl)
   libNowFields          constructor parameters of openpyxl DocumentProperties that default to the current time
   guardedFields         (metadata field, DocumentProperties attribute, core element the guard looks for) of `_extract_metadata_from_workbook`
   unguardedNowUses      loads of `props.<now field>` outside an `… if has_<x> … else …` guard
"""
import ast
import inspect
import os

from translate import HEADER, REPO, generator, lean_list, lean_str

CLOCK_ATTRS = {"now", "utcnow", "today"}
TIME_FUNCS = {"time": "clock", "time_ns": "clock", "localtime": "clock", "gmtime": "clock", "ctime": "clock", "asctime": "clock",
              "strftime": "clock", "perf_counter": "duration", "perf_counter_ns": "duration", "monotonic": "duration",
              "monotonic_ns": "duration", "process_time": "duration", "mktime": "zone", "tzset": "zone"}
ZONE_ATTRS = {"tzname", "timezone", "altzone", "daylight"}
OS_PROCESS = {"getenv", "getpid", "getppid", "getcwd", "getcwdb", "getlogin", "getuid", "uname", "cpu_count", "times", "getloadavg"}
OS_FS = {"stat", "lstat", "listdir", "scandir", "walk"}
OSPATH_FS = {"getmtime", "getctime", "getatime", "getsize", "exists", "isfile", "isdir"}
RANDOM_MODS = {"random", "secrets"}


def _files():
    pkg = os.path.join(REPO, "sharepoint2text")
    for root, dirs, files in os.walk(pkg):
        dirs[:] = sorted(d for d in dirs if d not in ("tests", "__pycache__"))
        for fn in sorted(files):
            if fn.endswith(".py"):
                yield os.path.relpath(os.path.join(root, fn), REPO)


def _short(rel):
    return rel[len("sharepoint2text/"):] if rel.startswith("sharepoint2text/") else rel


def _imports(tree):
    """local name -> dotted origin ('datetime.datetime', 'time', 'os.path' …)"""
    m = {}
    for n in ast.walk(tree):
        if isinstance(n, ast.Import):
            for a in n.names:
                m[(a.asname or a.name).split(".")[0]] = a.name if a.asname else a.name.split(".")[0]
        elif isinstance(n, ast.ImportFrom) and n.module and n.level == 0:
            for a in n.names:
                m[a.asname or a.name] = n.module + "." + a.name
    return m


def _dotted(e, imp):
    parts = []
    while isinstance(e, ast.Attribute):
        parts.append(e.attr)
        e = e.value
    if isinstance(e, ast.Name):
        parts.append(imp.get(e.id, "?" + e.id))
        return ".".join(reversed(parts))
    return "?." + ".".join(reversed(parts))


def classify(node, imp):
    """kind of ambient read of a Call / Attribute node, or None"""
    if isinstance(node, ast.Call):
        f = node.func
        d = _dotted(f, imp)
        head, _, last = d.rpartition(".")
        if last in CLOCK_ATTRS and (isinstance(f, ast.Attribute)) and ("date" in head.lower() or head.startswith("?")):
            # x.now() on anything that is not provably something else: datetime.now, datetime.datetime.now, date.today
            return "clock"
        if head == "time" and last in TIME_FUNCS:
            if last in ("localtime", "gmtime", "ctime", "asctime") and node.args:
                return "zone" if last in ("localtime", "ctime") else None
            if last == "strftime" and len(node.args) >= 2:
                return None
            return TIME_FUNCS[last]
        if d in ("time.time", "time.time_ns"):
            return "clock"
        if last == "astimezone" and not node.args and not node.keywords:
            return "zone"
        if last == "fromtimestamp" and len(node.args) + len(node.keywords) < 2:
            return "zone"
        if last == "timestamp" and isinstance(f, ast.Attribute) and not node.args:
            return "zone"
        if last in ("tzlocal", "get_localzone"):
            return "zone"
        if last in ("formatdate", "localtime") and "email" in d and not node.args:
            return "clock"
        if last == "make_msgid":
            return "random"
        root = d.split(".")[0]
        if root in RANDOM_MODS or d in ("uuid.uuid1", "uuid.uuid4", "os.urandom") or last in ("uuid1", "uuid4", "urandom"):
            return "random"
        if root == "tempfile":
            return "tempname"
        if head == "os" and last in OS_PROCESS or d in ("getpass.getuser", "socket.gethostname", "socket.getfqdn") or root in ("platform", "locale"):
            return "process"
        if head == "os" and last in OS_FS or head == "os.path" and last in OSPATH_FS or root == "glob":
            return "fs"
        return None
    if isinstance(node, ast.Attribute):
        d = _dotted(node, imp)
        if d in ("os.environ", "os.environb"):
            return "process"
        if d.startswith("time.") and node.attr in ZONE_ATTRS:
            return "zone"
    return None


def _enclosing_map(tree):
    enc = {}

    def mark(node, cur):
        for ch in ast.iter_child_nodes(node):
            c2 = cur
            if isinstance(ch, (ast.FunctionDef, ast.AsyncFunctionDef, ast.ClassDef)):
                c2 = ch.name if cur == "<module>" else cur + "." + ch.name
            enc[ch] = c2
            mark(ch, c2)
    mark(tree, "<module>")
    return enc


def ambient_reads():
    out = set()
    for rel in _files():
        with open(os.path.join(REPO, rel), encoding="utf-8") as fh:
            tree = ast.parse(fh.read(), filename=rel)
        imp = _imports(tree)
        enc = _enclosing_map(tree)
        for n in ast.walk(tree):
            k = classify(n, imp)
            if k:
                out.add((_short(rel), enc.get(n, "<module>"), k, ast.unparse(n)[:70].replace("\n", " ")))
    return sorted(out)


# --------------------------------------------------------------------------------------------- the XLSX date guard
XLSX = "sharepoint2text/parsing/extractors/ms_modern/xlsx_extractor.py"


def _func(tree, name):
    for n in ast.walk(tree):
        if isinstance(n, (ast.FunctionDef, ast.AsyncFunctionDef)) and n.name == name:
            return n
    return None


def core_guard():
    notes = []
    with open(os.path.join(REPO, XLSX), encoding="utf-8") as fh:
        tree = ast.parse(fh.read())
    guard = _func(tree, "_core_dates_present")
    reads, elements = [], []
    if guard is None:
        notes.append("xlsx_extractor: _core_dates_present not found")
    else:
        for n in ast.walk(guard):
            if isinstance(n, ast.Call) and isinstance(n.func, ast.Attribute) and n.func.attr in ("read", "open", "getinfo") and n.args:
                a = n.args[0]
                if isinstance(a, ast.Name):
                    # a module-level string constant, bound exactly once in the module and never `global`-rebound
                    binds = [x for x in ast.walk(tree) if isinstance(x, (ast.Assign, ast.AnnAssign, ast.AugAssign, ast.NamedExpr, ast.Global, ast.For, ast.arg))
                             and a.id in {y.id for y in ast.walk(x) if isinstance(y, ast.Name) and isinstance(y.ctx, ast.Store)} | set(getattr(x, "names", []) if isinstance(x, ast.Global) else [])
                             | ({x.arg} if isinstance(x, ast.arg) else set())]
                    top = [x for x in tree.body if isinstance(x, ast.Assign) and len(x.targets) == 1 and isinstance(x.targets[0], ast.Name)
                           and x.targets[0].id == a.id and isinstance(x.value, ast.Constant) and isinstance(x.value.value, str)]
                    if len(top) == 1 and len(binds) == 1:
                        a = top[0].value
                reads.append(a.value if isinstance(a, ast.Constant) and isinstance(a.value, str) else "<expr: " + ast.unparse(a)[:60] + ">")
        rets = [n for n in ast.walk(guard) if isinstance(n, ast.Return) and isinstance(n.value, ast.Tuple)]
        # the last return states which elements are looked for: ("created" in names, "modified" in names)
        for r in rets:
            els = []
            for e in r.value.elts:
                if isinstance(e, ast.Compare) and len(e.ops) == 1 and isinstance(e.ops[0], ast.In) and isinstance(e.left, ast.Constant):
                    els.append(e.left.value)
            if len(els) == len(r.value.elts):
                elements = els
        if not elements:
            notes.append("xlsx_extractor:_core_dates_present: no `return \"x\" in names, …` found")
    # _extract_metadata_from_workbook: has_a, has_b = _core_dates_present(wb); field=(… if has_a … else …)
    fn = _func(tree, "_extract_metadata_from_workbook")
    guarded, unguarded = [], []
    import openpyxl.packaging.core as core
    now_fields = lib_now_fields(core, notes)
    if fn is None:
        notes.append("xlsx_extractor: _extract_metadata_from_workbook not found")
    else:
        has_vars = {}
        props_names = set()
        for n in ast.walk(fn):
            if isinstance(n, ast.Assign) and isinstance(n.value, ast.Call) and ast.unparse(n.value.func) == "_core_dates_present" \
                    and isinstance(n.targets[0], ast.Tuple):
                for t, el in zip(n.targets[0].elts, elements):
                    if isinstance(t, ast.Name):
                        has_vars[t.id] = el
            if isinstance(n, ast.Assign) and isinstance(n.value, ast.Attribute) and n.value.attr == "properties" and isinstance(n.targets[0], ast.Name):
                props_names.add(n.targets[0].id)
        par = {}
        for n in ast.walk(fn):
            for c in ast.iter_child_nodes(n):
                par[c] = n

        def guard_of(node):
            """the has-variable of the innermost IfExp whose BODY contains the node"""
            cur = node
            while cur in par:
                p = par[cur]
                if isinstance(p, ast.IfExp) and (cur is p.body or cur is p.test):
                    names = {x.id for x in ast.walk(p.test) if isinstance(x, ast.Name)} & set(has_vars)
                    # the test must REQUIRE the variable: `has_x` or `has_x and …`
                    t = p.test
                    conj = t.values if isinstance(t, ast.BoolOp) and isinstance(t.op, ast.And) else [t]
                    req = [c.id for c in conj if isinstance(c, ast.Name) and c.id in has_vars]
                    if req:
                        return req[0]
                    if names:
                        return None
                cur = p
            return None

        def keyword_of(node):
            cur = node
            while cur in par:
                if isinstance(par[cur], ast.keyword):
                    return par[cur].arg
                cur = par[cur]
            return None
        for n in ast.walk(fn):
            if isinstance(n, ast.Attribute) and isinstance(n.value, ast.Name) and n.value.id in props_names and n.attr in now_fields \
                    and isinstance(n.ctx, ast.Load):
                g = guard_of(n)
                if g is None:
                    unguarded.append(f"{ast.unparse(n)} (field {keyword_of(n)})")
                else:
                    guarded.append((keyword_of(n) or "?", n.attr, has_vars[g]))
    import openpyxl.reader.excel as xl
    from openpyxl.xml.constants import ARC_CORE
    by_const = False
    try:
        xt = ast.parse(inspect.getsource(xl))
        for n in ast.walk(xt):
            if isinstance(n, ast.Call) and isinstance(n.func, ast.Attribute) and n.func.attr == "read" and n.args \
                    and isinstance(n.args[0], ast.Name) and n.args[0].id == "ARC_CORE":
                by_const = True
        other = [ast.unparse(n)[:60] for n in ast.walk(xt) if isinstance(n, ast.Call) and "DocumentProperties" in ast.unparse(n.func)
                 and "from_tree" not in ast.unparse(n.func) and n.args]
    except (OSError, TypeError, SyntaxError) as e:
        notes.append("openpyxl.reader.excel source not readable: " + type(e).__name__)
    return sorted(set(reads)), ARC_CORE, by_const, sorted(now_fields), sorted(set(guarded)), sorted(set(unguarded)), notes


def lib_now_fields(core, notes):
    """fields of DocumentProperties that __init__ assigns from an expression mentioning `now` (now = datetime…now(...))"""
    out = set()
    try:
        t = ast.parse(inspect.getsource(core))
    except (OSError, TypeError, SyntaxError) as e:
        notes.append("openpyxl.packaging.core source not readable: " + type(e).__name__)
        return out
    for cls in [n for n in ast.walk(t) if isinstance(n, ast.ClassDef) and n.name == "DocumentProperties"]:
        for fn in [n for n in cls.body if isinstance(n, ast.FunctionDef) and n.name == "__init__"]:
            nowvars = set()
            for n in ast.walk(fn):
                if isinstance(n, ast.Assign) and isinstance(n.targets[0], ast.Name) and any(
                        isinstance(c, ast.Call) and isinstance(c.func, ast.Attribute) and c.func.attr in CLOCK_ATTRS for c in ast.walk(n.value)):
                    nowvars.add(n.targets[0].id)
            for n in ast.walk(fn):
                # self.f = <anything that mentions now>   (`modified or now`, `now if modified is None else modified`, …)
                if isinstance(n, ast.Assign) and any(isinstance(x, ast.Name) and x.id in nowvars for x in ast.walk(n.value)):
                    for t in n.targets:
                        if isinstance(t, ast.Attribute) and isinstance(t.value, ast.Name) and t.value.id == "self":
                            out.add(t.attr)
                if isinstance(n, ast.If) and any(isinstance(x, ast.Name) and x.id in nowvars for s in n.body for x in ast.walk(s)):
                    for s in n.body:
                        if isinstance(s, ast.Assign):
                            for t in s.targets:
                                if isinstance(t, ast.Name):
                                    out.add(t.id)
    if not out:
        notes.append("openpyxl DocumentProperties.__init__: no field assigned from the current time found (openpyxl changed?)")
    return out


@generator("Ambient")
def gen_ambient() -> str:
    reads = ambient_reads()
    greads, arc, by_const, nowf, guarded, unguarded, notes = core_guard()
    L = [HEADER.format(src="AST of every module under sharepoint2text/ (tests excluded) + the installed openpyxl")]
    L.append("namespace S2T.Gen.Ambient\n")
    L.append("/-- (file, function, kind, expression): reads of anything that is not the input -/")
    L.append("def ambientReads : List (String × String × String × String) := " + lean_list(
        f"({lean_str(a)}, {lean_str(b)}, {lean_str(c)}, {lean_str(d)})" for a, b, c, d in reads) + "\n")
    L.append("/-- what `_core_dates_present` reads from the archive -/")
    L.append("def guardReads : List String := " + lean_list(lean_str(x) for x in greads) + "\n")
    L.append("/-- openpyxl.xml.constants.ARC_CORE -/")
    L.append(f"def libCorePart : String := {lean_str(arc)}\n")
    L.append(f"def libReadsByConstant : Bool := {'true' if by_const else 'false'}\n")
    L.append("/-- DocumentProperties fields openpyxl fills with the current time when the part does not state them -/")
    L.append("def libNowFields : List String := " + lean_list(lean_str(x) for x in nowf) + "\n")
    L.append("/-- (metadata field, DocumentProperties attribute, core element the guard requires) -/")
    L.append("def guardedFields : List (String × String × String) := " + lean_list(
        f"({lean_str(a)}, {lean_str(b)}, {lean_str(c)})" for a, b, c in guarded) + "\n")
    L.append("def unguardedNowUses : List String := " + lean_list(lean_str(x) for x in unguarded) + "\n")
    L.append("def notes : List String := " + lean_list(lean_str(x) for x in notes) + "\n")
    L.append("end S2T.Gen.Ambient\n")
    return "\n".join(L)
