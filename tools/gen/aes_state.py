"""C20: what outlives a call in `_pypdf_aes_fallback.py` -> S2T/Gen/AesState.lean

"computes exactly FIPS-197 AES for every key and block" also has to hold when several threads are inside the built-in
AES at once.  The function-level translation (`Gen.PyAes`, `Props/C20_Src.lean`) shows each block / mode / padding
function to be a function of its PARAMETERS and of the constant tables; this generator emits, from the current source,
the closed-world facts that make that reading of the source legitimate under concurrency — every place where a
function of the file could keep or share state between calls:

* `functions`        every `def` of the file (nested ones as `outer.inner`)
* `cells`            every module-level name assigned in the file whose RUNTIME value is a mutable object
                     (list, dict, OrderedDict, bytearray, set, lock, any instance …; tuples of ints, ints, bytes, str,
                     functions, classes and modules are not), with its type name
* `globalDecls`      every `global` / `nonlocal` declaration: (function, name)
* `writes`           every statement of a function that writes something that is not a fresh local:
                     subscript / slice / augmented stores, `del`, mutating method calls, attribute stores, `setattr`,
                     rebinding of a declared global — on a cell, on a LOCAL NAME THAT MAY ALIAS a cell (`state = _CELL`,
                     `x = _CELL[k]`, `x = _CELL.get(k)`), on a function / class of the file (`f.scratch = …`), or on
                     anything else that is not provably local (`<attr>:fb.CryptAES.encrypt`, `<setattr>:self`); with
                     the lock (`with <name>:`) it happens under
* `escapes`          every other occurrence of a cell in a function that is not a plain read (`CELL[i]`, `len(CELL)`,
                     `x in CELL`, `for x in CELL`, `with CELL`, a non-mutating method): the cell object itself is
                     bound, passed on, returned or stored
* `mutableDefaults`  parameters whose default value is a mutable object (a default is created once, like a cell)
* `paramWrites`      in-place mutation of a PARAMETER (directly or through a local alias): (function, parameter, how)
* `mutatingCalls`    every call of a file function that mutates one of its parameters: (caller, callee, parameter, what is
                     passed: `fresh` — a local bound only to freshly built objects —, `param:<p>`, `cell:<c>`, `other:<expr>`)
* `unresolvedWrites` in-place mutation of a local that is bound to something not provably fresh (e.g. the result of a
                     call that may return a shared object): (function, local, expression)
* `calls`            the call graph between functions of the file
Theorems of `Props/C20_Reentrant.lean` are decided on these lists on every run."""
import ast
import types

from translate import HEADER, fresh_import, generator, lean_list, lean_str, parse

REL = "sharepoint2text/parsing/extractors/pdf/_pypdf_aes_fallback.py"
MOD = "sharepoint2text.parsing.extractors.pdf._pypdf_aes_fallback"

MUT_METHODS = {"append", "add", "update", "pop", "popitem", "clear", "move_to_end", "setdefault", "extend", "insert",
               "remove", "discard", "sort", "reverse", "appendleft", "popleft", "rotate", "__setitem__", "__delitem__",
               "__iadd__", "__imul__", "release_lock", "cast", "release"}
FRESH_CALLS = {"list", "bytearray", "dict", "set", "sorted", "bytes", "tuple", "int", "len", "bool", "str", "range",
               "OrderedDict", "frozenset", "min", "max", "sum", "abs", "reversed", "zip", "enumerate", "memoryview"}
PLAIN_READ_FUNCS = {"len", "iter", "sum", "min", "max", "any", "all", "sorted", "tuple", "bytes", "list", "frozenset",
                    "bool", "repr", "str", "enumerate", "zip", "reversed", "isinstance", "id", "type"}


def _immutable(v, depth=0):
    if v is None or isinstance(v, (bool, int, float, complex, str, bytes, frozenset, range, types.FunctionType,
                                   types.BuiltinFunctionType, types.ModuleType, type)):
        return not isinstance(v, frozenset) or all(_immutable(x, depth + 1) for x in v)
    if isinstance(v, tuple):
        return depth < 4 and all(_immutable(x, depth + 1) for x in v)
    if getattr(type(v), "__module__", "") == "typing":
        return True
    return False


class _Fn:
    def __init__(self, qual, node, parent):
        self.qual, self.node, self.parent = qual, node, parent
        a = node.args
        self.params = [x.arg for x in a.posonlyargs + a.args + a.kwonlyargs] + \
            ([a.vararg.arg] if a.vararg else []) + ([a.kwarg.arg] if a.kwarg else [])
        self.bindings = {}       # local name -> [value expr | None]
        self.globals = set()
        self.nonlocals = set()


def _own_nodes(fnode):
    """nodes of a function body, not descending into nested defs / lambdas / classes"""
    stack = list(fnode.body)
    while stack:
        n = stack.pop()
        if isinstance(n, (ast.FunctionDef, ast.AsyncFunctionDef, ast.Lambda, ast.ClassDef)):
            continue
        yield n
        stack.extend(ast.iter_child_nodes(n))


def _collect(tree):
    fns = []

    def visit(node, prefix, parent):
        for ch in ast.iter_child_nodes(node):
            if isinstance(ch, (ast.FunctionDef, ast.AsyncFunctionDef)):
                f = _Fn(prefix + ch.name, ch, parent)
                fns.append(f)
                visit(ch, f.qual + ".", f)
            elif isinstance(ch, ast.ClassDef):
                visit(ch, prefix + ch.name + ".", parent)
            else:
                visit(ch, prefix, parent)
    visit(tree, "", None)
    return fns


def _module_level_names(tree):
    names = set()
    stack = list(tree.body)
    while stack:
        n = stack.pop()
        if isinstance(n, (ast.FunctionDef, ast.AsyncFunctionDef, ast.ClassDef, ast.Lambda)):
            continue
        if isinstance(n, ast.Name) and isinstance(n.ctx, (ast.Store, ast.Del)):
            names.add(n.id)
        stack.extend(ast.iter_child_nodes(n))
    return names


def _root_name(e):
    while isinstance(e, (ast.Attribute, ast.Subscript)):
        e = e.value
    return e.id if isinstance(e, ast.Name) else None


@generator("AesState")
def gen_aes_state() -> str:
    m = fresh_import(MOD)
    tree = parse(REL)
    notes = []
    fns = _collect(tree)
    by_simple = {}
    for f in fns:
        by_simple.setdefault(f.node.name, []).append(f)
    top_funcs = {f.node.name for f in fns if "." not in f.qual}
    top_classes = {n.name for n in tree.body if isinstance(n, ast.ClassDef)}
    modnames = _module_level_names(tree)
    for f in fns:
        for n in _own_nodes(f.node):
            if isinstance(n, ast.Global):
                f.globals |= set(n.names)
            if isinstance(n, ast.Nonlocal):
                f.nonlocals |= set(n.names)
    declared_global = set().union(*[f.globals for f in fns]) if fns else set()
    cells = {}
    for nm in sorted(modnames | declared_global):
        if not hasattr(m, nm):
            if nm in declared_global:
                cells[nm] = "unbound-global"
            else:
                notes.append(f"{nm}: assigned at module level but not an attribute of the imported module")
            continue
        v = getattr(m, nm)
        if nm in declared_global and _immutable(v):
            cells[nm] = "rebound-global:" + type(v).__name__
        elif not _immutable(v):
            cells[nm] = type(v).__name__
    imported = set()
    for n in ast.walk(tree):
        if isinstance(n, (ast.Import, ast.ImportFrom)):
            imported |= {(a.asname or a.name).split(".")[0] for a in n.names}
    for nm, v in sorted(vars(m).items()):
        if nm.startswith("__") or nm in cells or nm in modnames or nm in imported:
            continue
        if isinstance(v, (types.ModuleType, types.FunctionType, type)) or _immutable(v):
            continue
        # a mutable module attribute that no module-level statement assigns (created by a function / import *)
        cells[nm] = type(v).__name__
        notes.append(f"{nm}: mutable module attribute not assigned at module level")

    writes, escapes, defaults, pwrites, mcalls, unresolved, calls, gdecls = set(), set(), set(), set(), set(), set(), set(), set()

    # ---- per function: bindings of locals
    for f in fns:
        for n in _own_nodes(f.node):
            tg = []
            if isinstance(n, ast.Assign):
                tg = [(t, n.value) for t in n.targets]
            elif isinstance(n, ast.AnnAssign):
                tg = [(n.target, n.value)]
            elif isinstance(n, ast.AugAssign) and isinstance(n.target, ast.Name):
                tg = [(n.target, None)]
            elif isinstance(n, (ast.For, ast.AsyncFor)):
                tg = [(n.target, ast.Subscript(value=n.iter, slice=ast.Constant(0), ctx=ast.Load()))]
            elif isinstance(n, ast.NamedExpr):
                tg = [(n.target, n.value)]
            elif isinstance(n, (ast.With, ast.AsyncWith)):
                tg = [(i.optional_vars, i.context_expr) for i in n.items if i.optional_vars is not None]
            elif isinstance(n, ast.comprehension):
                tg = [(n.target, ast.Subscript(value=n.iter, slice=ast.Constant(0), ctx=ast.Load()))]
            for t, v in tg:
                if isinstance(t, ast.Name):
                    f.bindings.setdefault(t.id, []).append(v)
                elif isinstance(t, (ast.Tuple, ast.List)):
                    for e in ast.walk(t):
                        if isinstance(e, ast.Name):
                            f.bindings.setdefault(e.id, []).append(ast.Subscript(value=v, slice=ast.Constant(0), ctx=ast.Load()) if v is not None else None)

    def is_local(f, name):
        return (name in f.params or name in f.bindings) and name not in f.globals

    def is_cell(f, name):
        return name in cells and not is_local(f, name)

    # ---- which file functions return only fresh objects / mutate which parameters (fixpoints)
    returns_fresh = {f.qual: False for f in fns}

    def origin(f, e, seen=()):
        """'fresh' | 'cell:<c>' | 'param:<p>' | 'other:<expr>' — what object an expression may denote"""
        if e is None:
            return "fresh"
        if isinstance(e, (ast.Constant, ast.List, ast.Dict, ast.Set, ast.ListComp, ast.DictComp, ast.SetComp,
                          ast.GeneratorExp, ast.JoinedStr, ast.Compare, ast.BoolOp, ast.UnaryOp, ast.Lambda)):
            if isinstance(e, ast.BoolOp):      # `a or b` evaluates to one of its operands
                worst = "fresh"
                for v in e.values:
                    o = origin(f, v, seen)
                    if o != "fresh":
                        worst = o
                return worst
            return "fresh"
        if isinstance(e, ast.Tuple):
            for v in e.elts:
                o = origin(f, v, seen)
                if o != "fresh":
                    return o
            return "fresh"
        if isinstance(e, ast.BinOp):
            return "fresh"
        if isinstance(e, ast.IfExp):
            for v in (e.body, e.orelse):
                o = origin(f, v, seen)
                if o != "fresh":
                    return o
            return "fresh"
        if isinstance(e, ast.Subscript):
            if isinstance(e.slice, ast.Slice):
                base = origin(f, e.value, seen)
                # a slice of a list / bytes / tuple is a new object; a slice of a memoryview is a view of its base
                return "fresh" if base == "fresh" or not _is_view(f, e.value) else base
            base = origin(f, e.value, seen)
            return base if base != "fresh" else "fresh"
        if isinstance(e, ast.Name):
            if e.id in seen:
                return "fresh"
            if is_cell(f, e.id):
                return "cell:" + e.id
            if e.id in f.params and e.id not in f.bindings:
                return "param:" + e.id
            if e.id in f.bindings:
                worst = "param:" + e.id if e.id in f.params else "fresh"
                for v in f.bindings[e.id]:
                    o = origin(f, v, seen + (e.id,))
                    if o != "fresh":
                        worst = o
                return worst
            if e.id in top_funcs or e.id in top_classes:
                return "cell:" + e.id
            return "other:" + e.id
        if isinstance(e, ast.Attribute):
            base = origin(f, e.value, seen)
            return base if base != "fresh" else "other:" + ast.unparse(e)
        if isinstance(e, ast.Call):
            fn = e.func
            if isinstance(fn, ast.Name):
                if fn.id in FRESH_CALLS and not is_local(f, fn.id):
                    if fn.id == "memoryview" and e.args:
                        return origin(f, e.args[0], seen)
                    return "fresh"
                tgt = by_simple.get(fn.id)
                if tgt and len(tgt) == 1 and returns_fresh[tgt[0].qual]:
                    return "fresh"
                return "other:" + ast.unparse(e)
            if isinstance(fn, ast.Attribute):
                base = origin(f, fn.value, seen)
                if fn.attr in ("copy", "hex", "lower", "upper", "join", "encode", "decode", "to_bytes", "tobytes", "keys", "items", "values"):
                    return "fresh"
                if base.startswith("cell:") or base.startswith("param:"):
                    return base
                return "other:" + ast.unparse(e)
            return "other:" + ast.unparse(e)
        if isinstance(e, ast.NamedExpr):
            return origin(f, e.value, seen)
        if isinstance(e, ast.Starred):
            return origin(f, e.value, seen)
        return "other:" + ast.unparse(e)

    def _is_view(f, e):
        if isinstance(e, ast.Call) and isinstance(e.func, ast.Name) and e.func.id == "memoryview":
            return True
        if isinstance(e, ast.Name) and e.id in f.bindings:
            return any(v is not None and _is_view(f, v) for v in f.bindings[e.id] if not (isinstance(v, ast.Name) and v.id == e.id))
        if isinstance(e, ast.Name) and e.id in f.params:
            ann = next((a.annotation for a in f.node.args.args + f.node.args.kwonlyargs if a.arg == e.id), None)
            return ann is not None and "memoryview" in ast.unparse(ann)
        if isinstance(e, ast.Subscript):
            return _is_view(f, e.value)
        return False

    for _ in range(len(fns) + 1):
        changed = False
        for f in fns:
            if returns_fresh[f.qual]:
                continue
            rets = [n for n in _own_nodes(f.node) if isinstance(n, ast.Return)]
            ylds = [n for n in _own_nodes(f.node) if isinstance(n, (ast.Yield, ast.YieldFrom))]
            if ylds:
                continue
            if all(r.value is None or origin(f, r.value) == "fresh" for r in rets):
                returns_fresh[f.qual] = True
                changed = True
        if not changed:
            break

    mutated_params = {f.qual: set() for f in fns}

    def in_place_events(f):
        """(name expr node, how, lock) for every in-place mutation statement of the function"""
        out = []

        def walk(body, lock):
            for n in body:
                if isinstance(n, (ast.FunctionDef, ast.AsyncFunctionDef, ast.ClassDef)):
                    continue
                if isinstance(n, (ast.With, ast.AsyncWith)):
                    lk = lock
                    for i in n.items:
                        if isinstance(i.context_expr, (ast.Name, ast.Attribute)):
                            lk = ast.unparse(i.context_expr)
                    scan_exprs(n.items, lock)
                    walk(n.body, lk)
                    continue
                subs = [c for c in ast.iter_child_nodes(n) if isinstance(c, ast.stmt)]
                if isinstance(n, ast.Try):
                    for h in n.handlers:
                        subs += h.body
                if isinstance(n, (ast.Match,)) if hasattr(ast, "Match") else False:
                    for c in n.cases:
                        subs += c.body
                scan_stmt(n, lock)
                walk(subs, lock)

        def scan_exprs(items, lock):
            for i in items:
                for e in ast.walk(i):
                    scan_call(e, lock)

        def scan_call(e, lock):
            if not isinstance(e, ast.Call):
                return
            fn = e.func
            if isinstance(fn, ast.Attribute) and fn.attr in MUT_METHODS:
                out.append((fn.value, "method:" + fn.attr, lock))
            if isinstance(fn, ast.Name) and fn.id in ("setattr", "delattr") and e.args:
                out.append((e.args[0], "setattr", lock))
            if isinstance(fn, ast.Name) and not is_local(f, fn.id):
                tgt = by_simple.get(fn.id)
                if tgt and len(tgt) == 1:
                    t = tgt[0]
                    for p in mutated_params[t.qual]:
                        a = None
                        if p in t.params and t.params.index(p) < len(e.args):
                            a = e.args[t.params.index(p)]
                        for kw in e.keywords:
                            if kw.arg == p:
                                a = kw.value
                        if a is not None:
                            out.append((a, f"arg:{t.qual}:{p}", lock))

        def scan_stmt(n, lock):
            tgts = []
            if isinstance(n, ast.Assign):
                tgts = [(t, "store") for t in n.targets]
            elif isinstance(n, ast.AnnAssign) and n.value is not None:
                tgts = [(n.target, "store")]
            elif isinstance(n, ast.AugAssign):
                tgts = [(n.target, "aug-store")]
            elif isinstance(n, ast.Delete):
                tgts = [(t, "del") for t in n.targets]
            flat = []
            for t, how in tgts:
                if isinstance(t, (ast.Tuple, ast.List)):
                    flat += [(x, how) for x in ast.walk(t) if isinstance(x, (ast.Subscript, ast.Attribute, ast.Name))
                             and isinstance(getattr(x, "ctx", None), (ast.Store, ast.Del))]
                else:
                    flat.append((t, how))
            for t, how in flat:
                if isinstance(t, ast.Subscript):
                    out.append((t.value, ("slice-" if isinstance(t.slice, ast.Slice) else "") + how, lock))
                elif isinstance(t, ast.Attribute):
                    out.append((t.value, "attr-" + how + ":" + t.attr, lock))
                elif isinstance(t, ast.Name) and (t.id in f.globals or t.id in f.nonlocals):
                    out.append((t, "rebind", lock))
                elif isinstance(t, ast.Name) and how == "aug-store" and is_local(f, t.id):
                    # `x += [..]` mutates a list in place
                    out.append((t, "aug-name", lock))
            own = [c for c in ast.iter_child_nodes(n) if not isinstance(c, ast.stmt)]
            if isinstance(n, (ast.With, ast.AsyncWith)):
                own = []
            for c in own:
                for e in ast.walk(c):
                    if isinstance(e, (ast.Lambda,)):
                        continue
                    scan_call(e, lock)

        walk(f.node.body, "")
        return out

    def classify(f, e, how):
        if how == "rebind":
            return ("cell", e.id)
        o = origin(f, e)
        if how == "aug-name":
            # `x ^= 1` on an int / bytes / str / tuple is a rebinding; in place only for a mutable object
            ann = next((a.annotation for a in f.node.args.posonlyargs + f.node.args.args + f.node.args.kwonlyargs
                        if a.arg == e.id), None)
            if ann is not None and ast.unparse(ann).split("[")[0].strip("'\"") in ("int", "bytes", "str", "bool", "float", "tuple"):
                return ("fresh", "")
            if o == "fresh" or o.startswith("other:"):
                return ("fresh", "")
        if o == "fresh":
            return ("fresh", "")
        kind, _, rest = o.partition(":")
        return (kind, rest)

    for _ in range(len(fns) + 1):
        changed = False
        for f in fns:
            for e, how, _lock in in_place_events(f):
                kind, rest = classify(f, e, how)
                if kind == "param" and rest in f.params and rest not in mutated_params[f.qual]:
                    mutated_params[f.qual].add(rest)
                    changed = True
        if not changed:
            break

    for f in fns:
        for g in sorted(f.globals):
            gdecls.add((f.qual, "global " + g))
        for g in sorted(f.nonlocals):
            gdecls.add((f.qual, "nonlocal " + g))
        a = f.node.args
        pos = a.posonlyargs + a.args
        for p, d in list(zip(pos[len(pos) - len(a.defaults):], a.defaults)) + [(p, d) for p, d in zip(a.kwonlyargs, a.kw_defaults) if d is not None]:
            o = origin(f.parent, d) if f.parent is not None else origin(_Fn("<module>", ast.parse("def _m(): pass").body[0], None), d)
            simple = isinstance(d, ast.Constant) or (isinstance(d, ast.Tuple) and all(isinstance(x, ast.Constant) for x in d.elts)) \
                or (isinstance(d, ast.UnaryOp) and isinstance(d.operand, ast.Constant))
            if isinstance(d, ast.Name) and d.id in cells:
                defaults.add((f.qual, p.arg, "cell:" + d.id))
            elif not simple and not (isinstance(d, ast.Name) and d.id in ("None", "True", "False")):
                if isinstance(d, ast.Name) and hasattr(m, d.id) and _immutable(getattr(m, d.id)):
                    continue
                defaults.add((f.qual, p.arg, ast.unparse(d)[:60]))
        for e, how, lock in in_place_events(f):
            kind, rest = classify(f, e, how)
            if kind == "fresh":
                continue
            via = "" if (isinstance(e, ast.Name) and (e.id == rest)) else "via:" + ast.unparse(e)[:40] + ":"
            if how.startswith("arg:"):
                _, callee, p = how.split(":", 2)
                mcalls.add((f.qual, callee, p, f"{kind}:{rest}"[:80]))
                if kind == "cell":
                    writes.add((f.qual, rest, via + how, lock))
                continue
            if kind == "cell":
                writes.add((f.qual, rest, via + how, lock))
            elif kind == "param":
                if how.startswith("attr-") or how == "setattr":
                    writes.add((f.qual, "<attr>:" + ast.unparse(e)[:60], how, lock))
                else:
                    pwrites.add((f.qual, rest, via + how))
            else:
                if how.startswith("attr-") or how == "setattr":
                    writes.add((f.qual, ("<setattr>:" if how == "setattr" else "<attr>:") + ast.unparse(e)[:60], how, lock))
                else:
                    unresolved.add((f.qual, ast.unparse(e)[:40], rest[:60]))
        # mutating calls with a fresh argument are facts too (the theorem is about ALL of them)
        for n in _own_nodes(f.node):
            if isinstance(n, ast.Call) and isinstance(n.func, ast.Name) and not is_local(f, n.func.id):
                tgt = by_simple.get(n.func.id)
                if tgt and len(tgt) == 1:
                    t = tgt[0]
                    calls.add((f.qual, t.qual))
                    for p in sorted(mutated_params[t.qual]):
                        a_ = n.args[t.params.index(p)] if p in t.params and t.params.index(p) < len(n.args) else \
                            next((kw.value for kw in n.keywords if kw.arg == p), None)
                        if a_ is not None and origin(f, a_) == "fresh":
                            mcalls.add((f.qual, t.qual, p, "fresh"))
                elif tgt:
                    notes.append(f"{f.qual}: call of `{n.func.id}`, which names {len(tgt)} functions of the file")
        # occurrences of cells that are not plain reads
        parents = {}
        for p_ in ast.walk(f.node):
            for ch in ast.iter_child_nodes(p_):
                parents[ch] = p_
        own_ids = {id(n) for n in _own_nodes(f.node)}
        for n in _own_nodes(f.node):
            if not (isinstance(n, ast.Name) and isinstance(n.ctx, ast.Load) and is_cell(f, n.id)):
                continue
            par = parents.get(n)
            ok = False
            if isinstance(par, ast.Subscript) and par.value is n:
                ok = True                                           # CELL[i] (read, or a store recorded above)
            elif isinstance(par, ast.Attribute) and par.value is n:
                ok = True                                           # CELL.method / CELL.attr (mutators recorded above)
            elif isinstance(par, ast.Call) and isinstance(par.func, ast.Name) and par.func.id in PLAIN_READ_FUNCS and n in par.args:
                ok = True
            elif isinstance(par, ast.Compare) and (n in par.comparators or par.left is n):
                ok = True
            elif isinstance(par, (ast.For, ast.comprehension)) and par.iter is n:
                ok = True
            elif isinstance(par, ast.withitem) and par.context_expr is n:
                ok = True
            elif isinstance(par, (ast.If, ast.While, ast.IfExp, ast.BoolOp, ast.UnaryOp)) and not isinstance(par, ast.BoolOp):
                ok = getattr(par, "test", None) is n or isinstance(par, ast.UnaryOp)
            if not ok:
                how = type(par).__name__ if par is not None else "?"
                if isinstance(par, ast.Call):
                    how = "argument of " + ast.unparse(par.func)[:40]
                elif isinstance(par, (ast.Assign, ast.AnnAssign, ast.NamedExpr)):
                    how = "bound to " + ", ".join(ast.unparse(t)[:30] for t in (par.targets if isinstance(par, ast.Assign) else [par.target]))
                elif isinstance(par, ast.Return):
                    how = "returned"
                escapes.add((f.qual, n.id, how))

    def tup(xs):
        return "(" + ", ".join(lean_str(x) for x in xs) + ")"

    L = [HEADER.format(src=REL)]
    L.append("namespace S2T.Gen.AesState\n")
    L.append("/-- a write to something that outlives the call: function, cell, how, lock held (\"\" = none) -/")
    L.append("structure Write where\n  fn : String\n  cell : String\n  how : String\n  lock : String\n  deriving DecidableEq, Repr\n")
    L.append("/-- every `def` of the file -/")
    L.append("def functions : List String := " + lean_list(lean_str(f.qual) for f in fns) + "\n")
    L.append("/-- module-level names whose runtime value is a mutable object, with the type name -/")
    L.append("def cells : List (String × String) := " + lean_list(tup(x) for x in sorted(cells.items())) + "\n")
    L.append("/-- `global` / `nonlocal` declarations -/")
    L.append("def globalDecls : List (String × String) := " + lean_list(tup(x) for x in sorted(gdecls)) + "\n")
    L.append("def writes : List Write := " + lean_list(
        "{ fn := %s, cell := %s, how := %s, lock := %s }" % tuple(lean_str(x) for x in w) for w in sorted(writes)) + "\n")
    L.append("/-- a cell object bound / passed on / returned / stored (not a plain read) -/")
    L.append("def escapes : List (String × String × String) := " + lean_list(tup(x) for x in sorted(escapes)) + "\n")
    L.append("/-- parameters with a mutable (or non-constant) default value -/")
    L.append("def mutableDefaults : List (String × String × String) := " + lean_list(tup(x) for x in sorted(defaults)) + "\n")
    L.append("/-- in-place mutation of a parameter -/")
    L.append("def paramWrites : List (String × String × String) := " + lean_list(tup(x) for x in sorted(pwrites)) + "\n")
    L.append("/-- (caller, callee, mutated parameter, what is passed) -/")
    L.append("def mutatingCalls : List (String × String × String × String) := " + lean_list(tup(x) for x in sorted(mcalls)) + "\n")
    L.append("/-- in-place mutation of a local bound to something not provably fresh -/")
    L.append("def unresolvedWrites : List (String × String × String) := " + lean_list(tup(x) for x in sorted(unresolved)) + "\n")
    L.append("/-- call graph between functions of the file -/")
    L.append("def calls : List (String × String) := " + lean_list(tup(x) for x in sorted(calls)) + "\n")
    L.append("/-- translator cross-check notes; must be empty -/")
    L.append("def notes : List String := " + lean_list(lean_str(n) for n in sorted(set(notes))) + "\n")
    L.append("end S2T.Gen.AesState\n")
    return "\n".join(L)
