"""C13 (RTF): patterns, character classes and literals used by the RTF table extraction -> S2T/Gen/TablesRtf.lean

* the compiled patterns `_RtfParser._extract_tables` / `_extract_table_cells` / `_strip_rtf_simple` use: pattern
  text and flags read from the RUNTIME objects, cross-checked with the `re.compile(<literal>)` in the source;
* the `re.split(<literal>, …)` pattern of `_extract_table_cells` (AST);
* `SPECIAL_CHARS` in dict order (runtime, cross-checked with the AST literal) and the shape of the patterns built
  from it in `__init__` (every one must be  \\\\ + re.escape(kw) + <one common suffix>);
* the character classes the matchers of the model depend on, computed with the `re` module of the running
  interpreter over all code points: `\\w` (ranges >= 128), `[a-z]` under the flags of `_RE_CONTROL_WORD`,
  `\\s` (cross-checked with str.isspace, which `str.strip()` uses);
* the two literals of the row grouping heuristic and the ignorable-group prefixes (AST).
"""
import ast
import re
import sys

from translate import HEADER, fresh_import, generator, lean_list, lean_str, parse

RTF = "sharepoint2text/parsing/extractors/ms_legacy/rtf_extractor.py"
NAMES = ["_RE_TROWD", "_RE_ROW", "_RE_UNICODE", "_RE_HEX_ESCAPE", "_RE_CONTROL_WORD", "_RE_MULTI_SPACE",
         "_RE_MULTI_NEWLINE", "_RE_HEX_RUN", "_RE_CELL_SPACE", "_RE_CELL_NEWLINE"]


def _compile_literals(tree):
    """module-level NAME = re.compile(<str literal>[, flags]) -> {NAME: (pattern text, flags expr source)}"""
    out = {}
    for node in tree.body:
        if isinstance(node, ast.Assign) and len(node.targets) == 1 and isinstance(node.targets[0], ast.Name) \
                and isinstance(node.value, ast.Call) and ast.unparse(node.value.func) == "re.compile" and node.value.args:
            try:
                pat = ast.literal_eval(node.value.args[0])
            except Exception:
                continue
            flags = 0
            ok = True
            for extra in node.value.args[1:]:
                try:
                    flags = int(eval(ast.unparse(extra), {"re": re}))  # only names of the re module
                except Exception:
                    ok = False
            out[node.targets[0].id] = (pat, flags if ok else None)
    return out


def _func(tree, cls, name):
    for node in ast.walk(tree):
        if isinstance(node, ast.ClassDef) and node.name == cls:
            for f in node.body:
                if isinstance(f, ast.FunctionDef) and f.name == name:
                    return f
    return None


def _ranges(points):
    out = []
    for p in points:
        if out and out[-1][1] + 1 == p:
            out[-1][1] = p
        else:
            out.append([p, p])
    return out


def _all_code_points():
    return [c for c in range(sys.maxunicode + 1) if not 0xD800 <= c <= 0xDFFF]


@generator("TablesRtf")
def gen_tables_rtf() -> str:
    notes = []
    mod = fresh_import("sharepoint2text.parsing.extractors.ms_legacy.rtf_extractor")
    tree = parse(RTF)
    lits = _compile_literals(tree)
    pats = []
    for n in NAMES:
        rx = getattr(mod, n, None)
        if not isinstance(rx, re.Pattern):
            notes.append(f"{RTF}: {n} is not a compiled pattern")
            continue
        fl = int(rx.flags & ~re.UNICODE)
        if n not in lits:
            notes.append(f"{RTF}: {n} is not `re.compile(<literal>)` at module level")
        elif lits[n] != (rx.pattern, fl):
            notes.append(f"{RTF}: runtime pattern/flags of {n} differ from the source literal")
        pats.append((n, rx.pattern, fl))

    # re.split(<literal>, row_content) in _extract_table_cells
    f = _func(tree, "_RtfParser", "_extract_table_cells")
    splits = []
    if f is not None:
        for c in ast.walk(f):
            if isinstance(c, ast.Call) and ast.unparse(c.func) == "re.split" and c.args and isinstance(c.args[0], ast.Constant):
                splits.append(c.args[0].value)
    if len(splits) != 1:
        notes.append(f"{RTF}: _extract_table_cells has {len(splits)} re.split(<literal>, ...) calls, the model was written for one")
    pats.insert(2, ("cell-split", splits[0] if splits else "?", 0))

    # SPECIAL_CHARS and the patterns built from it
    cls = getattr(mod, "_RtfParser")
    sc = dict(cls.SPECIAL_CHARS)
    lit = None
    for node in ast.walk(tree):
        if isinstance(node, ast.ClassDef) and node.name == "_RtfParser":
            for st in node.body:
                if isinstance(st, ast.Assign) and getattr(st.targets[0], "id", None) == "SPECIAL_CHARS":
                    try:
                        lit = ast.literal_eval(st.value)
                    except Exception:
                        lit = None
    if lit is None or list(lit.items()) != list(sc.items()):
        notes.append(f"{RTF}: runtime SPECIAL_CHARS differs from the source literal (or is not a literal)")
    inst = cls(b"")
    built = list(getattr(inst, "_special_char_patterns", []))
    suffixes = set()
    if [ch for _, ch in built] != list(sc.values()) or len(built) != len(sc):
        notes.append(f"{RTF}: _special_char_patterns is not one pattern per SPECIAL_CHARS item in dict order")
    for (rx, _), kw in zip(built, sc):
        head = "\\\\" + re.escape(kw)
        if not rx.pattern.startswith(head):
            notes.append(f"{RTF}: special-char pattern for {kw!r} does not start with \\\\ + re.escape(keyword)")
        else:
            suffixes.add((rx.pattern[len(head):], int(rx.flags & ~re.UNICODE)))
    if len(suffixes) != 1:
        notes.append(f"{RTF}: special-char patterns do not share one suffix: {sorted(suffixes)}")
    suf, sfl = (sorted(suffixes)[0] if suffixes else ("?", 0))
    pats.insert(5, ("special-char", "\\\\KW" + suf, sfl))

    # character classes
    cps = _all_code_points()
    w = re.compile(r"\w")
    word_hi = _ranges([c for c in cps if c >= 128 and w.fullmatch(chr(c))])
    ascii_word = "".join(chr(c) for c in range(128) if w.fullmatch(chr(c)))
    cw_flags = getattr(mod, "_RE_CONTROL_WORD").flags
    az = re.compile("[a-z]", cw_flags)
    ctl_alpha = [c for c in cps if az.fullmatch(chr(c))]
    sp = re.compile(r"\s")
    spaces = [c for c in cps if sp.fullmatch(chr(c))]
    if spaces != [c for c in cps if chr(c).isspace()]:
        notes.append("re: \\s and str.isspace() disagree on some code point")
    dg = re.compile(r"\d")
    ascii_digits = "".join(chr(c) for c in range(128) if dg.fullmatch(chr(c)))

    # the two literals of the grouping heuristic:  row_start - last_end > A   and   len(between) > B
    raw_gap = text_gap = None
    f = _func(tree, "_RtfParser", "_extract_tables")
    if f is not None:
        for c in ast.walk(f):
            if isinstance(c, ast.Compare) and len(c.ops) == 1 and isinstance(c.ops[0], ast.Gt) \
                    and isinstance(c.comparators[0], ast.Constant) and isinstance(c.comparators[0].value, int):
                # `<position> - <position> > A` (any variable names) and `len(<text>) > B`
                if isinstance(c.left, ast.BinOp) and isinstance(c.left.op, ast.Sub):
                    raw_gap = c.comparators[0].value if raw_gap is None else "dup"
                elif isinstance(c.left, ast.Call) and getattr(c.left.func, "id", None) == "len":
                    text_gap = c.comparators[0].value if text_gap is None else "dup"
    if not isinstance(raw_gap, int):
        notes.append(f"{RTF}: _extract_tables has no single comparison `<pos> - <pos> > <int>`")
        raw_gap = 0
    if not isinstance(text_gap, int):
        notes.append(f"{RTF}: _extract_tables has no single comparison `len(<text>) > <int>`")
        text_gap = 0

    # prefixes of _remove_ignorable_groups
    prefixes = None
    f = _func(tree, "_RtfParser", "_remove_ignorable_groups")
    if f is not None:
        for st in ast.walk(f):
            if isinstance(st, ast.Assign) and getattr(st.targets[0], "id", None) == "prefixes":
                try:
                    prefixes = list(ast.literal_eval(st.value))
                except Exception:
                    prefixes = None
    if prefixes is None:
        notes.append(f"{RTF}: _remove_ignorable_groups has no literal `prefixes`")
        prefixes = []

    L = [HEADER.format(src=RTF)]
    L.append("import S2T.Model.TablesRtf\nnamespace S2T.Gen.TablesRtf\nopen S2T.Tables.Rtf\n")
    L.append("/-- (name, pattern text, flags without re.UNICODE) of the current source -/")
    L.append("def patterns : List (String × String × Nat) := "
             + lean_list(f"({lean_str(n)}, {lean_str(p)}, {fl})" for n, p, fl in pats) + "\n")
    L.append("def params : Params := {\n  wordHi := " + lean_list((f"({a}, {b})" for a, b in word_hi), per_line=8, indent="    ")
             + ",\n  specials := " + lean_list((f"({lean_str(k)}.toList, {lean_str(v)}.toList)" for k, v in sc.items()), per_line=2, indent="    ")
             + f",\n  rawGap := {raw_gap},\n  textGap := {text_gap} }}\n")
    L.append(f"def asciiWord : String := {lean_str(ascii_word)}")
    L.append(f"def asciiDigits : String := {lean_str(ascii_digits)}")
    L.append("/-- code points matched by `[a-z]` under the flags of _RE_CONTROL_WORD -/")
    L.append("def ctlAlpha : List Nat := " + lean_list((str(c) for c in ctl_alpha), per_line=16))
    L.append("/-- code points matched by `\\s` (= str.isspace) -/")
    L.append("def spaces : List Nat := " + lean_list((str(c) for c in spaces), per_line=16))
    L.append("def ignorable : List String := " + lean_list(lean_str(p) for p in prefixes) + "\n")
    L.append("/-- translator cross-check notes; must be empty -/")
    L.append("def notes : List String := " + lean_list(lean_str(n) for n in notes) + "\n")
    L.append("end S2T.Gen.TablesRtf\n")
    return "\n".join(L)
