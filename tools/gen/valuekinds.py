"""C06: values a third-party reader hands out that become part of the result -> S2T/Gen/ValueKinds.lean

The XLSX extractor renders whatever `openpyxl` hands out per cell through `_get_cell_value`, whose last line is a
generic `str(value)`.  Which classes can arrive there depends on the FLAGS written at each `load_workbook(...)`
call site (`data_only=False` hands out ArrayFormula / DataTableFormula objects and formula strings for cells
without a cached value, `rich_text=True` hands out CellRichText, …).  Emitted from the CURRENT tree and the
INSTALLED openpyxl:

  sites  (file, function, flags as written, [(runtime class of a cell value, rendered by content?)])

for every `load_workbook` call site of the package: a probe workbook holding every kind of cell openpyxl can write
(numbers, strings, booleans, dates, times, durations, error literals, hyperlinks, rich text, plain / array /
data-table formulas WITHOUT cached values, a cached formula) is loaded TWICE with the site's flags — two distinct
objects of equal content per cell — and rendered by the real `_get_cell_value`; "by content" = both renderings are
equal and JSON primitives.  An address (`<… object at 0x…>`) in the rendering makes them differ.
"""
import ast
import datetime
import io
import os

from translate import HEADER, REPO, generator, lean_list, lean_str
from gen.modstate import _package_files, _parents, _enclosing, _short

READERS = {"load_workbook"}


def probe_workbook() -> bytes:
    """every kind of cell the installed openpyxl writes; formulas carry no cached value (never recalculated)"""
    from openpyxl import Workbook
    from openpyxl.worksheet.formula import ArrayFormula, DataTableFormula
    wb = Workbook()
    ws = wb.active
    ws.title = "Kinds"
    ws.append(["text", 7, 2.5, True, None, "#DIV/0!"])
    ws.append([datetime.datetime(2021, 3, 4, 5, 6, 7), datetime.date(2020, 1, 2), datetime.time(8, 9, 10), datetime.timedelta(hours=30, minutes=5)])
    ws["A3"] = "=B1*C1"
    ws["B3"] = ArrayFormula("B3:B3", "=SUM(B1:C1*B1:C1)")
    try:
        ws["C3"] = DataTableFormula(ref="C3:C3", dt2D=False, r1="B1")
    except Exception:
        pass
    ws["D3"] = "link"
    ws["D3"].hyperlink = "https://example.org/x"
    try:
        from openpyxl.cell.rich_text import CellRichText, TextBlock
        from openpyxl.cell.text import InlineFont
        ws["E3"] = CellRichText("plain ", TextBlock(InlineFont(b=True), "bold"))
    except Exception:
        pass
    ws["F3"] = "=1/0"
    buf = io.BytesIO()
    wb.save(buf)
    return buf.getvalue()


def _literal_kwargs(call):
    out = {}
    for k in call.keywords:
        if k.arg is None:
            return None
        try:
            out[k.arg] = ast.literal_eval(k.value)
        except Exception:
            return None
    return out


def call_sites():
    """(file, function, kwargs dict | None) of every reader call in the package"""
    out = []
    for rel in _package_files():
        with open(os.path.join(REPO, rel), encoding="utf-8") as fh:
            tree = ast.parse(fh.read(), filename=rel)
        par = _parents(tree)
        for n in ast.walk(tree):
            if isinstance(n, ast.Call) and ast.unparse(n.func).split(".")[-1] in READERS:
                out.append((rel, _enclosing(par, n), _literal_kwargs(n)))
    return out


def kinds_under(raw, kwargs, render):
    """[(class name, by content)] of the cell values handed out under these flags"""
    import json
    import warnings
    from openpyxl import load_workbook
    warnings.filterwarnings("ignore")
    loads = []
    for _ in range(2):
        wb = load_workbook(io.BytesIO(raw), **kwargs)
        vals = []
        for ws in wb.worksheets:
            for row in ws.iter_rows(values_only=True):
                vals += list(row)
        loads.append((wb, vals))          # both workbooks stay alive: equal content, distinct objects
    by = {}
    for v1, v2 in zip(loads[0][1], loads[1][1]):
        name = type(v1).__name__
        try:
            r1, r2 = render(v1), render(v2)
            json.dumps([r1, r2])
            ok = r1 == r2 and (v1 is not v2 or isinstance(v1, (type(None), bool, int, float, str)))
        except Exception:
            ok = False
        by[name] = by.get(name, True) and ok
    for wb, _ in loads:
        try:
            wb.close()
        except Exception:
            pass
    return sorted(by.items())


@generator("ValueKinds")
def gen_valuekinds() -> str:
    notes, sites = [], []
    try:
        from sharepoint2text.parsing.extractors.ms_modern import xlsx_extractor
        render = xlsx_extractor._get_cell_value
    except Exception as ex:
        render = None
        notes.append(f"xlsx_extractor._get_cell_value not importable: {type(ex).__name__}")
    raw = probe_workbook()
    for rel, fn, kw in sorted(call_sites(), key=lambda s: (s[0], s[1], repr(s[2]))):
        if kw is None:
            notes.append(f"{rel}:{fn}: load_workbook flags are not literals")
            continue
        if render is None:
            continue
        flags = ",".join(f"{k}={kw[k]!r}" for k in sorted(kw))
        try:
            kinds = kinds_under(raw, kw, render)
        except Exception as ex:
            notes.append(f"{rel}:{fn}: probe workbook does not load under {flags}: {type(ex).__name__}")
            continue
        sites.append((rel, fn, flags, kinds))
    L = [HEADER.format(src="load_workbook call sites of sharepoint2text (AST) x the installed openpyxl (probe workbook) x xlsx_extractor._get_cell_value")]
    L.append("import S2T.Model.CellKinds\nnamespace S2T.Gen.ValueKinds\nopen S2T.CellKinds\n")
    L.append("/-- reader call sites with the kinds of cell values handed out under the flags written there -/")
    L.append("def sites : List Site := " + lean_list(
        "{ file := %s, fn := %s, flags := %s, kinds := [%s] }" % (
            lean_str(_short(a)), lean_str(b), lean_str(c), ", ".join("⟨%s, %s⟩" % (lean_str(k), "true" if ok else "false") for k, ok in ks))
        for a, b, c, ks in sites) + "\n")
    L.append("/-- translator notes; must be empty -/")
    L.append("def notes : List String := " + lean_list(lean_str(n) for n in notes) + "\n")
    L.append("end S2T.Gen.ValueKinds\n")
    return "\n".join(L)
