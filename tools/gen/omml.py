"""C19: tables of omml_to_latex.py -> S2T/Gen/Omml.lean

GREEK_TO_LATEX and _SKIP_TAGS are read from the imported module (runtime values) and cross-checked
against the AST literals; op_map / func_map / accent_map / bracket_map and the tuple of opening
brackets are local literals of omml_to_latex() and are read from its AST (each must occur exactly
once and be a literal).  `spaces` are the code points CPython's str.isspace() accepts (what
str.strip() removes)."""
import ast
import sys

from translate import HEADER, ast_literal_assign, chars, fresh_import, generator, lean_list, lean_str, parse

REL = "sharepoint2text/parsing/extractors/util/omml_to_latex.py"


def lean_char(c: str) -> str:
    if len(c) != 1:
        raise ValueError(f"expected a single character, got {c!r}")
    o = ord(c)
    if c == "'":
        return "'\\''"
    if c == "\\":
        return "'\\\\'"
    if o < 0x20 or o == 0x7F or 0xD800 <= o <= 0xDFFF:
        return "(Char.ofNat %d)" % o
    return "'" + c + "'"


def _func(tree, name):
    for node in ast.walk(tree):
        if isinstance(node, ast.FunctionDef) and node.name == name:
            return node
    raise KeyError(name)


def _local_literal(fn, name):
    found = []
    for node in ast.walk(fn):
        if isinstance(node, ast.Assign) and len(node.targets) == 1 and isinstance(node.targets[0], ast.Name) \
                and node.targets[0].id == name:
            found.append(ast.literal_eval(node.value))
        elif isinstance(node, ast.AnnAssign) and isinstance(node.target, ast.Name) and node.target.id == name \
                and node.value is not None:
            found.append(ast.literal_eval(node.value))
    if len(found) != 1:
        raise ValueError(f"{name}: expected exactly one literal assignment in omml_to_latex, found {len(found)}")
    return found[0]


def _opens(fn):
    """the literal tuple in `content_text.strip() in (...)`"""
    found = []
    for node in ast.walk(fn):
        if isinstance(node, ast.Compare) and len(node.ops) == 1 and isinstance(node.ops[0], ast.In) \
                and isinstance(node.comparators[0], (ast.Tuple, ast.List, ast.Set)):
            found.append(list(ast.literal_eval(node.comparators[0])))
    if len(found) != 1:
        raise ValueError(f"expected exactly one `x in (literal tuple)` test in omml_to_latex, found {len(found)}")
    return found[0]


@generator("Omml")
def gen_omml() -> str:
    mod = fresh_import("sharepoint2text.parsing.extractors.util.omml_to_latex")
    greek = dict(mod.GREEK_TO_LATEX)
    skip = sorted(mod._SKIP_TAGS)
    notes = []
    lit = ast_literal_assign(REL, "GREEK_TO_LATEX")
    if lit is None:
        notes.append("GREEK_TO_LATEX: not a literal in the source")
    elif dict(lit) != greek:
        notes.append("GREEK_TO_LATEX: runtime value differs from the source literal")
    # _SKIP_TAGS = frozenset({...}): literal inside a call
    sk_lit = None
    for node in parse(REL).body:
        if isinstance(node, ast.Assign) and isinstance(node.targets[0], ast.Name) and node.targets[0].id == "_SKIP_TAGS":
            v = node.value
            try:
                sk_lit = set(ast.literal_eval(v.args[0])) if isinstance(v, ast.Call) else set(ast.literal_eval(v))
            except Exception:
                sk_lit = None
    if sk_lit is None:
        notes.append("_SKIP_TAGS: not a literal in the source")
    elif sk_lit != set(skip):
        notes.append("_SKIP_TAGS: runtime value differs from the source literal")
    for k in greek:
        if not (isinstance(k, str) and len(k) == 1):
            raise ValueError(f"GREEK_TO_LATEX key {k!r} is not a single character")
    fn = _func(parse(REL), "omml_to_latex")
    op_map = _local_literal(fn, "op_map")
    func_map = _local_literal(fn, "func_map")
    accent_map = _local_literal(fn, "accent_map")
    bracket_map = _local_literal(fn, "bracket_map")
    opens = _opens(fn)
    spaces = [c for c in range(sys.maxunicode + 1) if chr(c).isspace()]

    def smap(d):
        return lean_list(f"({chars(k)}, {chars(v)})" for k, v in d.items())

    L = [HEADER.format(src=REL)]
    L.append("import S2T.Model.Omml\nnamespace S2T.Gen.Omml\nopen S2T.Omml\n")
    L.append("def greek : List (Char × Str) := " + lean_list(f"({lean_char(k)}, {chars(v)})" for k, v in greek.items()) + "\n")
    L.append("def skip : List Str := " + lean_list((chars(s) for s in skip), per_line=6) + "\n")
    L.append("def naryOps : List (Str × Str) := " + smap(op_map) + "\n")
    L.append("def funcs : List (Str × Str) := " + smap(func_map) + "\n")
    L.append("def accents : List (Str × Str) := " + smap(accent_map) + "\n")
    L.append("def opens : List Str := " + lean_list((chars(s) for s in opens), per_line=6) + "\n")
    L.append("def brackets : List (Str × Char) := " + lean_list(f"({chars(k)}, {lean_char(v)})" for k, v in bracket_map.items()) + "\n")
    L.append("def spaces : List Nat := " + lean_list((str(c) for c in spaces), per_line=12) + "\n")
    L.append("/-- translator cross-check notes (runtime value vs. source literal); must be empty -/")
    L.append("def notes : List String := " + lean_list(lean_str(n) for n in notes) + "\n")
    L.append("def tables : Tables := { greek, skip, naryOps, funcs, accents, opens, brackets, spaces }\n")
    L.append("end S2T.Gen.Omml\n")
    return "\n".join(L)
