"""C18: constants, URL templates, status range, transport inventory and behaviour switches of
sharepoint2text/sharepoint_io/client.py -> S2T/Gen/SharePoint.lean"""
import ast
import io
from urllib.error import HTTPError

from translate import HEADER, ast_literal_assign, chars, fresh_import, generator, lean_list, lean_str, parse

REL = "sharepoint2text/sharepoint_io/client.py"
# the client the harness builds (harness/props/c18.py uses the same two values)
SITE_URL = "https://contoso.sharepoint.com/sites/Verif"
TENANT = "tenant-0001"
M_SITE, M_ITEM = "⟪SITE⟫", "⟪ITEM⟫"


class _Resp:
    def __init__(self, status, body):
        self.status, self._b, self.closed = status, body, 0

    def read(self):
        return self._b

    def close(self):
        self.closed += 1


class _Fp(io.BytesIO):
    n_close = 0

    def close(self):
        type(self).n_close += 1
        super().close()


def _client(mod, func):
    return mod.SharePointRestClient(SITE_URL, mod.EntraIDAppCredentials(TENANT, "cid", "secret"), request_func=func)


def _func_of(tree, cls, name):
    for node in tree.body:
        if isinstance(node, ast.ClassDef) and node.name == cls:
            for f in node.body:
                if isinstance(f, ast.FunctionDef) and f.name == name:
                    return f
    return None


@generator("SharePoint")
def gen_sharepoint() -> str:
    mod = fresh_import("sharepoint2text.sharepoint_io.client")
    exc = fresh_import("sharepoint2text.sharepoint_io.exceptions")
    tree = parse(REL)
    notes = []

    # ---- constants: runtime value cross-checked with the source literal
    base = mod._GRAPH_API_BASE
    tmpl = mod._TOKEN_ENDPOINT_TEMPLATE
    for nm, val in (("_GRAPH_API_BASE", base), ("_TOKEN_ENDPOINT_TEMPLATE", tmpl)):
        lit = ast_literal_assign(REL, nm)
        if lit is None:
            notes.append(f"{nm}: not a literal in the source")
        elif lit != val:
            notes.append(f"{nm}: runtime value differs from the source literal")

    # ---- URLs the client builds (runtime: capture what it really requests)
    seen = []

    def capture(req, timeout=None):
        seen.append(req.full_url)
        if len(seen) == 1:
            return _Resp(200, b'{"access_token": "t"}')
        if len(seen) == 2:
            return _Resp(200, ('{"id": "%s"}' % M_SITE).encode())
        return _Resp(200, b'{"value": []}')

    cl = _client(mod, capture)
    cl.list_all_files()
    token_url, site_url, root_children = seen[0], seen[1], seen[2]
    if token_url != tmpl.format(tenant_id=TENANT):
        notes.append("token URL is not the template instantiated with the tenant id")
    if not site_url.startswith(base + "/"):
        notes.append("site URL does not start with _GRAPH_API_BASE")
    item_children = cl._build_children_url(M_SITE, M_ITEM)
    if root_children != cl._build_children_url(M_SITE, None):
        notes.append("list_all_files does not start at _build_children_url(site, None)")
    if root_children.count(M_SITE) != 1 or item_children.count(M_SITE) != 1 or item_children.count(M_ITEM) != 1 \
            or item_children.index(M_SITE) > item_children.index(M_ITEM):
        notes.append("children URL templates have an unexpected shape")
        root_pre, root_post, item_a, item_b, item_c = root_children, "", item_children, "", ""
    else:
        root_pre, root_post = root_children.split(M_SITE)
        item_a, rest = item_children.split(M_SITE)
        item_b, item_c = rest.split(M_ITEM)

    # ---- accepted status range: probed on the real _send for every status 0..999 (robust against a
    # re-phrasing of the comparison), cross-checked with the integer literals that occur in _send
    def accepted(st):
        c2 = _client(mod, lambda req, timeout=None: _Resp(st, b"{}"))
        try:
            c2._send(mod.Request("http://x/"), request_kind="probe")
            return True
        except exc.SharePointRequestError:
            return False

    acc = [st for st in range(0, 1000) if accepted(st)]
    if not acc or acc != list(range(acc[0], acc[-1] + 1)):
        notes.append("_send: the accepted statuses are not one contiguous range")
        lo, hi = 0, 0
    else:
        lo, hi = acc[0], acc[-1] + 1
    send_fn = _func_of(tree, "SharePointRestClient", "_send")
    consts = {n.value for n in ast.walk(send_fn) if isinstance(n, ast.Constant) and type(n.value) is int} if send_fn else set()
    if send_fn is None:
        notes.append("_send not found in the source")
    elif lo not in consts or (hi not in consts and hi - 1 not in consts):
        notes.append(f"_send: probed status range [{lo},{hi}) does not show in its integer literals {sorted(consts)}")
    probes = [(st, st in acc) for st in sorted({0, 100, 199, 200, 201, 204, 299, 300, 301, 304, 400, 404, 500, 503, max(lo - 1, 0), lo, max(hi - 1, 0), hi})]

    # ---- behaviour switches (runtime probes of the three repaired behaviours)
    class Fp(_Fp):
        n_close = 0

    fp = Fp(b"boom")

    def raise_http(req, timeout=None):
        raise HTTPError(req.full_url, 503, "unavailable", {}, fp)

    c3 = _client(mod, raise_http)
    err = None
    try:
        c3._send(mod.Request("http://x/"), request_kind="probe")
    except exc.SharePointRequestError as e:
        err = e  # keep the exception (and its __cause__) alive while looking at the response
    closes_http_error = bool(err is not None and fp.closed)
    del err

    def nonobj(req, timeout=None):
        return _Resp(200, b"[1, 2]")

    def kind(call):
        try:
            call()
            return "returned"
        except exc.SharePointError:
            return "family"
        except Exception as e:  # noqa: BLE001
            return type(e).__name__

    c4 = _client(mod, nonobj)
    c4._access_token = "t"
    k_site = kind(lambda: c4.get_site_id())
    k_page = kind(lambda: list(c4._list_items_paginated("http://x/")))
    k_fold = kind(lambda: c4._get_folders_from_url("http://x/"))
    k_tok = kind(lambda: _client(mod, nonobj).fetch_access_token())
    checks_object = all(k == "family" for k in (k_site, k_page, k_fold, k_tok))
    from datetime import datetime, timezone
    p9 = mod._parse_iso_datetime("2024-01-15T10:00:00.9Z")
    keeps_fraction = p9 == datetime(2024, 1, 15, 10, 0, 0, 900000, tzinfo=timezone.utc)

    # ---- start folders by path (`_get_folder_by_path`): URL template, which characters stay unquoted, which are
    # stripped at the ends, which HTTP statuses mean "no such folder" — all probed on the real method and
    # cross-checked with the literals in its source
    M_PATH = "PATHMARK0"
    by_path_urls = []

    def cap_path(req, timeout=None):
        by_path_urls.append(req.full_url)
        return _Resp(200, b'{"id": "X", "folder": {}}')

    c5 = _client(mod, cap_path)
    c5._access_token = "t"

    def path_url(path):
        del by_path_urls[:]
        c5._get_folder_by_path(M_SITE, path)
        return by_path_urls[-1] if by_path_urls else ""

    u0 = path_url(M_PATH)
    if u0.count(M_SITE) != 1 or u0.count(M_PATH) != 1 or not u0.endswith(M_PATH) or u0.index(M_SITE) > u0.index(M_PATH):
        notes.append("_get_folder_by_path: request URL has an unexpected shape")
        path_a, path_b = u0, ""
    else:
        path_a, rest = u0.split(M_SITE)
        path_b = rest[: -len(M_PATH)]
    kept, stripped = [], []
    for o in range(0x20, 0x7F):
        ch = chr(o)
        u = path_url("a" + ch + "b")
        tail = u[len(path_a) + len(M_SITE) + len(path_b):]
        if tail == "a" + ch + "b":
            kept.append(o)
        elif tail != "a%" + "%02X" % o + "b":
            notes.append(f"_get_folder_by_path: character {o:#x} is neither kept nor percent-encoded in upper-case hex ({tail!r})")
        u = path_url(ch + "x" + ch)
        tail = u[len(path_a) + len(M_SITE) + len(path_b):]
        if tail == "x":
            stripped.append(o)
        elif not (tail.startswith(ch) or tail.startswith("%")):
            notes.append(f"_get_folder_by_path: unexpected treatment of {o:#x} at the ends ({tail!r})")
    gfp = _func_of(tree, "SharePointRestClient", "_get_folder_by_path")
    safe_lits = []
    for sub in ast.walk(gfp) if gfp else []:
        if isinstance(sub, ast.Call) and isinstance(sub.func, ast.Name) and sub.func.id == "quote":
            safe_lits += [kw.value.value for kw in sub.keywords if kw.arg == "safe" and isinstance(kw.value, ast.Constant)]
    import urllib.parse as _up
    always = sorted(_up._ALWAYS_SAFE) if hasattr(_up, "_ALWAYS_SAFE") else None
    if gfp is None:
        notes.append("_get_folder_by_path not found in the source")
    elif len(safe_lits) != 1:
        notes.append("_get_folder_by_path: expected exactly one quote(..., safe=<literal>) call")
    elif always is not None and sorted(set(always) | {ord(x) for x in safe_lits[0]}) != sorted(kept):
        notes.append("_get_folder_by_path: probed unquoted characters differ from urllib's always-safe set + the safe= literal")

    def lookup_status(st):
        def raise_st(req, timeout=None):
            raise HTTPError(req.full_url, st, "x", {}, _Fp(b"{}"))
        c6 = _client(mod, raise_st)
        c6._access_token = "t"
        try:
            return c6._get_folder_by_path(M_SITE, "a") is None
        except exc.SharePointRequestError:
            return False

    swallowed_st = [st for st in range(100, 600) if lookup_status(st)]
    int_lits = {n.value for n in ast.walk(gfp) if isinstance(n, ast.Constant) and type(n.value) is int} if gfp else set()
    if set(swallowed_st) != int_lits:
        notes.append(f"_get_folder_by_path: statuses treated as 'not found' {swallowed_st} differ from its integer literals {sorted(int_lits)}")
    # a folder facet is required, the id is taken as it comes
    c7 = _client(mod, lambda req, timeout=None: _Resp(200, b'{"id": "X", "file": {}}'))
    c7._access_token = "t"
    if c7._get_folder_by_path(M_SITE, "a") is not None:
        notes.append("_get_folder_by_path: an item without a folder facet is accepted")

    # ---- closed world: every HTTP request goes through _send
    request_sites, urlopen_sites, send_callers = [], [], []
    for node in tree.body:
        fns = []
        if isinstance(node, ast.ClassDef):
            fns = [(f"{f.name}", f) for f in node.body if isinstance(f, ast.FunctionDef)]
        elif isinstance(node, ast.FunctionDef):
            fns = [(node.name, node)]
        for nm, f in fns:
            for sub in ast.walk(f):
                if isinstance(sub, ast.Call):
                    fn = sub.func
                    if isinstance(fn, ast.Attribute) and isinstance(fn.value, ast.Name) and fn.value.id == "self":
                        if fn.attr == "_request":
                            request_sites.append(nm)
                        if fn.attr == "_send":
                            send_callers.append(nm)
                    if isinstance(fn, ast.Name) and fn.id == "urlopen":
                        urlopen_sites.append(nm)
    tree_rows = []
    for nm in ("SharePointRequestError", "SharePointAuthError"):
        cls = getattr(exc, nm)
        tree_rows.append((nm, issubclass(cls, exc.SharePointError), issubclass(cls, mod.SharePointRequestError) if nm != "SharePointRequestError" else True))

    L = [HEADER.format(src=REL + ", exceptions.py")]
    L.append("import S2T.Model.SharePoint\nnamespace S2T.Gen.SharePoint\nopen S2T.SP\n")
    L.append(f"-- client built by the harness: site_url={SITE_URL!r} tenant={TENANT!r}")
    L.append(f"def graphBase : Str := {chars(base)}")
    L.append(f"def tokenUrl : Str := {chars(token_url)}")
    L.append(f"def siteUrl : Str := {chars(site_url)}")
    L.append(f"def rootPre : Str := {chars(root_pre)}")
    L.append(f"def rootPost : Str := {chars(root_post)}")
    L.append(f"def itemA : Str := {chars(item_a)}")
    L.append(f"def itemB : Str := {chars(item_b)}")
    L.append(f"def itemC : Str := {chars(item_c)}\n")
    L.append("/-- `_get_folder_by_path` requests `pathA ++ site ++ pathB ++ quote(path.strip('/'))` -/")
    L.append(f"def pathA : Str := {chars(path_a)}")
    L.append(f"def pathB : Str := {chars(path_b)}")
    L.append("/-- ASCII code points (0x20..0x7e) the real `_get_folder_by_path` leaves unquoted / strips at both ends -/")
    L.append("def keptAscii : List Nat := " + lean_list((str(x) for x in kept), per_line=20))
    L.append("def strippedAscii : List Nat := " + lean_list((str(x) for x in stripped), per_line=20))
    L.append("/-- HTTP statuses (100..599) for which the real `_get_folder_by_path` returns None instead of raising -/")
    L.append("def notFoundStatuses : List Nat := " + lean_list((str(x) for x in swallowed_st), per_line=20) + "\n")
    L.append(f"def statusLo : Nat := {lo}\ndef statusHi : Nat := {hi}")
    L.append("/-- (status, accepted by the real `_send`) -/")
    L.append("def statusProbes : List (Nat × Bool) := " + lean_list((f"({s}, {'true' if b else 'false'})" for s, b in probes), per_line=6) + "\n")
    L.append("/-- behaviour of the current tree, probed at run time: `_send` closes the HTTPError response;")
    L.append("    non-object JSON is rejected with a client error (site=%s page=%s folders=%s token=%s);" % (k_site, k_page, k_fold, k_tok))
    L.append("    `_parse_iso_datetime` keeps fractional seconds -/")
    b = lambda x: "true" if x else "false"  # noqa: E731
    L.append(f"def cfg : Cfg := ⟨{b(closes_http_error)}, {b(checks_object)}, {b(keeps_fraction)}⟩\n")
    L.append("/-- functions calling `self._request(...)`, calling `urlopen(...)` directly, calling `self._send(...)` -/")
    L.append("def requestSites : List String := " + lean_list(lean_str(x) for x in request_sites))
    L.append("def urlopenSites : List String := " + lean_list(lean_str(x) for x in urlopen_sites))
    L.append("def sendCallers : List String := " + lean_list(lean_str(x) for x in send_callers) + "\n")
    L.append("/-- (class, is a SharePointError, ·) from issubclass -/")
    L.append("def errorFamily : List (String × Bool) := " + lean_list(f"({lean_str(n)}, {b(f)})" for n, f, _ in tree_rows) + "\n")
    L.append("/-- translator cross-check notes; must be empty -/")
    L.append("def notes : List String := " + lean_list(lean_str(n) for n in notes) + "\n")
    L.append("end S2T.Gen.SharePoint\n")
    return "\n".join(L)
