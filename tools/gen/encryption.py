"""C08: constants of the encryption detectors -> S2T/Gen/Encryption.lean

Every value is read from the CURRENT source: AST literals inside the detector bodies
(marker stream names, FILEPASS id, flag masks, manifest markers, EPUB paths/tag, PDF password /
result constant) cross-checked against RUNTIME behaviour (the detectors are run against a
recording fake `olefile`, module constants are imported), so a changed literal re-decides
`TablesOk` and the theorems in Props/C08.lean.
"""
import ast
import io
import types

from translate import HEADER, ast_literal_assign, chars, fresh_import, generator, lean_list, lean_str, nat_list, parse

from gen.wrappers import find_func, registered_wrappers

ENC = "sharepoint2text/parsing/extractors/util/encryption.py"
DOC = "sharepoint2text/parsing/extractors/ms_legacy/doc_extractor.py"
ARC = "sharepoint2text/parsing/extractors/archive_extractor.py"
SZ = "sharepoint2text/parsing/extractors/util/sevenzip.py"
EPUB = "sharepoint2text/parsing/extractors/epub_extractor.py"
PDF = "sharepoint2text/parsing/extractors/pdf/pdf_extractor.py"


def _strs(node):
    return [n.value for n in ast.walk(node) if isinstance(n, ast.Constant) and isinstance(n.value, str)]


def _exists_args(fn):
    """string arguments of `<x>.exists("...")` calls, in source order"""
    out = []
    for n in ast.walk(fn):
        if isinstance(n, ast.Call) and isinstance(n.func, ast.Attribute) and n.func.attr == "exists" and n.args \
                and isinstance(n.args[0], ast.Constant) and isinstance(n.args[0].value, str):
            out.append((n.lineno, n.col_offset, n.args[0].value))
    return [s for _, _, s in sorted(out)]


class _FakeOle:
    def __init__(self, streams, log):
        self.streams, self.log = streams, log

    def exists(self, name):
        self.log.append(name)
        return name in self.streams

    def openstream(self, name):
        return io.BytesIO(self.streams[name])

    def __enter__(self):
        return self

    def __exit__(self, *a):
        return False


def _with_fake_ole(E, streams, fn):
    log = []
    saved = E.olefile
    E.olefile = types.SimpleNamespace(isOleFile=lambda f: True, OleFileIO=lambda f: _FakeOle(streams, log))
    try:
        res = fn(io.BytesIO(b""))
    finally:
        E.olefile = saved
    return res, log


def _is_enc_detector_call(test):
    if isinstance(test, ast.Call):
        f = test.func
        name = f.id if isinstance(f, ast.Name) else (f.attr if isinstance(f, ast.Attribute) else "")
        return name.startswith("is_") and name.endswith("_encrypted") or name == "_is_epub_encrypted"
    return False


# ----------------------------------------------------------------------------- PDF decision -> PdfTest
class _Untranslatable(ValueError):
    pass


def _pdf_value(node, env):
    """run-time integer value of a constant sub-expression (literal, module-level name, Enum attribute)"""
    try:
        v = eval(compile(ast.Expression(node), "<read_pdf>", "eval"), dict(env))
    except Exception as e:  # noqa
        raise _Untranslatable(f"cannot evaluate {ast.unparse(node)!r}: {e!r}")
    if isinstance(v, bool) or not isinstance(v, int):
        raise _Untranslatable(f"{ast.unparse(node)!r} is not an integer ({v!r})")
    return int(v)


def _pdf_cmp(op, c, flipped):
    """(lean text, python predicate) of `v <op> c` (or `c <op> v` when flipped)"""
    if flipped:
        op = {ast.Lt: ast.Gt, ast.LtE: ast.GtE, ast.Gt: ast.Lt, ast.GtE: ast.LtE}.get(type(op), type(op))()
    nat = lambda x: max(x, 0)
    if isinstance(op, (ast.Eq, ast.Is)):
        return ("(.const false)", lambda v: False) if c < 0 else (f"(.eq {c})", lambda v: v == c)
    if isinstance(op, (ast.NotEq, ast.IsNot)):
        return ("(.const true)", lambda v: True) if c < 0 else (f"(.ne {c})", lambda v: v != c)
    if isinstance(op, ast.Lt):
        return f"(.lt {nat(c)})", lambda v: v < c
    if isinstance(op, ast.LtE):
        return f"(.lt {nat(c + 1)})", lambda v: v <= c
    if isinstance(op, ast.GtE):
        return f"(.ge {nat(c)})", lambda v: v >= c
    if isinstance(op, ast.Gt):
        return f"(.ge {nat(c + 1)})", lambda v: v > c
    raise _Untranslatable(f"comparison operator {type(op).__name__}")


def _pdf_test(node, var, env):
    """(lean PdfTest text, python predicate over ints) of a test expression over the one variable `var`"""
    is_var = lambda n: (isinstance(n, ast.Name) and n.id == var) or (
        isinstance(n, ast.Call) and isinstance(n.func, ast.Name) and n.func.id == "int" and len(n.args) == 1 and not n.keywords
        and isinstance(n.args[0], ast.Name) and n.args[0].id == var)
    if is_var(node):
        return ".truthy", lambda v: v != 0
    if isinstance(node, ast.Constant) and isinstance(node.value, bool):
        return f"(.const {'true' if node.value else 'false'})", lambda v, b=node.value: b
    if isinstance(node, ast.UnaryOp) and isinstance(node.op, ast.Not):
        t, f = _pdf_test(node.operand, var, env)
        return f"(.not {t})", lambda v: not f(v)
    if isinstance(node, ast.BoolOp):
        parts = [_pdf_test(x, var, env) for x in node.values]
        ctor, comb = (".and", all) if isinstance(node.op, ast.And) else (".or", any)
        text, fs = parts[0][0], [p[1] for p in parts]
        for t, _ in parts[1:]:
            text = f"({ctor} {text} {t})"
        return text, lambda v: comb(f(v) for f in fs)
    if isinstance(node, ast.Compare):
        parts, left = [], node.left
        for op, right in zip(node.ops, node.comparators):
            if isinstance(op, (ast.In, ast.NotIn)):
                if not is_var(left) or not isinstance(right, (ast.Tuple, ast.List, ast.Set, ast.Name, ast.Attribute)):
                    raise _Untranslatable(ast.unparse(node))
                if isinstance(right, (ast.Tuple, ast.List, ast.Set)):
                    vals = [_pdf_value(e, env) for e in right.elts]
                else:
                    try:
                        vals = [int(x) for x in eval(compile(ast.Expression(right), "<read_pdf>", "eval"), dict(env))]
                    except Exception as e:  # noqa
                        raise _Untranslatable(f"cannot enumerate {ast.unparse(right)!r}: {e!r}")
                if any(x < 0 for x in vals):
                    raise _Untranslatable("negative member")
                t, f = f"(.mem [{', '.join(map(str, vals))}])", (lambda v, vals=tuple(vals): v in vals)
                if isinstance(op, ast.NotIn):
                    t, f = f"(.not {t})", (lambda v, f=f: not f(v))
            elif is_var(left) and not is_var(right):
                t, f = _pdf_cmp(op, _pdf_value(right, env), False)
            elif is_var(right) and not is_var(left):
                t, f = _pdf_cmp(op, _pdf_value(left, env), True)
            else:
                raise _Untranslatable(ast.unparse(node))
            parts.append((t, f))
            left = right
        text, fs = parts[0][0], [p[1] for p in parts]
        for t, _ in parts[1:]:
            text = f"(.and {text} {t})"
        return text, lambda v: all(f(v) for f in fs)
    raise _Untranslatable(ast.unparse(node))


def _pdf_decision(pfn, env, PasswordType, notes):
    raises_enc = lambda n: any(isinstance(r, ast.Raise) and r.exc is not None and "ExtractionFileEncryptedError" in ast.unparse(r.exc)
                               for r in ast.walk(n))
    # the statements that raise the encrypted error: exactly one `if`, directly under `if <x>.is_encrypted:`
    outer = [n for n in ast.walk(pfn) if isinstance(n, ast.If) and raises_enc(n)
             and not any(isinstance(r, ast.Raise) and "ExtractionFileEncryptedError" in ast.unparse(r) for r in n.body if isinstance(r, ast.Raise))]
    inner = [n for n in ast.walk(pfn) if isinstance(n, ast.If)
             and any(isinstance(r, ast.Raise) and r.exc is not None and "ExtractionFileEncryptedError" in ast.unparse(r.exc) for r in n.body)]
    n_raises = sum(1 for r in ast.walk(pfn) if isinstance(r, ast.Raise) and r.exc is not None and "ExtractionFileEncryptedError" in ast.unparse(r.exc))
    if len(inner) != 1 or n_raises != 1:
        raise ValueError(f"read_pdf: expected exactly one `if …: raise ExtractionFileEncryptedError`, found {len(inner)} / {n_raises} raise statement(s)")
    test_if = inner[0]
    if test_if.orelse:
        notes.append("read_pdf: the encrypted-error test has an else/elif branch")
    guards = [n for n in outer if test_if in n.body]
    if len(guards) != 1 or not (isinstance(guards[0].test, ast.Attribute) and guards[0].test.attr == "is_encrypted"
                                and isinstance(guards[0].test.value, ast.Name)) or guards[0].orelse:
        raise ValueError("read_pdf: the encrypted-error test is not directly under a plain `if <reader>.is_encrypted:`")
    guard = guards[0]
    reader = guard.test.value.id
    # the try statement with the decrypt call, before the test, in the same block
    idx = guard.body.index(test_if)
    tries = [n for n in guard.body[:idx] if isinstance(n, ast.Try)]
    others = [n for n in guard.body if n is not test_if and n not in tries and not (isinstance(n, ast.Expr) and isinstance(n.value, ast.Constant))]
    if len(tries) != 1 or others:
        raise ValueError(f"read_pdf: decrypt block not recognised ({len(tries)} try statement(s), {len(others)} other statement(s))")
    tr = tries[0]
    if len(tr.body) != 1 or not isinstance(tr.body[0], ast.Assign) or len(tr.body[0].targets) != 1 or not isinstance(tr.body[0].targets[0], ast.Name) \
            or tr.orelse or tr.finalbody:
        raise ValueError("read_pdf: try body is not `<v> = <reader>.decrypt(…)`")
    var = tr.body[0].targets[0].id
    call = tr.body[0].value
    if not (isinstance(call, ast.Call) and isinstance(call.func, ast.Attribute) and call.func.attr == "decrypt"
            and isinstance(call.func.value, ast.Name) and call.func.value.id == reader and len(call.args) == 1 and not call.keywords
            and isinstance(call.args[0], ast.Constant) and isinstance(call.args[0].value, str)):
        raise ValueError(f"read_pdf: decrypt call not recognised: {ast.unparse(call)}")
    n_dec = sum(1 for c in ast.walk(pfn) if isinstance(c, ast.Call) and isinstance(c.func, ast.Attribute) and c.func.attr == "decrypt")
    if n_dec != 1:
        notes.append(f"read_pdf calls decrypt {n_dec} times")
    if len(tr.handlers) != 1 or len(tr.handlers[0].body) != 1 or not isinstance(tr.handlers[0].body[0], ast.Assign) \
            or [ast.unparse(t) for t in tr.handlers[0].body[0].targets] != [var]:
        raise ValueError("read_pdf: the handler around decrypt is not a single `<v> = <default>`")
    htype = ast.unparse(tr.handlers[0].type) if tr.handlers[0].type else ""
    if htype not in ("Exception", ""):
        notes.append(f"read_pdf: the handler around decrypt catches {htype!r} only")
    default_node = tr.handlers[0].body[0].value
    # no re-assignment of <v> between the try and the test (the test sees decrypt's value / the default)
    stores = [n for n in ast.walk(pfn) if isinstance(n, ast.Name) and n.id == var and isinstance(n.ctx, ast.Store)]
    if len(stores) != 2:
        notes.append(f"read_pdf assigns {var} {len(stores)} times")

    # the real compiled test on the real PasswordType members / on the real default object
    code = compile(ast.Expression(test_if.test), "<read_pdf>", "eval")
    real = lambda obj: bool(eval(code, dict(env), {var: obj}))
    types = [(m.name, int(m.value)) for m in PasswordType]
    try:
        text, pred = _pdf_test(test_if.test, var, env)
    except _Untranslatable:
        # a spelling outside the translated fragment: its value table over pypdf's outcomes (exact on the domain the
        # K-tied theorems quantify over; the strict all-results reading is not available for it)
        yes = [v for (_, v), m in zip(types, PasswordType) if real(m)]
        text, pred = f"(.mem [{', '.join(map(str, yes))}])", (lambda v, yes=tuple(yes): v in yes)
    for m in PasswordType:
        if real(m) != bool(pred(int(m.value))):
            notes.append(f"read_pdf: translated test {text} and the source test {ast.unparse(test_if.test)!r} disagree on PasswordType.{m.name}")
    try:
        default_obj = eval(compile(ast.Expression(default_node), "<read_pdf>", "eval"), dict(env))
    except Exception as e:  # noqa
        raise ValueError(f"read_pdf: cannot evaluate the handler's default {ast.unparse(default_node)!r}: {e!r}")
    try:
        exc_rejects = real(default_obj)
    except Exception:  # noqa — the test itself fails on the handler's value: the encrypted error is not raised
        exc_rejects = False
    return {"password": call.args[0].value, "test": text, "exc_rejects": exc_rejects, "types": types}


def _self_attr(n):
    return isinstance(n, ast.Attribute) and isinstance(n.value, ast.Name) and n.value.id == "self"


def _sz_reader_state(tree, notes):
    """(needs_password is a pure function of self._folders, every store to self._folders is an unconditional plain assignment)
    read from the CURRENT source of class SevenZipReader / SevenZipFile; every deviation is named in `notes`."""
    classes = {c.name: c for c in tree.body if isinstance(c, ast.ClassDef)}
    rd = classes.get("SevenZipReader")
    if rd is None:
        raise ValueError("class SevenZipReader not found")
    pure = True
    for cname, allowed in (("SevenZipReader", {"_folders"}), ("SevenZipFile", {"_reader"})):
        cls = classes.get(cname)
        fns = [f for f in (cls.body if cls else []) if isinstance(f, ast.FunctionDef) and f.name == "needs_password"]
        if len(fns) != 1:
            notes.append(f"{cname}.needs_password: expected exactly one definition, found {len(fns)}")
            pure = False
            continue
        fn = fns[0]
        why = []
        if fn.decorator_list:
            why.append("is decorated (" + ", ".join(ast.unparse(d) for d in fn.decorator_list) + ")")
        for n in ast.walk(fn):
            if isinstance(n, ast.Attribute) and isinstance(n.ctx, (ast.Store, ast.Del)):
                why.append(f"writes {ast.unparse(n)}")
            elif isinstance(n, (ast.Global, ast.Nonlocal)):
                why.append("declares global / nonlocal names")
            elif isinstance(n, ast.Call) and isinstance(n.func, ast.Name) and n.func.id in ("setattr", "delattr", "vars"):
                why.append(f"calls {n.func.id}()")
            elif _self_attr(n) and isinstance(n.ctx, ast.Load) and n.attr not in allowed:
                why.append(f"reads self.{n.attr}")
            elif isinstance(n, ast.Name) and n.id == "self" and isinstance(n.ctx, ast.Load):
                pass
        # `self` used other than as `self.<attr>` (passed on, __dict__ ...)
        attr_selfs = {id(n.value) for n in ast.walk(fn) if _self_attr(n)}
        if any(isinstance(n, ast.Name) and n.id == "self" and id(n) not in attr_selfs for n in ast.walk(fn) if not isinstance(n, ast.arg)):
            why.append("uses `self` other than through an attribute")
        if why:
            pure = False
            notes.append(f"{cname}.needs_password is not a pure function of self.{'/'.join(sorted(allowed))}: " + "; ".join(sorted(set(why))))
    last = True
    for fn in [f for f in ast.walk(rd) if isinstance(f, (ast.FunctionDef, ast.AsyncFunctionDef))]:
        top = {id(st) for st in fn.body}
        for n in ast.walk(fn):
            if _self_attr(n) and n.attr == "_folders" and isinstance(n.ctx, (ast.Store, ast.Del)):
                st = [x for x in ast.walk(fn) if isinstance(x, ast.stmt) and any(y is n for y in ast.walk(x))]
                inner = min(st, key=lambda x: (x.end_lineno - x.lineno, -x.lineno))
                ok = (isinstance(inner, (ast.Assign, ast.AnnAssign)) and id(inner) in top and inner.value is not None
                      and (isinstance(inner.value, ast.Name) or (isinstance(inner.value, ast.List) and not inner.value.elts))
                      and (not isinstance(inner, ast.Assign) or (len(inner.targets) == 1 and inner.targets[0] is n)))
                if not ok:
                    last = False
                    notes.append(f"{fn.name}: store to self._folders is not an unconditional plain assignment: {ast.unparse(inner)[:80]}")
            if (isinstance(n, ast.Call) and isinstance(n.func, ast.Attribute) and _self_attr(n.func.value) and n.func.value.attr == "_folders"
                    and n.func.attr in ("append", "extend", "insert", "clear", "pop", "remove", "sort", "reverse", "__setitem__", "__delitem__", "__iadd__")):
                last = False
                notes.append(f"{fn.name}: self._folders is mutated in place by .{n.func.attr}()")
            if isinstance(n, ast.Subscript) and _self_attr(n.value) and n.value.attr == "_folders" and isinstance(n.ctx, (ast.Store, ast.Del)):
                last = False
                notes.append(f"{fn.name}: an item of self._folders is stored / deleted")
    return pure, last


@generator("Encryption")
def gen_encryption() -> str:
    notes = []
    E = fresh_import("sharepoint2text.parsing.extractors.util.encryption")
    D = fresh_import("sharepoint2text.parsing.extractors.ms_legacy.doc_extractor")
    S = fresh_import("sharepoint2text.parsing.extractors.util.sevenzip")

    # ---- OLE markers: the names the detectors probe at run time (recording fake olefile, every answer False),
    # cross-checked against the string literals in the detector's source
    def lits(*fnames):
        out = set()
        for f in fnames:
            out |= set(_strs(find_func(ENC, f)))
        for node in parse(ENC).body:       # module-level constant tuples / strings
            if isinstance(node, (ast.Assign, ast.AnnAssign)) and node.value is not None:
                out |= set(_strs(node.value))
        return out

    res, ole_markers = _with_fake_ole(E, {}, E.is_ooxml_encrypted)
    if res is not False:
        notes.append(f"is_ooxml_encrypted answers {res!r} for an OLE file without any stream")
    if not set(ole_markers) <= lits("_has_ole_encryption_stream", "is_ooxml_encrypted"):
        notes.append(f"is_ooxml_encrypted probes {ole_markers!r}, not all of them are literals of its source")
    res, log = _with_fake_ole(E, {}, E.is_ppt_encrypted)
    if res is not False or log[: len(ole_markers)] != ole_markers:
        notes.append(f"is_ppt_encrypted: runtime probes {log!r} do not start with the common markers {ole_markers!r}")
    ppt_extra = log[len(ole_markers):]
    if not set(ppt_extra) <= lits("is_ppt_encrypted"):
        notes.append(f"is_ppt_encrypted probes {ppt_extra!r}, not all of them are literals of its source")
    xfn = find_func(ENC, "is_xls_encrypted")
    res, xls_streams = _with_fake_ole(E, {}, E.is_xls_encrypted)
    if res is not False or not set(xls_streams) <= lits("is_xls_encrypted"):
        notes.append(f"is_xls_encrypted: runtime probes {xls_streams!r} / result {res!r} do not match its source literals")
    # FILEPASS id: the integer constant some value is compared (==) with inside the scan
    fp = [n.comparators[0].value for n in ast.walk(xfn)
          if isinstance(n, ast.Compare) and len(n.ops) == 1 and isinstance(n.ops[0], ast.Eq)
          and isinstance(n.comparators[0], ast.Constant) and isinstance(n.comparators[0].value, int)
          and not isinstance(n.comparators[0].value, bool)]
    if len(fp) != 1:
        raise ValueError(f"is_xls_encrypted: expected one `<x> == <int>` test, found {fp}")
    filepass = int(fp[0])
    if xls_streams:
        rec = lambda rid: rid.to_bytes(2, "little") + b"\x02\x00ab"
        hit, _ = _with_fake_ole(E, {xls_streams[0]: rec(0x809) + rec(filepass)}, E.is_xls_encrypted)
        miss, _ = _with_fake_ole(E, {xls_streams[0]: rec(0x809) + rec(filepass + 1) + rec(filepass - 1)}, E.is_xls_encrypted)
        if hit is not True or miss is not False:
            notes.append(f"is_xls_encrypted: runtime scan does not single out record id {filepass:#x}")

    # ---- DOC FIB
    fib = {}
    for nm in ("FIB_FLAGS_OFFSET", "FIB_ENCRYPTED_FLAG", "FIB_MAGIC_WORD97", "FIB_MAGIC_WORD95", "MIN_DOC_SIZE"):
        fib[nm] = int(getattr(D, nm))
        lit = ast_literal_assign(DOC, nm)
        if lit is None or int(lit) != fib[nm]:
            notes.append(f"{nm}: runtime value differs from / is not the source literal")
    pc = find_func(DOC, "_parse_content")
    flag_tests = [ast.unparse(n.test) for n in ast.walk(pc) if isinstance(n, ast.If) and any(
        isinstance(r, ast.Raise) and "ExtractionFileEncryptedError" in ast.unparse(r) for r in n.body)]
    if flag_tests != ["flags & FIB_ENCRYPTED_FLAG"]:
        notes.append(f"_parse_content: encryption test is {flag_tests!r}")
    magic_tests = [ast.unparse(n.test) for n in ast.walk(pc) if isinstance(n, ast.If) and "magic" in ast.unparse(n.test)]
    if magic_tests != ["magic not in (FIB_MAGIC_WORD97, FIB_MAGIC_WORD95)"]:
        notes.append(f"_parse_content: magic test is {magic_tests!r}")

    # ---- ZIP flag mask
    zfn = find_func(ARC, "_extract_from_zip_optimized")
    masks = [n.test.right.value for n in ast.walk(zfn) if isinstance(n, ast.If) and isinstance(n.test, ast.BinOp)
             and isinstance(n.test.op, ast.BitAnd) and "flag_bits" in ast.unparse(n.test.left)
             and isinstance(n.test.right, ast.Constant)]
    if len(masks) != 1:
        raise ValueError(f"_extract_from_zip_optimized: expected one `flag_bits & <int>` test, found {masks}")
    # handlers of the per-member read, in order: (exception class, raised class)
    read_handlers = []
    tries = [n for n in ast.walk(zfn) if isinstance(n, ast.Try) and any("zf.read" in ast.unparse(b) for b in n.body)]
    if not tries:
        raise ValueError("_extract_from_zip_optimized: no try statement around zf.read")
    inner = min(tries, key=lambda n: n.end_lineno - n.lineno)     # the innermost one
    for h in inner.handlers:
        raised = [ast.unparse(r.exc.func) for r in ast.walk(h) if isinstance(r, ast.Raise) and isinstance(r.exc, ast.Call)]
        read_handlers.append((ast.unparse(h.type) if h.type else "", raised[0] if raised else ""))
    # ---- 7z
    sz = {}
    for nm in ("CODER_AES_PREFIX", "CODER_COPY", "CODER_LZMA", "CODER_LZMA2", "CODER_BCJ"):
        sz[nm] = bytes(getattr(S, nm))
        lit = ast_literal_assign(SZ, nm)
        if lit != sz[nm]:
            notes.append(f"{nm}: runtime value differs from the source literal")
    np_src = ast.unparse(find_func(SZ, "needs_password"))
    if "startswith(CODER_AES_PREFIX)" not in np_src:
        notes.append("needs_password no longer tests startswith(CODER_AES_PREFIX)")
    ad = find_func(SZ, "_apply_decoder")
    aes_raise = ""
    for n in ast.walk(ad):
        if isinstance(n, ast.If) and "CODER_AES_PREFIX" in ast.unparse(n.test):
            for r in n.body:
                if isinstance(r, ast.Raise) and isinstance(r.exc, ast.Call):
                    aes_raise = ast.unparse(r.exc.func)
    # does the 7z extraction path translate that class into the encrypted error?
    z7 = find_func(ARC, "_extract_from_7z_optimized")
    sz_handlers = []
    for n in z7.body:
        if isinstance(n, ast.Try):
            for h in n.handlers:
                raised = [ast.unparse(r.exc.func) for r in ast.walk(h) if isinstance(r, ast.Raise) and isinstance(r.exc, ast.Call)]
                sz_handlers.append((ast.unparse(h.type) if h.type else "", raised[0] if raised else ""))
    # runtime class relation: is the class raised for an AES coder caught first by a handler that raises the encrypted error?
    aes_cls = getattr(S, aes_raise, None)
    header_enc_detected = False
    for pat, raised in sz_handlers:
        pc_ = getattr(S, pat, None)
        if aes_cls is not None and pc_ is not None and issubclass(aes_cls, pc_):
            header_enc_detected = raised == "ExtractionFileEncryptedError"
            break

    # ---- 7z reader STATE: the answer of needs_password() is a function of the folders of the LAST streams info parsed
    # (header's own folder of an EncodedHeader first, additional / main streams later), whoever asked before
    sz_ask_pure, sz_last_write = _sz_reader_state(parse(SZ), notes)

    # ---- ODF
    ofn = find_func(ENC, "is_odf_encrypted")
    text_markers = [n.left.value for n in ast.walk(ofn) if isinstance(n, ast.Compare) and len(n.ops) == 1
                    and isinstance(n.ops[0], ast.In) and isinstance(n.left, ast.Constant) and isinstance(n.left.value, str)]
    tag_names = [n.comparators[0].id for n in ast.walk(ofn) if isinstance(n, ast.Compare) and isinstance(n.left, ast.Attribute)
                 and n.left.attr == "tag" and len(n.ops) == 1 and isinstance(n.ops[0], ast.Eq) and isinstance(n.comparators[0], ast.Name)]
    odf_tag = None
    if len(tag_names) == 1 and isinstance(getattr(E, tag_names[0], None), str):
        odf_tag = getattr(E, tag_names[0])
    odf_member = [s for s in _strs(ofn) if s.lower().endswith("manifest.xml")]
    if len(odf_member) != 1:
        raise ValueError(f"is_odf_encrypted: manifest member name not found ({odf_member})")

    # ---- EPUB
    # The findall pattern may be spelled as a literal, an f-string over module constants or a name: its RUN-TIME value in the
    # module's namespace is what counts (a harmless `f".//{{{_NS}}}EncryptedData"` must not break the tie).  What the
    # decision may depend on is checked structurally: the `return True` under the encryption.xml branch must be guarded by
    # the truthiness of the findall result ALONE — any further condition (on EncryptionMethod algorithms, counts, URIs, …)
    # is reported in `notes` (gen_notes_empty then fails and the failing-input search takes over).
    efn = find_func(EPUB, "_is_epub_encrypted")
    EPm = fresh_import("sharepoint2text.parsing.extractors.epub_extractor")
    enc_path = rights_path = enc_tag = None

    def _findall_value(call):
        a = call.args[0]
        if isinstance(a, ast.Constant) and isinstance(a.value, str):
            return a.value
        try:
            v = eval(compile(ast.Expression(a), "<_is_epub_encrypted>", "eval"), dict(vars(EPm)))
        except Exception as e:  # noqa
            notes.append(f"_is_epub_encrypted: findall pattern {ast.unparse(a)!r} cannot be evaluated in the module namespace ({e!r})")
            return None
        return v if isinstance(v, str) else None

    for n in efn.body:
        if isinstance(n, ast.If):
            ex = _exists_args(n.test)
            if len(ex) != 1:
                continue
            calls = [c for c in ast.walk(n) if isinstance(c, ast.Call) and isinstance(c.func, ast.Attribute)
                     and c.func.attr == "findall" and c.args]
            if calls:
                enc_path = ex[0]
                fa = [_findall_value(c) for c in calls]
                if len(fa) == 1 and isinstance(fa[0], str) and fa[0].startswith(".//"):
                    enc_tag = fa[0][3:]
                else:
                    notes.append(f"_is_epub_encrypted: findall pattern {fa!r} is not one './/<tag>'")
                # names bound to the findall result
                bound = {t.id for a in ast.walk(n) if isinstance(a, ast.Assign) and a.value in calls for t in a.targets if isinstance(t, ast.Name)}
                rets = [i for i in ast.walk(n) if isinstance(i, ast.If) and i is not n
                        and any(isinstance(r, ast.Return) and ast.unparse(r) == "return True" for r in i.body)]
                for i in rets:
                    t = i.test
                    plain = (isinstance(t, ast.Name) and t.id in bound) or t in calls or (
                        isinstance(t, ast.Compare) and len(t.ops) == 1 and isinstance(t.ops[0], (ast.Gt, ast.NotEq)) and isinstance(t.left, ast.Call)
                        and isinstance(t.left.func, ast.Name) and t.left.func.id == "len" and len(t.left.args) == 1
                        and isinstance(t.left.args[0], ast.Name) and t.left.args[0].id in bound
                        and isinstance(t.comparators[0], ast.Constant) and t.comparators[0].value == 0)
                    if not plain:
                        notes.append(f"_is_epub_encrypted: the encrypted verdict under {enc_path!r} is guarded by {ast.unparse(t)!r}, "
                                     "not by the presence of EncryptedData elements alone")
                if not rets:
                    notes.append(f"_is_epub_encrypted: no `return True` under the {enc_path!r} branch")
            elif len(n.body) == 1 and isinstance(n.body[0], ast.Return) and ast.unparse(n.body[0]) == "return True":
                rights_path = ex[0]
    if None in (enc_path, rights_path, enc_tag):
        raise ValueError(f"_is_epub_encrypted: shape not recognised ({enc_path}, {rights_path}, {enc_tag})")

    # ---- PDF: the decision block of read_pdf
    #     if <reader>.is_encrypted:
    #         try: <v> = <reader>.decrypt(<literal>)
    #         except …: <v> = <default>
    #         if <test over v>: raise ExtractionFileEncryptedError(…)
    # The test is TRANSLATED (not pattern-matched against one spelling): any boolean combination of comparisons of <v>
    # with integer-valued constants / names / attributes (resolved at run time in the module's namespace) becomes a
    # `PdfTest`; the translation is cross-checked by evaluating the real compiled test on every pypdf PasswordType
    # member, and the value the handler assigns is judged by the real test on the real object.
    P = fresh_import("sharepoint2text.parsing.extractors.pdf.pdf_extractor")
    from pypdf._encryption import PasswordType
    pfn = find_func(PDF, "read_pdf")
    pdf = _pdf_decision(pfn, vars(P), PasswordType, notes)

    # ---- encryption tests in the registered wrappers: `if <detector>(..): raise ExtractionFileEncryptedError(..)`
    guards = []
    for m, f in registered_wrappers():
        rel = m.replace(".", "/") + ".py"
        wf = find_func(rel, f)
        for n in ast.walk(wf):
            if isinstance(n, ast.If) and _is_enc_detector_call(n.test):
                guards.append((f, "test:" + ast.unparse(n.test)[:60].replace("\n", " ")))

    L = [HEADER.format(src=", ".join([ENC, DOC, ARC, SZ, EPUB, PDF]))]
    L.append("import S2T.Model.Encryption\nnamespace S2T.Gen.Encryption\nopen S2T.Enc\n")
    L.append("def consts : Consts := {")
    L.append("  oleMarkers := [" + ", ".join(chars(s) for s in ole_markers) + "]")
    L.append("  pptExtra := [" + ", ".join(chars(s) for s in ppt_extra) + "]")
    L.append("  xlsStreams := [" + ", ".join(chars(s) for s in xls_streams) + "]")
    L.append(f"  filepassId := {filepass}")
    L.append(f"  fibFlagsOffset := {fib['FIB_FLAGS_OFFSET']}")
    L.append(f"  fibEncryptedFlag := {fib['FIB_ENCRYPTED_FLAG']}")
    L.append(f"  fibMagics := [{fib['FIB_MAGIC_WORD97']}, {fib['FIB_MAGIC_WORD95']}]")
    L.append(f"  minDocSize := {fib['MIN_DOC_SIZE']}")
    L.append(f"  zipEncMask := {int(masks[0])}")
    L.append("  zipReadHandlers := [" + ", ".join(f"({lean_str(a)}, {lean_str(b)})" for a, b in read_handlers) + "]")
    L.append("  aesPrefix := [" + ", ".join(str(b) for b in sz["CODER_AES_PREFIX"]) + "]")
    L.append("  coderCopy := [" + ", ".join(str(b) for b in sz["CODER_COPY"]) + "]")
    L.append("  coderLzma := [" + ", ".join(str(b) for b in sz["CODER_LZMA"]) + "]")
    L.append("  coderLzma2 := [" + ", ".join(str(b) for b in sz["CODER_LZMA2"]) + "]")
    L.append("  coderBcj := [" + ", ".join(str(b) for b in sz["CODER_BCJ"]) + "]")
    L.append(f"  szHeaderEncDetected := {'true' if header_enc_detected else 'false'}")
    L.append(f"  szAskPure := {'true' if sz_ask_pure else 'false'}")
    L.append(f"  szFoldersLastWriteWins := {'true' if sz_last_write else 'false'}")
    L.append("  odfManifest := " + chars(odf_member[0]))
    L.append("  odfEncTag := " + ("none" if odf_tag is None else f"some {chars(odf_tag)}"))
    L.append("  odfTextMarkers := [" + ", ".join(chars(s) for s in text_markers) + "]")
    L.append("  epubEncPath := " + chars(enc_path))
    L.append("  epubRightsPath := " + chars(rights_path))
    L.append("  epubEncTag := " + chars(enc_tag))
    L.append("  pdfPassword := " + chars(pdf["password"]))
    L.append("  pdfTest := " + pdf["test"])
    L.append(f"  pdfExcRejects := {'true' if pdf['exc_rejects'] else 'false'}")
    L.append("  pdfPasswordTypes := [" + ", ".join(f"({lean_str(n)}, {v})" for n, v in pdf["types"]) + "]")
    L.append("}\n")
    L.append("/-- (registered wrapper, tag of its `if <detector>(…): raise ExtractionFileEncryptedError` test in Gen/Wrappers) -/")
    L.append("def guards : List (String × String) := " + lean_list(f"({lean_str(a)}, {lean_str(b)})" for a, b in guards) + "\n")
    L.append("/-- translator cross-check notes (runtime behaviour vs. source literal); must be empty -/")
    L.append("def notes : List String := " + lean_list(lean_str(n) for n in notes) + "\n")
    L.append("end S2T.Gen.Encryption\n")
    return "\n".join(L)
