"""C03: where the unit boundaries come from on the extraction side -> S2T/Gen/UnitsBound.lean

* `loopState`: for every loop that builds the unit sequence (one iteration = one page / sheet / slide / chapter /
  message), every local that is defined outside the loop and changed inside it — i.e. everything an iteration can
  hand to the next one — with the KIND of its use (name-independent): `append` (result list), `counter` (a number
  threaded through: `x += …`, `…, x = f(…, x)`), anything else is spelled out (`subscript-store`, `method:get`, …).
  "Unit k is built from part k alone" is the statement that nothing but the result list and running counters is
  carried over; a memo table, a 'previous page' variable or a shared buffer shows up here under its own kind.
* `mboxChain`: the data flow of `read_mbox_format_mail` with single-assignment locals inlined and parameters
  numbered (so renaming a local or a parameter changes nothing): what is handed to `_split_mbox_messages`, what the
  message loop iterates over, what is yielded per item.
"""
import ast

from translate import HEADER, generator, lean_list, lean_str, parse

PDF = "sharepoint2text/parsing/extractors/pdf/pdf_extractor.py"
XLSX = "sharepoint2text/parsing/extractors/ms_modern/xlsx_extractor.py"
ODS = "sharepoint2text/parsing/extractors/open_office/ods_extractor.py"
ODP = "sharepoint2text/parsing/extractors/open_office/odp_extractor.py"
PPTX = "sharepoint2text/parsing/extractors/ms_modern/pptx_extractor.py"
EPUB = "sharepoint2text/parsing/extractors/epub_extractor.py"
MBOX = "sharepoint2text/parsing/extractors/mail/mbox_email_extractor.py"
PPT = "sharepoint2text/parsing/extractors/ms_legacy/ppt_extractor.py"

# (file, function): every `for` / `while` in it is inventoried
LOOP_SITES = [(PDF, "read_pdf"), (XLSX, "read_xlsx"), (XLSX, "_read_content_from_workbook"), (ODS, "read_ods"), (ODP, "read_odp"),
              (PPTX, "read_pptx"), (EPUB, "read_epub"), (MBOX, "read_mbox_format_mail"), (MBOX, "_split_mbox_messages"),
              (PPT, "_build_slides_from_text_blocks")]


def _func(tree, name):
    for node in ast.walk(tree):
        if isinstance(node, (ast.FunctionDef, ast.AsyncFunctionDef)) and node.name == name:
            return node
    return None


def _store_names(target):
    for n in ast.walk(target):
        if isinstance(n, ast.Name):
            yield n.id


def _stmts_outside(fn, loop):
    """all nodes of fn that are not inside `loop`."""
    inside = set(id(n) for n in ast.walk(loop))
    return [n for n in ast.walk(fn) if id(n) not in inside]


MUTATORS = {"append", "add", "update", "setdefault", "pop", "popitem", "clear", "extend", "insert", "remove", "discard",
            "move_to_end", "appendleft", "__setitem__", "cache_clear"}


def module_names(tree):
    """names bound by assignment at module level (tables, caches, counters … - not functions, classes, imports)."""
    out = set()
    for n in tree.body:
        if isinstance(n, ast.Assign):
            for t in n.targets:
                out.update(_store_names(t))
        elif isinstance(n, (ast.AnnAssign, ast.AugAssign)):
            out.update(_store_names(n.target))
    return out


def loop_state(fn, loop, mod_names=frozenset()):
    """{name: sorted use kinds} for locals defined outside `loop` (assigned there, or parameters) and changed inside,
    and for module-level names that are WRITTEN inside (a module-level table that is only read is not state)."""
    outside_defs = set(a.arg for a in fn.args.args + fn.args.kwonlyargs)
    for n in _stmts_outside(fn, loop):
        if isinstance(n, ast.Assign):
            for t in n.targets:
                outside_defs.update(_store_names(t))
        elif isinstance(n, (ast.AnnAssign, ast.AugAssign)):
            outside_defs.update(_store_names(n.target))
        elif isinstance(n, ast.For):          # (comprehension variables have their own scope)
            outside_defs.update(_store_names(n.target))
        elif isinstance(n, ast.withitem) and n.optional_vars is not None:
            outside_defs.update(_store_names(n.optional_vars))
        elif isinstance(n, ast.NamedExpr):
            outside_defs.update(_store_names(n.target))
    loop_targets = set(_store_names(loop.target)) if isinstance(loop, ast.For) else set()
    uses = {}

    def add(name, kind):
        if name in outside_defs and name not in loop_targets:
            uses.setdefault(name, set()).add(kind)

    body_nodes = [n for st in loop.body + loop.orelse for n in ast.walk(st)]
    for n in body_nodes:
        if isinstance(n, ast.AugAssign) and isinstance(n.target, ast.Name):
            add(n.target.id, "aug:" + type(n.op).__name__)
        elif isinstance(n, ast.Assign):
            for t in n.targets:
                if isinstance(t, ast.Name):
                    add(t.id, "assign")
                elif isinstance(t, (ast.Tuple, ast.List)):
                    for e in t.elts:
                        if isinstance(e, ast.Name):
                            add(e.id, "assign")
                        elif isinstance(e, (ast.Subscript, ast.Attribute)) and isinstance(e.value, ast.Name):
                            add(e.value.id, "subscript-store" if isinstance(e, ast.Subscript) else "attr-store")
                elif isinstance(t, ast.Subscript) and isinstance(t.value, ast.Name):
                    add(t.value.id, "subscript-store")
                elif isinstance(t, ast.Attribute) and isinstance(t.value, ast.Name):
                    add(t.value.id, "attr-store")
        elif isinstance(n, ast.AnnAssign) and isinstance(n.target, ast.Name) and n.value is not None:
            add(n.target.id, "assign")
        elif isinstance(n, ast.NamedExpr):
            add(n.target.id, "assign")
        elif isinstance(n, ast.Delete):
            for t in n.targets:
                for nm in _store_names(t):
                    add(nm, "del")
    changed = set(uses)
    # for the locals that ARE changed: how else are they touched inside the loop (method calls, subscripts, membership tests)
    for n in body_nodes:
        if isinstance(n, ast.Call) and isinstance(n.func, ast.Attribute):
            chain, base = [n.func.attr], n.func.value          # content.slides.append(x): root `content`, method slides.append
            while isinstance(base, ast.Attribute):
                chain.append(base.attr)
                base = base.value
            if isinstance(base, ast.Name) and base.id in outside_defs and base.id not in loop_targets:
                uses.setdefault(base.id, set()).add("method:" + ".".join(reversed(chain)))
        elif isinstance(n, ast.Subscript) and isinstance(n.ctx, ast.Load) and isinstance(n.value, ast.Name) and n.value.id in changed:
            uses[n.value.id].add("subscript-load")
        elif isinstance(n, ast.Compare) and any(isinstance(o, (ast.In, ast.NotIn)) for o in n.ops):
            for c in n.comparators:
                if isinstance(c, ast.Name) and c.id in outside_defs and c.id not in loop_targets:
                    uses.setdefault(c.id, set()).add("membership")
    # module-level names: only writes count
    local_names = set(outside_defs)
    for n in ast.walk(fn):
        if isinstance(n, ast.Name) and isinstance(n.ctx, ast.Store):
            local_names.add(n.id)
    declared_global = set()
    for n in ast.walk(fn):
        if isinstance(n, ast.Global):
            declared_global.update(n.names)
    for n in body_nodes:
        tgt = None
        if isinstance(n, ast.Assign):
            tgt = [t for t in n.targets]
        elif isinstance(n, (ast.AugAssign, ast.AnnAssign)):
            tgt = [n.target]
        elif isinstance(n, ast.Delete):
            tgt = list(n.targets)
        for t in tgt or []:
            for e in (t.elts if isinstance(t, (ast.Tuple, ast.List)) else [t]):
                base = e
                while isinstance(base, (ast.Subscript, ast.Attribute)):
                    base = base.value
                if isinstance(base, ast.Name) and base.id in mod_names and (base.id not in local_names or base.id in declared_global):
                    uses.setdefault("module:" + base.id, set()).add("write" if base is e else ("subscript-store" if isinstance(e, ast.Subscript) else "attr-store"))
        if isinstance(n, ast.Call) and isinstance(n.func, ast.Attribute) and n.func.attr in MUTATORS:
            base = n.func.value
            while isinstance(base, (ast.Subscript, ast.Attribute)):
                base = base.value
            if isinstance(base, ast.Name) and base.id in mod_names and base.id not in local_names:
                uses.setdefault("module:" + base.id, set()).add("method:" + n.func.attr)
    # a local only ever read (and only through attribute-free loads) is not state of the loop; method calls on
    # read-only parameters / contexts (`ctx.close()` is outside the loop) are: they are listed as method:<name>
    return {k: sorted(v) for k, v in uses.items()}


def kind_of(ops):
    s = set(ops)
    if s and all(o == "method:append" or (o.startswith("method:") and o.endswith(".append")) for o in s):
        return "append"
    if s and s <= {"assign", "aug:Add"}:
        return "counter"
    return "+".join(sorted(s))


def loop_inventory():
    out = []
    trees = {}
    for rel, fn_name in LOOP_SITES:
        t = trees.setdefault(rel, parse(rel))
        fn = _func(t, fn_name)
        if fn is None:
            raise ValueError(f"{rel}: function {fn_name} not found (unit-building loop inventory)")
        loops = [n for n in ast.walk(fn) if isinstance(n, (ast.For, ast.While))]
        # outermost loops only: an inner loop's state is part of one iteration of the outer one unless defined outside it
        inner = set()
        for lp in loops:
            for n in ast.walk(lp):
                if n is not lp and isinstance(n, (ast.For, ast.While)):
                    inner.add(id(n))
        for i, lp in enumerate([l for l in loops if id(l) not in inner]):
            for name, ops in sorted(loop_state(fn, lp, module_names(t)).items()):
                out.append((f"{fn_name}#{i}", name, ("module-state:" if name.startswith("module:") else "") + kind_of(ops)))
    return out


MEMO_MODULES = [PDF, XLSX, ODS, ODP, PPTX, EPUB, MBOX, PPT, "sharepoint2text/parsing/extractors/open_office/_shared.py",
                "sharepoint2text/parsing/extractors/ms_legacy/rtf_extractor.py", "sharepoint2text/parsing/extractors/data_types.py"]


def memo_functions():
    """[(module file name, function, parameter list)] of every function in the unit-building modules that carries a memoising
    decorator (lru_cache / cache / cached_property / anything with "cache" or "memo" in its name)."""
    out = []
    for rel in MEMO_MODULES:
        for n in ast.walk(parse(rel)):
            if isinstance(n, (ast.FunctionDef, ast.AsyncFunctionDef)):
                for d in n.decorator_list:
                    txt = ast.unparse(d).lower()
                    if "cache" in txt or "memo" in txt:
                        out.append((rel.split("/")[-1], n.name, ", ".join(a.arg + (": " + ast.unparse(a.annotation) if a.annotation else "") for a in n.args.args)))
    return sorted(out)


def module_writes():
    """[(module file name, function, module-level name, kind)]: every write to a module-level name from inside a function of
    the unit-building modules (state that outlives one document)."""
    out = set()
    for rel in MEMO_MODULES:
        t = parse(rel)
        mods = module_names(t)
        for fn in ast.walk(t):
            if not isinstance(fn, (ast.FunctionDef, ast.AsyncFunctionDef)):
                continue
            declared_global = set()
            local_names = set(a.arg for a in fn.args.args + fn.args.kwonlyargs)
            for n in ast.walk(fn):
                if isinstance(n, ast.Global):
                    declared_global.update(n.names)
                elif isinstance(n, ast.Name) and isinstance(n.ctx, ast.Store):
                    local_names.add(n.id)
            local_names -= declared_global
            for n in ast.walk(fn):
                tgt = []
                if isinstance(n, ast.Assign):
                    tgt = list(n.targets)
                elif isinstance(n, (ast.AugAssign, ast.AnnAssign)):
                    tgt = [n.target]
                elif isinstance(n, ast.Delete):
                    tgt = list(n.targets)
                for tg in tgt:
                    for e in (tg.elts if isinstance(tg, (ast.Tuple, ast.List)) else [tg]):
                        base = e
                        while isinstance(base, (ast.Subscript, ast.Attribute)):
                            base = base.value
                        if isinstance(base, ast.Name) and base.id in mods and base.id not in local_names:
                            out.add((rel.split("/")[-1], fn.name, base.id, "write" if base is e else ("subscript-store" if isinstance(e, ast.Subscript) else "attr-store")))
                if isinstance(n, ast.Call) and isinstance(n.func, ast.Attribute) and n.func.attr in MUTATORS:
                    base = n.func.value
                    while isinstance(base, (ast.Subscript, ast.Attribute)):
                        base = base.value
                    if isinstance(base, ast.Name) and base.id in mods and base.id not in local_names:
                        out.add((rel.split("/")[-1], fn.name, base.id, "method:" + n.func.attr))
    return sorted(out)


# ---- mbox data flow
def _inline(fn):
    """expression -> source text with single-assignment locals inlined, parameters numbered p0, p1 … and loop targets as <item>."""
    params = {a.arg: f"p{i}" for i, a in enumerate(fn.args.args)}
    assigns = {}
    counts = {}
    for n in ast.walk(fn):
        if isinstance(n, ast.Assign) and len(n.targets) == 1 and isinstance(n.targets[0], ast.Name):
            counts[n.targets[0].id] = counts.get(n.targets[0].id, 0) + 1
            assigns[n.targets[0].id] = n.value
        elif isinstance(n, (ast.AugAssign, ast.AnnAssign)) and isinstance(n.target, ast.Name):
            counts[n.target.id] = counts.get(n.target.id, 0) + 2
        elif isinstance(n, ast.Assign):
            for t in n.targets:
                for nm in _store_names(t):
                    counts[nm] = counts.get(nm, 0) + 2
    loop_targets = set()
    for n in ast.walk(fn):
        if isinstance(n, ast.For):
            loop_targets.update(_store_names(n.target))

    class R(ast.NodeTransformer):
        def __init__(self):
            self.depth = 0

        def visit_Name(self, node):
            if node.id in loop_targets:
                return ast.Name(id="ITEM", ctx=ast.Load())
            if node.id in params:
                return ast.Name(id=params[node.id], ctx=ast.Load())
            if counts.get(node.id) == 1 and self.depth < 12:
                self.depth += 1
                import copy
                r = self.visit(copy.deepcopy(assigns[node.id]))
                self.depth -= 1
                return r
            return node

    def show(expr):
        import copy
        return ast.unparse(R().visit(copy.deepcopy(expr)))
    return show


def mbox_chain():
    fn = _func(parse(MBOX), "read_mbox_format_mail")
    if fn is None:
        raise ValueError("read_mbox_format_mail not found")
    show = _inline(fn)
    chain = []
    for n in ast.walk(fn):
        if isinstance(n, ast.Call) and isinstance(n.func, ast.Name) and n.func.id == "_split_mbox_messages":
            chain.append(("split-arg", ", ".join(show(a) for a in n.args)))
    loops = [n for n in ast.walk(fn) if isinstance(n, ast.For)]
    for lp in loops:
        chain.append(("loop-iter", show(lp.iter)))
        for n in ast.walk(lp):
            if isinstance(n, ast.Yield) and n.value is not None:
                chain.append(("unit", show(n.value)))
    return chain


@generator("UnitsBound")
def gen_units_bound() -> str:
    L = [HEADER.format(src="the unit-building loops of the pdf / xlsx / ods / odp / pptx / epub / mbox / ppt extractors")]
    L.append("namespace S2T.Gen.UnitsBound\n")
    L.append("/-- (loop, local, kind): everything one iteration of a unit-building loop can hand to the next -/")
    L.append("def loopState : List (String × String × String) := "
             + lean_list(f"({lean_str(a)}, {lean_str(b)}, {lean_str(c)})" for a, b, c in loop_inventory()) + "\n")
    L.append("/-- memoised functions of the unit-building modules: (module, function, parameters) -/")
    L.append("def memoFunctions : List (String × String × String) := "
             + lean_list(f"({lean_str(a)}, {lean_str(b)}, {lean_str(c)})" for a, b, c in memo_functions()) + "\n")
    L.append("/-- writes to module-level names from inside functions of the unit-building modules: (module, function, name, kind) -/")
    L.append("def moduleWrites : List (String × String × String × String) := "
             + lean_list(f"({lean_str(a)}, {lean_str(b)}, {lean_str(c)}, {lean_str(d)})" for a, b, c, d in module_writes()) + "\n")
    L.append("/-- data flow of read_mbox_format_mail (single-assignment locals inlined, parameters numbered, loop target = ITEM) -/")
    L.append("def mboxChain : List (String × String) := " + lean_list(f"({lean_str(a)}, {lean_str(b)})" for a, b in mbox_chain()) + "\n")
    L.append("end S2T.Gen.UnitsBound\n")
    return "\n".join(L)
