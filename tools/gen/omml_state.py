"""C19: everything by which one call of omml_to_latex.py could influence a LATER call -> S2T/Gen/OmmlState.lean

"The conversion is deterministic / a function of the TREE it is given" needs a closed world of the places where
something can survive a call of `omml_to_latex` / `convert_greek_and_symbols`, or through which a call can see anything
but the value of its argument.  Emitted from the CURRENT text of util/omml_to_latex.py (AST) and the imported module
(runtime values):

imports        modules the file imports (dotted names)
cells          (name, runtime type) of every module-level binding whose value is not provably immutable
               (immutable = str / int / float / bool / None / bytes, tuples and frozensets of such, functions, modules)
channels       every inter-call channel found, one line each; MUST be empty for the theorem
               `S2T.C19.Hist.C19_history_free`:
    cell:<function>:<kind>:<name>      a use of a cell that is not a plain read (`C[k]`, `C.get(k)`, `k in C`, `len(C)`,
                                       iteration, `.items()/.keys()/.values()`): store, delete, mutating / unknown
                                       method, alias, passed on, returned.  Function "<module>" = import-time code
                                       other than the defining assignment.
    cell-type:<name>:<type>            a cell that is not a plain dict / list / set (weak dictionaries, deques, counters,
                                       iterators, locks, thread-locals, arbitrary objects: reading them is not a function
                                       of their import-time content)
    rebind:<function>:<name>           `global` / `nonlocal` declarations
    decorator:<function>:<decorator>   ANY decorator (lru_cache, cache, a home-made memoiser)
    default:<function>:<parameter>     a default value that is not a constant
    store:<function>:<target>          assignment / deletion of an attribute or of a subscript of anything that is not
                                       a per-call local container, `setattr`/`delattr`/`globals()`/`vars()`/`locals()`/
                                       `__dict__`
    mutation:<function>:<recv>.<meth>  a mutating method (`set`, `append`, `remove`, `insert`, `clear`, `extend`, `pop`,
                                       `update`, `setdefault`, `add`, `discard`, `sort`, `reverse`, `popitem`, ...) on
                                       anything that is not a per-call local container — in particular on the ARGUMENT
                                       element (a memo kept inside the tree, a tree "normalised" in place)
    class:<name>                       a class defined in the module (class attributes / instances carry state)
    call:<function>:<callee>           a call of something that is neither a function of this module, a nested function,
                                       a parameter-free pure builtin (`len`, `str`, `sorted`, ...) nor a method of a value
                                       (`id`, `hash`, `ET.tostring`, `copy.deepcopy`, `time.time`, `weakref.ref`, ...)
    yield:<function>                   generators (suspended frames keep state)

A per-call local container = a local name whose lexically last binding before the use is a list / dict / set display or
comprehension in a block enclosing the use, with no other kind of binding of that name inside a loop / nested function
around the use; renaming, adding, re-using such locals is silent.
No line numbers: re-formatting and harmless refactorings (new pure helper, new constant, renamed local) are silent."""
import ast
import types

from translate import HEADER, fresh_import, generator, lean_list, lean_str, parse

REL = "sharepoint2text/parsing/extractors/util/omml_to_latex.py"
MOD = "sharepoint2text.parsing.extractors.util.omml_to_latex"

PLAIN_CONTAINERS = ("dict", "list", "set")
MUT_METHODS = {"set", "append", "add", "update", "pop", "popitem", "clear", "setdefault", "extend", "insert", "remove",
               "discard", "sort", "reverse", "appendleft", "popleft", "move_to_end", "rotate", "subtract", "__setitem__",
               "__delitem__", "__setattr__", "send", "throw", "acquire", "release", "put", "write", "makeelement",
               "intersection_update", "difference_update", "symmetric_difference_update"}
READ_METHODS = {"get", "items", "keys", "values", "copy", "index", "count", "__contains__", "__getitem__", "__len__"}
PURE_BUILTINS = {"len", "str", "sorted", "list", "tuple", "dict", "set", "frozenset", "any", "all", "sum", "min", "max",
                 "enumerate", "zip", "reversed", "isinstance", "bool", "int", "repr", "range", "ord", "chr", "abs"}


def _immutable(v, depth=0):
    if v is None or isinstance(v, (str, int, float, bool, bytes, complex)):
        return True
    if isinstance(v, (types.FunctionType, types.BuiltinFunctionType, types.ModuleType)):
        return True
    if isinstance(v, (tuple, frozenset)) and depth < 6:
        return all(_immutable(x, depth + 1) for x in v)
    return False


def _parents(tree):
    par = {}
    for n in ast.walk(tree):
        for c in ast.iter_child_nodes(n):
            par[c] = n
    return par


def _outer_function(par, n):
    """'<module>' or the name of the OUTERMOST enclosing function (decorators / defaults belong to the enclosing scope)"""
    fn, cur = None, n
    while cur in par:
        p = par[cur]
        if isinstance(p, (ast.FunctionDef, ast.AsyncFunctionDef, ast.Lambda)):
            inside = not (cur in getattr(p, "decorator_list", ()) or cur is p.args)
            if inside:
                fn = p
        cur = p
    return fn


def _fname(fn):
    return "<module>" if fn is None else getattr(fn, "name", "<lambda>")


FRESH_NODES = (ast.List, ast.Dict, ast.Set, ast.ListComp, ast.DictComp, ast.SetComp)


def _bindings(fn):
    """{name: [(position, statement, fresh?)]} of every binding of a local name inside an outermost function
    (nested functions included), in source order"""
    out = {}

    def add(name, st, fresh):
        out.setdefault(name, []).append(((st.lineno, st.col_offset), st, fresh))

    for a in ast.walk(fn):
        if isinstance(a, ast.arg):
            add(a.arg, fn, False)
    for n in ast.walk(fn):
        if isinstance(n, (ast.Assign, ast.AnnAssign)):
            tgts = n.targets if isinstance(n, ast.Assign) else [n.target]
            val = n.value
            for t in tgts:
                if isinstance(t, ast.Name):
                    if val is not None:
                        add(t.id, n, isinstance(val, FRESH_NODES) and len(tgts) == 1)
                else:
                    for e in ast.walk(t):
                        if isinstance(e, ast.Name) and isinstance(e.ctx, ast.Store):
                            add(e.id, n, False)
        elif isinstance(n, ast.Name) and isinstance(n.ctx, (ast.Store, ast.Del)):
            pass
    # every other binding form (for / with / walrus / augmented / comprehension / import / except / del targets)
    plain = {id(t) for n in ast.walk(fn) if isinstance(n, (ast.Assign, ast.AnnAssign))
             for t in (n.targets if isinstance(n, ast.Assign) else [n.target]) for t in ast.walk(t)}
    for n in ast.walk(fn):
        if isinstance(n, ast.Name) and isinstance(n.ctx, (ast.Store, ast.Del)) and id(n) not in plain:
            add(n.id, n, False)
        if isinstance(n, (ast.FunctionDef, ast.AsyncFunctionDef, ast.ClassDef)) and n is not fn:
            add(n.name, n, False)
        if isinstance(n, ast.ExceptHandler) and n.name:
            add(n.name, n, False)
        if isinstance(n, (ast.Global, ast.Nonlocal)):
            for g in n.names:
                add(g, n, False)
    for v in out.values():
        v.sort(key=lambda e: e[0])
    return out


def _is_fresh_local(par, fn, binds, use, name):
    """the object `name` denotes at the AST node `use` was created by a list / dict / set display or comprehension
    during this very call: the lexically last binding before the use is such a display, its statement is in a block
    enclosing the use (it dominates the use), and no other kind of binding of the name occurs inside a loop or a nested
    function around the use (which could run between the display and the use)"""
    if fn is None or name not in binds:
        return False
    pos = (use.lineno, use.col_offset)
    before = [b for b in binds[name] if b[0] < pos]
    if not before or not before[-1][2]:
        return False
    st = before[-1][1]
    # the block that holds the binding statement must enclose the use
    block_owner = par.get(st)
    cur, anc = use, []
    while cur in par:
        cur = par[cur]
        anc.append(cur)
    if block_owner not in anc:
        return False
    # the binding statement must sit in a statement list of its owner that also (transitively) holds the use: same body
    for field in ("body", "orelse", "finalbody", "handlers"):
        blk = getattr(block_owner, field, None)
        if isinstance(blk, list) and st in blk:
            if not any(x in anc or x is use for x in blk):
                return False
    # loops / nested functions between the binding's block and the use: only fresh bindings inside them
    for a in anc:
        if a is block_owner:
            break
        if isinstance(a, (ast.For, ast.AsyncFor, ast.While, ast.FunctionDef, ast.AsyncFunctionDef, ast.Lambda)):
            inside = {id(x) for x in ast.walk(a)}
            for b in binds[name]:
                if id(b[1]) in inside and not b[2]:
                    return False
    return True


def _classify_cell_use(par, node):
    """node: ast.Name (Load) denoting a cell.  [] when the use is a plain read, else [kind]"""
    p = par.get(node)
    if isinstance(p, ast.Subscript) and node is p.value:
        return [] if isinstance(p.ctx, ast.Load) else ["store" if isinstance(p.ctx, ast.Store) else "del"]
    if isinstance(p, ast.Attribute) and node is p.value:
        gp = par.get(p)
        if isinstance(gp, ast.Call) and gp.func is p:
            if p.attr in READ_METHODS:
                return []
            return [("mutate." if p.attr in MUT_METHODS else "method.") + p.attr]
        return ["attr." + p.attr]
    if isinstance(p, ast.Compare) and node in p.comparators and all(isinstance(o, (ast.In, ast.NotIn)) for o in p.ops):
        return []
    if isinstance(p, (ast.For, ast.comprehension)) and node is p.iter:
        return []
    if isinstance(p, ast.Call) and node in p.args and isinstance(p.func, ast.Name) and p.func.id in PURE_BUILTINS:
        return []
    if isinstance(p, (ast.If, ast.While, ast.UnaryOp, ast.BoolOp, ast.IfExp)) and (not isinstance(p, ast.IfExp) or node is p.test) \
            and not isinstance(p, ast.BoolOp):
        return []
    if isinstance(p, (ast.Assign, ast.AnnAssign, ast.NamedExpr)):
        return ["alias"]
    if isinstance(p, (ast.Return, ast.Yield, ast.YieldFrom)):
        return ["return"]
    if isinstance(p, ast.Call):
        return ["passed:" + ast.unparse(p.func)[:40]]
    if isinstance(p, ast.arguments):
        return ["default"]
    return ["other:" + type(p).__name__]


def scan():
    tree = parse(REL)
    mod = fresh_import(MOD)
    par = _parents(tree)
    notes, channels = [], set()
    # ---- module-level bindings
    imports, cells, defining = [], [], {}
    own_functions, classes = set(), []
    for st in tree.body:
        if isinstance(st, ast.Import):
            imports += [a.name for a in st.names]
        elif isinstance(st, ast.ImportFrom):
            imports += [("." * st.level) + (st.module or "") + "." + a.name for a in st.names]
        elif isinstance(st, (ast.FunctionDef, ast.AsyncFunctionDef)):
            own_functions.add(st.name)
        elif isinstance(st, ast.ClassDef):
            classes.append(st.name)
    module_names = {n for n, v in vars(mod).items() if isinstance(v, types.ModuleType)}
    for name, val in sorted(vars(mod).items()):
        if name.startswith("__") and name.endswith("__"):
            continue
        if isinstance(val, type):
            if getattr(val, "__module__", None) == mod.__name__ and name not in classes:
                classes.append(name)
            continue
        if not _immutable(val):
            cells.append((name, type(val).__name__))
    cell_names = {c for c, _ in cells}
    for c, t in cells:
        if t not in PLAIN_CONTAINERS:
            channels.add(f"cell-type:{c}:{t}")
    for c in classes:
        channels.add(f"class:{c}")
    # every top-level name bound at import time must be visible at run time (and vice versa for cells)
    bound = set()
    for st in tree.body:
        for n in ast.walk(st) if not isinstance(st, (ast.FunctionDef, ast.AsyncFunctionDef, ast.ClassDef)) else []:
            if isinstance(n, ast.Name) and isinstance(n.ctx, ast.Store):
                bound.add(n.id)
    for c in sorted(cell_names - bound - module_names):
        notes.append(f"cell {c} is not bound by a module-level statement of the file (injected at run time?)")
    # ---- per-function facts
    fresh = {}
    for st in tree.body:
        if isinstance(st, (ast.FunctionDef, ast.AsyncFunctionDef)):
            fresh[st] = _bindings(st)
    nested = {}
    for st in fresh:
        nested[st] = {n.name for n in ast.walk(st) if isinstance(n, (ast.FunctionDef, ast.AsyncFunctionDef)) and n is not st}
    for n in ast.walk(tree):
        fn = _outer_function(par, n)
        where = _fname(fn)
        binds = fresh.get(fn, {})
        shadow = set()
        if fn is not None:
            shadow = {a.arg for a in ast.walk(fn) if isinstance(a, ast.arg)} | \
                     {t.id for t in ast.walk(fn) if isinstance(t, ast.Name) and isinstance(t.ctx, (ast.Store, ast.Del))}
            globs = {g for x in ast.walk(fn) if isinstance(x, ast.Global) for g in x.names}
            shadow -= globs
        # cells
        if isinstance(n, ast.Name) and n.id in cell_names and n.id not in shadow:
            if isinstance(n.ctx, ast.Load):
                for kind in _classify_cell_use(par, n):
                    channels.add(f"cell:{where}:{kind}:{n.id}")
            else:
                p = par.get(n)
                defining[n.id] = defining.get(n.id, 0) + 1
                top = isinstance(p, (ast.Assign, ast.AnnAssign)) and par.get(p) is tree
                if not top or defining[n.id] > 1:
                    channels.add(f"cell:{where}:rebind:{n.id}")
        if isinstance(n, (ast.Global, ast.Nonlocal)):
            for g in n.names:
                channels.add(f"rebind:{where}:{g}")
        if isinstance(n, (ast.FunctionDef, ast.AsyncFunctionDef, ast.Lambda)):
            for dec in getattr(n, "decorator_list", []):
                channels.add(f"decorator:{getattr(n, 'name', '<lambda>')}:{ast.unparse(dec)[:60]}")
            a = n.args
            pos = a.posonlyargs + a.args
            pairs = list(zip(pos[len(pos) - len(a.defaults):], a.defaults)) + \
                [(k, d) for k, d in zip(a.kwonlyargs, a.kw_defaults) if d is not None]
            for arg, d in pairs:
                try:
                    ok = _immutable(ast.literal_eval(d))
                except Exception:
                    ok = False
                if not ok:
                    channels.add(f"default:{getattr(n, 'name', '<lambda>')}:{arg.arg}")
        if isinstance(n, (ast.Yield, ast.YieldFrom, ast.Await)):
            channels.add(f"yield:{where}")
        # stores into attributes / subscripts
        tgts = []
        if isinstance(n, ast.Assign):
            tgts = n.targets
        elif isinstance(n, (ast.AugAssign, ast.AnnAssign)):
            tgts = [n.target]
        elif isinstance(n, ast.Delete):
            tgts = n.targets
        elif isinstance(n, (ast.For, ast.AsyncFor)):
            tgts = [n.target]
        elif isinstance(n, (ast.With, ast.AsyncWith)):
            tgts = [it.optional_vars for it in n.items if it.optional_vars is not None]
        for t in tgts:
            for tt in ast.walk(t):
                if isinstance(tt, (ast.Attribute, ast.Subscript)) and isinstance(tt.ctx, (ast.Store, ast.Del)):
                    b = tt
                    while isinstance(b, (ast.Attribute, ast.Subscript)):
                        b = b.value
                    local_container = isinstance(tt, ast.Subscript) and isinstance(tt.value, ast.Name) and _is_fresh_local(par, fn, binds, tt, tt.value.id)
                    if isinstance(b, ast.Name) and b.id in cell_names and b.id not in shadow and isinstance(tt.value, ast.Name):
                        continue      # already a cell:...:store line
                    if not local_container:
                        channels.add(f"store:{where}:{ast.unparse(tt)[:60]}")
        if isinstance(n, ast.Attribute) and n.attr in ("__dict__", "__globals__", "__defaults__", "__kwdefaults__", "__closure__"):
            channels.add(f"store:{where}:{ast.unparse(n)[:60]}")
        # calls
        if isinstance(n, ast.Call):
            f = n.func
            if isinstance(f, ast.Name):
                if f.id in ("setattr", "delattr", "globals", "vars", "locals", "exec", "eval", "__import__"):
                    channels.add(f"store:{where}:{f.id}()")
                elif f.id in own_functions or (fn is not None and f.id in nested.get(fn, ())):
                    pass
                elif f.id in PURE_BUILTINS and f.id not in shadow:
                    pass
                else:
                    channels.add(f"call:{where}:{f.id}")
            elif isinstance(f, ast.Attribute):
                recv = f.value
                if isinstance(recv, ast.Name) and recv.id in module_names and recv.id not in shadow:
                    channels.add(f"call:{where}:{ast.unparse(f)[:60]}")
                elif isinstance(recv, ast.Attribute) and isinstance(recv.value, ast.Name) and recv.value.id in module_names:
                    channels.add(f"call:{where}:{ast.unparse(f)[:60]}")
                elif isinstance(recv, ast.Name) and recv.id in cell_names and recv.id not in shadow:
                    pass              # classified above
                elif f.attr in MUT_METHODS:
                    if not (isinstance(recv, ast.Name) and _is_fresh_local(par, fn, binds, n, recv.id)):
                        channels.add(f"mutation:{where}:{ast.unparse(recv)[:40]}.{f.attr}")
            else:
                channels.add(f"call:{where}:{ast.unparse(f)[:60]}")
    for fn_name in ("omml_to_latex", "convert_greek_and_symbols"):
        if fn_name not in own_functions:
            notes.append(f"{fn_name} is not a module-level def of the file")
        elif not isinstance(getattr(mod, fn_name, None), types.FunctionType) or \
                getattr(mod, fn_name).__code__.co_filename.replace("\\", "/").split("sharepoint2text/")[-1] != REL.split("sharepoint2text/")[-1]:
            notes.append(f"{fn_name}: the runtime object is not the plain function defined in the file (wrapped / replaced)")
    return sorted(set(imports)), cells, sorted(channels), notes


@generator("OmmlState")
def gen_omml_state() -> str:
    imports, cells, channels, notes = scan()
    L = [HEADER.format(src=REL + " (AST + runtime values of the module attributes)")]
    L.append("namespace S2T.Gen.OmmlState\n")
    L.append("/-- modules the file imports -/")
    L.append("def imports : List String := " + lean_list(lean_str(i) for i in imports) + "\n")
    L.append("/-- (name, runtime type): module-level bindings whose value is not provably immutable -/")
    L.append("def cells : List (String × String) := " + lean_list(f"({lean_str(a)}, {lean_str(b)})" for a, b in cells) + "\n")
    L.append("/-- every inter-call channel found in the file (see tools/gen/omml_state.py); must be empty -/")
    L.append("def channels : List String := " + lean_list(lean_str(c) for c in channels) + "\n")
    L.append("/-- translator notes; must be empty -/")
    L.append("def notes : List String := " + lean_list(lean_str(n) for n in notes) + "\n")
    L.append("end S2T.Gen.OmmlState\n")
    return "\n".join(L)
