"""C17: REMOVE_TAGS / _VOID_TAGS / BLOCK_TAGS of html_extractor and epub_extractor, and the
inventory of HTMLParser hooks the two event machines override / of methods touching the
skip state -> S2T/Gen/HtmlSkip.lean"""
import ast
from html.parser import HTMLParser

from translate import HEADER, ast_literal_assign, chars, fresh_import, generator, lean_list, lean_str, parse

HTML = "sharepoint2text/parsing/extractors/html_extractor.py"
EPUB = "sharepoint2text/parsing/extractors/epub_extractor.py"


def _ast_set(rel, name):
    """module-level `name = {…}` / `name = frozenset({…})` literal as a set, or None"""
    lit = ast_literal_assign(rel, name)
    if lit is not None:
        return set(lit)
    for node in parse(rel).body:
        if isinstance(node, ast.Assign) and len(node.targets) == 1 and isinstance(node.targets[0], ast.Name) \
                and node.targets[0].id == name and isinstance(node.value, ast.Call) \
                and getattr(node.value.func, "id", None) in ("frozenset", "set") and len(node.value.args) == 1:
            try:
                return set(ast.literal_eval(node.value.args[0]))
            except Exception:
                return None
    return None


def _class_inventory(rel, clsname, cls):
    """(overridden HTMLParser hooks, methods that mention the skip state, names assigned at module level twice)"""
    overrides = sorted(n for n in cls.__dict__ if not n.startswith("__") and hasattr(HTMLParser, n))
    touch = []
    for node in ast.walk(parse(rel)):
        if isinstance(node, ast.ClassDef) and node.name == clsname:
            for fn in node.body:
                if isinstance(fn, (ast.FunctionDef, ast.AsyncFunctionDef)):
                    names = {n.attr for n in ast.walk(fn) if isinstance(n, ast.Attribute)}
                    if names & {"skip_depth", "_skip_tag"}:
                        touch.append(fn.name)
    return overrides, sorted(touch)


@generator("HtmlSkip")
def gen_htmlskip() -> str:
    hx = fresh_import("sharepoint2text.parsing.extractors.html_extractor")
    ex = fresh_import("sharepoint2text.parsing.extractors.epub_extractor")
    notes = []
    vals = {}
    for key, mod, rel, name in [
        ("htmlRemove", hx, HTML, "REMOVE_TAGS"),
        ("htmlVoid", hx, HTML, "_VOID_TAGS"),
        ("epubRemove", ex, EPUB, "REMOVE_TAGS"),
        ("epubVoid", ex, EPUB, "_VOID_TAGS"),
        ("epubBlock", ex, EPUB, "BLOCK_TAGS"),
    ]:
        if not hasattr(mod, name):
            notes.append(f"{rel}: {name} does not exist")
            vals[key] = []
            continue
        rt = getattr(mod, name)
        if not isinstance(rt, (set, frozenset)) or not all(isinstance(x, str) for x in rt):
            notes.append(f"{rel}: {name} is not a set of str at runtime")
            vals[key] = []
            continue
        lit = _ast_set(rel, name)
        if lit is None:
            notes.append(f"{rel}: {name} is not a set literal in the source")
        elif lit != set(rt):
            notes.append(f"{rel}: runtime value of {name} differs from the source literal")
        vals[key] = sorted(rt)
    # the msg and mhtml paths must use the html_extractor classes themselves
    mh = fresh_import("sharepoint2text.parsing.extractors.mhtml_extractor")
    if getattr(mh, "read_html", None) is not hx.read_html:
        notes.append("mhtml_extractor.read_html is not html_extractor.read_html")
    try:
        mg = fresh_import("sharepoint2text.parsing.extractors.mail.msg_email_extractor")
        if getattr(mg, "_HtmlTreeBuilder", None) is not hx._HtmlTreeBuilder:
            notes.append("msg_email_extractor._HtmlTreeBuilder is not html_extractor._HtmlTreeBuilder")
    except Exception as exc:  # missing third-party dependency: recorded, not hidden
        notes.append(f"msg_email_extractor not importable: {type(exc).__name__}")
    h_over, h_touch = _class_inventory(HTML, "_HtmlTreeBuilder", hx._HtmlTreeBuilder)
    e_over, e_touch = _class_inventory(EPUB, "_XhtmlTextExtractor", ex._XhtmlTextExtractor)
    for cls in (hx._HtmlTreeBuilder, ex._XhtmlTextExtractor):
        if cls.__mro__[1] is not HTMLParser:
            notes.append(f"{cls.__name__}: direct base class is not html.parser.HTMLParser")

    L = [HEADER.format(src=f"{HTML}, {EPUB}")]
    L.append("import S2T.Model.HtmlSkip\nnamespace S2T.Gen.HtmlSkip\nopen S2T.HtmlSkip\n")
    for key in ("htmlRemove", "htmlVoid", "epubRemove", "epubVoid", "epubBlock"):
        L.append(f"def {key} : List Str := " + lean_list((chars(t) for t in vals[key]), per_line=6) + "\n")
    L.append("def htmlTables : Tables := { remove := htmlRemove, void := htmlVoid }")
    L.append("def epubTables : Tables := { remove := epubRemove, void := epubVoid }\n")
    L.append("/-- HTMLParser attributes overridden by `_HtmlTreeBuilder` / `_XhtmlTextExtractor` -/")
    L.append("def htmlOverrides : List Str := " + lean_list((chars(n) for n in h_over), per_line=4))
    L.append("def epubOverrides : List Str := " + lean_list((chars(n) for n in e_over), per_line=4) + "\n")
    L.append("/-- methods of the two classes that mention `skip_depth` / `_skip_tag` -/")
    L.append("def htmlSkipTouch : List Str := " + lean_list((chars(n) for n in h_touch), per_line=4))
    L.append("def epubSkipTouch : List Str := " + lean_list((chars(n) for n in e_touch), per_line=4) + "\n")
    L.append("/-- translator cross-check notes; must be empty -/")
    L.append("def notes : List String := " + lean_list(lean_str(n) for n in notes) + "\n")
    L.append("end S2T.Gen.HtmlSkip\n")
    return "\n".join(L)
