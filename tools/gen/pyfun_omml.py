"""Function-level translator, OMML part (extends tools/gen/pyfun_paths.py WITHOUT editing it or pyfun.py).

Generator `PyOmml`: `convert_greek_and_symbols` and `omml_to_latex` (with its nested, recursive `process_element`) of
sharepoint2text/parsing/extractors/util/omml_to_latex.py -> lean/S2T/Gen/PyOmml.lean.  Primitive operations are the TRUSTED
definitions of lean/S2T/Py/Omml.lean (namespace `S2T.Py.Omml`); the equivalence with the hand model
lean/S2T/Model/Omml.lean is proved in lean/S2T/Props/C19_Src.lean.

`OmmlFuncTr(FuncTrX)` adds, construct by construct (AST of the current source only; whatever is not understood appends to
`notes`, never an approximation):

| Python | Lean |
|---|---|
| nested `def g(p: T) -> R:` that reads / mutates in place list locals `L…` of the enclosing function `f` (a CLOSURE) | a top-level definition `f.g (p : T) (L : List _) … : M (R × List _ …)` emitted before `f` (state passing); `return e` inside it is `return (e, L…)`; a captured local that nobody mutates is a read-only parameter; `nonlocal` / rebinding a captured name is unsupported |
| a call `g(a)` of a closure, anywhere in an expression of a simple statement / an `if` test / a `for` iterable | HOISTED: `let py_ck ← f.g a L…` and `L := py_ck.2` are placed before the statement, the call itself is `py_ck.1`.  Accepted only if Python evaluates nothing that may raise, and reads no hoisted-upon variable, before the call in that statement, and the call is not in a conditionally evaluated position (`and`/`or` tail, `x if c else y` branch, lambda) |
| a RECURSIVE closure (calls itself) with exactly one parameter of type `Element` / `Element | None` | well-founded recursion, `termination_by sizeOf <that parameter>`, `decreasing_by all_goals py_omml_decreasing` (lean/S2T/Py/Omml.lean: `find` / `findall` / iteration return descendants).  No fuel, no `partial`; Lean rejects the generated file if a call is not on a descendant |
| `if x is None: <block that always returns / raises>` followed by more statements, `x` a never re-assigned `None`-able parameter / local | `match py_h_x : x with \\| none => block \\| some x => rest` (the rest sees `x` at its non-None type; the equation is what the termination proof uses) |
| `[e for v in xs]` whose element calls a closure | a loop placed before the statement: `let mut py_lk := []; for v in xs do (hoisted calls); py_lk := listAppend py_lk e` |
| `L.pop()` as an expression on an alias-free local / captured list | hoisted `let py_pk ← listPop L; L := py_pk.1`, value `py_pk.2` (`IndexError` kept) |
| `while L and REST: BODY` / `while L: BODY`, `L` a list local, BODY without `break/continue/return`, containing exactly ONE `L.pop()` in a top-level statement of BODY, evaluated unconditionally, and no other change of `L` | auxiliary definition `f.while_k (read-only locals) (loop-carried locals) := if py_hL : truthy L = true then do if REST then (BODY) ; f.while_k … (L.dropLast) … else pure (carried) else pure (carried)`, `termination_by L.length`, `decreasing_by all_goals py_pop_decreasing py_hL`: well-founded recursion generated from the loop, no fuel.  The new `L` is computed from the old one (`dropLast` is what a successful `pop()` leaves) |
| `x = []` without annotation | `let mut x : List T := []` with `T` taken from the first `x.append(e)` |
| a `dict` / tuple literal made of string constants (`op_map = {…}`, `s in ("(", "[", "{")`) | an auxiliary definition `f.<name>` / `f.tuple_k : List (Str × Str)` / `List Str` (so that the part file can tie it to the table the existing generator emits) |
| `elem.tag`, `elem.text`, `for c in elem`, `elem.get(k)`, `elem.get(k, d)` | `Xml` fields, `Xml.iter`, `Xml.get?`, `Xml.getD` |
| `elem.find(P)`, `elem.findall(P)` with `P` a translation-time CONSTANT (string literals, f-strings, `+` over module string constants) in the ElementPath subset `step(/step)*` | `Xml.find elem ⟨step₁, [step₂, …]⟩`: the translator splits the constant at the `/` outside `{…}` and emits every step as the expression the source wrote (`M_NS ++ "chr".toList`) |
| `x or d` with `x : T \\| None`, `d : T` | `orOpt x d` |
| `for ch in s` on a `str`; `a in s` on strings; `s.partition(t)`; `s.strip()`; `s * n` | `strIter`, `strContains`, `(← partition s t)` (`ValueError`), `strip S2T.Gen.Omml.spaces s`, `strRepeat` |
| `k in D`, `D[k]` for the module table `GREEK_TO_LATEX` (keys are one-character strings; generated as `List (Char × Str)` by tools/gen/omml.py) | `cdictContains`, `(← cdictGetItem D k)` (`KeyError` kept) |
| module-level string constant (`M_NS`) | a definition of the generated file (runtime value, cross-checked with the source literal) |
"""
from __future__ import annotations

import ast
import copy
import re

from translate import HEADER, ast_literal_assign, chars, fresh_import, generator, lean_list, lean_str, parse
from gen import pyfun
from gen.pyfun import (BOOL, INT, MODULES, NONE, RECORDS, STR, UNK, Dict, FuncTr, Lst, Opt, Rec, SetT, Sig, Tup,
                       Unsupported, dotted, ident, lt, unify)
from gen.pyfun_paths import INPLACE_METHODS, FuncTrX, ModTrX, _parents

P = "S2T.Py.Omml."
XML = Rec("OmmlXml")
CDICT = Rec("OmmlCharDict")     # dict whose keys are one-character strings, generated with `Char` keys
RECORDS.update({
    "OmmlXml": dict(lean=P + "Xml", attrs={"tag": ("tag", STR, False), "text": ("text", Opt(STR), False),
                                           "tail": ("tail", Opt(STR), False)}, methods={}),
    "OmmlCharDict": dict(lean="(List (Char × S2T.Py.Str))", attrs={}, methods={}),
})

OMML_SRC = "sharepoint2text/parsing/extractors/util/omml_to_latex.py"
OMODULES = {
    "PyOmml": dict(
        src=OMML_SRC, pymod="sharepoint2text.parsing.extractors.util.omml_to_latex",
        imports=["S2T.Py.Omml", "S2T.Gen.Omml"], uses=[],
        # which annotation means which type in this module
        annot={"ET.Element | None": Opt(XML), "ET.Element": XML},
        # the class behind the annotation (checked at run time)
        annot_objects={"ET.Element": "xml.etree.ElementTree.Element"},
        # module tables: the definitions tools/gen/omml.py emits from the runtime values (cross-checked with the source)
        consts={"GREEK_TO_LATEX": ("S2T.Gen.Omml.greek", CDICT), "_SKIP_TAGS": ("S2T.Gen.Omml.skip", SetT(STR))},
        # module-level string constants: emitted into the generated file itself
        strconsts=["M_NS"],
        # the code points with str.isspace() (what str.strip() removes): table of tools/gen/omml.py
        isspace="S2T.Gen.Omml.spaces",
        funcs=[("convert_greek_and_symbols", {}), ("omml_to_latex", {})]),
}
MODULES.update(OMODULES)

STEP_RE = re.compile(r"(\{[^}]+\})?[^/\[\]()@!=:*.{}'\"\s]+")


class ClosureSig:
    def __init__(self, lean, params, ret, state, ro, env, recursive):
        self.lean, self.params, self.ret, self.state, self.ro, self.env, self.recursive = lean, params, ret, state, ro, env, recursive
        self.defaults = {}


def proj(i, n):
    """projection of component i of a right-nested n-tuple"""
    return ".2" * i + (".1" if i < n - 1 else "")


class OmmlFuncTr(FuncTrX):
    _STATE = FuncTrX._STATE + ("whiles", "open_markers")

    def __init__(self, mod, node, opts, qualname=None, parent=None):
        super().__init__(mod, node, opts, qualname=qualname)
        self.parent = parent
        self.pre: list = []            # hoisted statements of the statement being translated (relative indentation)
        self.hoists: list = []         # (ast node, names it assigns) of the statement being translated
        self.counter = {"c": 0, "p": 0, "l": 0, "ty": 0, "tuple": 0, "dict": 0}
        self.type_fix: dict = {}       # marker -> lean type of an un-annotated `x = []`
        self.aux: list = []            # auxiliary definitions, emitted before the function
        self.whiles = 0
        self.closures: dict = dict(parent.closures) if parent else {}
        self.cap_state: list = []      # closure: captured locals that are mutated (threaded)
        self.cap_ro: list = []         # closure: captured locals nobody mutates
        self.is_closure = parent is not None
        self.par = _parents(node)
        self.inplace_names: set = set()
        self.closure_names: list = []  # nested functions translated (qualified)
        self.open_markers: dict = {}   # un-annotated empty list local -> marker of its declaration

    def root(self):
        r = self
        while r.parent is not None:
            r = r.parent
        return r

    # ---- snapshots: the shared state of the root translator is part of them; AST nodes are never copied
    def snapshot(self):
        r = self.root()
        return (super().snapshot(), list(self.pre), list(self.hoists), dict(self.closures),
                (list(r.aux), dict(r.counter), dict(r.type_fix), list(r.closure_names)))

    def restore(self, snap):
        base, pre, hoists, closures, (aux, counter, tf, cn) = snap
        super().restore(base)
        self.pre, self.hoists, self.closures = list(pre), list(hoists), dict(closures)
        r = self.root()
        r.aux[:] = aux
        r.counter = dict(counter)
        r.type_fix = dict(tf)
        r.closure_names[:] = cn

    # ---- fresh names
    def fresh(self, kind):
        root = self.root()
        root.counter[kind] += 1
        return root.counter[kind]

    def add_aux(self, text):
        self.root().aux.append(text)

    # ---- types
    def annot(self, node):
        if node is None:
            return None
        txt = ast.unparse(node)
        table = self.mod.cfg.get("annot", {})
        if txt in table:
            return table[txt]
        return super().annot(node)

    # ---- analysis: assignment counts as pyfun.py; in-place mutated names (alias discipline is checked where the name
    # is used, by its TYPE: the same Python name may be a str in one block and a list in another)
    def analyse(self):
        FuncTr.analyse(self)
        inplace = set()
        for n in ast.walk(self.node):
            if isinstance(n, ast.Call) and isinstance(n.func, ast.Attribute) and n.func.attr in INPLACE_METHODS \
                    and isinstance(n.func.value, ast.Name):
                inplace.add(n.func.value.id)
            if isinstance(n, ast.Nonlocal) or isinstance(n, ast.Global):
                self.note(n, "nonlocal / global declaration")
        self.inplace = inplace
        self.inplace_names = set(inplace)
        params = {a.arg for a in list(self.node.args.args) + list(self.node.args.kwonlyargs)}
        for v in sorted(inplace):
            if v in params:
                self.note(self.node, f"in-place mutation of the parameter `{v}` (visible to the caller)")
            self.mut.add(v)

    def fresh_list(self, e):
        return super().fresh_list(e)

    def check_list_use(self, n: ast.Name):
        """a read of an in-place mutated list must not create an alias (same contexts as pyfun_paths.analyse)"""
        v = n.id
        p = self.par.get(n)
        ok = False
        if isinstance(p, ast.Attribute):
            ok = True
        elif isinstance(p, ast.Return):
            ok = not self.is_closure or v not in [s for s, _ in self.cap_state]
        elif isinstance(p, (ast.If, ast.While, ast.IfExp)) and p.test is n:
            ok = True
        elif isinstance(p, (ast.BoolOp, ast.Compare)) or (isinstance(p, ast.UnaryOp) and isinstance(p.op, ast.Not)):
            ok = True
        elif isinstance(p, ast.Call) and n in p.args and (
                (isinstance(p.func, ast.Name) and p.func.id in ("len", "bool", "list", "tuple", "max", "min", "any", "all"))
                or (isinstance(p.func, ast.Attribute) and p.func.attr == "join")):
            ok = True
        elif isinstance(p, (ast.For, ast.comprehension)) and p.iter is n:
            body = p.body if isinstance(p, ast.For) else []
            ok = not any(isinstance(m, ast.Call) and isinstance(m.func, ast.Attribute) and m.func.attr in INPLACE_METHODS
                         and isinstance(m.func.value, ast.Name) and m.func.value.id == v
                         for s in body for m in ast.walk(s))
        elif isinstance(p, ast.Subscript) and p.value is n:
            ok = True
        if not ok:
            self.note(n, f"list `{v}` is mutated in place and used where an alias could be created ({type(p).__name__})")

    def name_load(self, e):
        n = e.id
        if n in self.vars and self.vars[n][0] == "list" and n in self.inplace_names and e in self.par:
            self.check_list_use(e)
        return super().name_load(e)

    # ---- hoisting
    def hoist(self, node, lines, assigns):
        """place `lines` before the statement being translated; `assigns` = locals they re-assign"""
        q = node
        while q in self.par:
            p = self.par[q]
            if isinstance(p, ast.stmt):
                break
            if isinstance(p, ast.BoolOp) and p.values[0] is not q:
                raise Unsupported("a call with an effect on a local (closure call / pop) in the tail of `and` / `or`")
            if isinstance(p, ast.IfExp) and p.test is not q:
                raise Unsupported("a call with an effect on a local (closure call / pop) in a branch of a conditional expression")
            if isinstance(p, (ast.Lambda, ast.GeneratorExp, ast.SetComp, ast.DictComp)):
                raise Unsupported("a call with an effect on a local (closure call / pop) inside a lambda / generator expression")
            if isinstance(p, ast.ListComp) and not getattr(p, "_omml_loop", False):
                raise Unsupported("a call with an effect on a local inside a comprehension that is not translated as a loop")
            if isinstance(p, ast.ListComp):
                break   # the comprehension's own loop body: ordering is checked for the comprehension node
            q = p
        self.pre += lines
        self.hoists.append((node, set(assigns)))
        self.eff = True

    def earlier_nodes(self, h, root):
        """expressions of the statement `root` that Python evaluates before the node `h` and that do not contain it"""
        out = []
        q = h
        while q is not root and q in self.par:
            p = self.par[q]
            for c in ast.iter_child_nodes(p):
                if c is q:
                    break
                if isinstance(c, ast.expr) and (isinstance(getattr(c, "ctx", None), ast.Load) or not hasattr(c, "ctx")
                                                or isinstance(p, ast.AugAssign)):
                    out.append(c)
            if isinstance(p, ast.Dict) or isinstance(p, ast.Call) and any(k.value is q for k in p.keywords):
                out += [c for c in ast.iter_child_nodes(p) if c is not q and isinstance(c, ast.expr)]
            q = p
        return out

    def check_hoist_order(self, st):
        for h, assigns in self.hoists:
            for c in self.earlier_nodes(h, st):
                if any(h2 is c or any(x is h2 for x in ast.walk(c)) for h2, _ in self.hoists):
                    continue        # itself hoisted (in evaluation order)
                for x in ast.walk(c):
                    if isinstance(x, ast.Name) and isinstance(x.ctx, ast.Load) and x.id in assigns:
                        self.note(x, f"`{x.id}` is read before a call that changes it, in the same statement "
                                     "(the hoisted call would be evaluated first)")
                snap = self.snapshot()
                self.pre, self.hoists = [], []
                code, _, _ = self.expr(c)
                raising = "←" in code or bool(self.pre)
                self.restore(snap)
                if raising:
                    self.note(c, "an operation that may raise is evaluated before a hoisted call (closure call / pop) "
                                 "of the same statement")

    def stmt(self, st, out, ind, in_loop, in_try):
        saved = (self.pre, self.hoists)
        self.pre, self.hoists = [], []
        tmp = []
        try:
            self._stmt(st, tmp, ind, in_loop, in_try)
            if self.hoists:
                self.check_hoist_order(st)
        except Unsupported as u:
            self.note(st, str(u))
            tmp.append(f"{ind}let _ := (default : Unit)  -- UNSUPPORTED: {str(u)[:80]}")
        out += [ind + l for l in self.pre]
        out += tmp
        self.pre, self.hoists = saved

    # ---- blocks: `if x is None: <terminal>` + rest  ->  match
    def none_guard(self, st):
        if isinstance(st, ast.If) and not st.orelse and self.terminal(st.body) and isinstance(st.test, ast.Compare) \
                and len(st.test.ops) == 1 and isinstance(st.test.ops[0], ast.Is) and isinstance(st.test.left, ast.Name) \
                and isinstance(st.test.comparators[0], ast.Constant) and st.test.comparators[0].value is None:
            x = st.test.left.id
            if x in self.vars and self.vars[x][0] == "opt" and x not in self.mut and x in self.declared:
                return x
        return None

    def block(self, stmts, ind, in_loop, in_try=False, keep=False):
        out = []
        self.narrow.append(set())
        before = set(self.declared)
        restore_types = []
        i = 0
        while i < len(stmts):
            st = stmts[i]
            x = self.none_guard(st)
            if x is not None and i + 1 < len(stmts):
                t = self.vars[x]
                out.append(f"{ind}match py_h_{x} : {ident(x)} with")
                out.append(f"{ind}| none =>")
                out += self.block(st.body, ind + "  ", in_loop, in_try)
                out.append(f"{ind}| some {ident(x)} =>")
                self.vars[x] = t[1]
                restore_types.append((x, t))
                out += self.block(stmts[i + 1:], ind + "  ", in_loop, in_try)
                break
            self.stmt(st, out, ind, in_loop, in_try)
            if isinstance(st, ast.If) and not st.orelse and self.terminal(st.body):
                self.narrow[-1] |= self.facts(st.test, False)
            i += 1
        self.narrow.pop()
        for x, t in restore_types:
            self.vars[x] = t
        if not keep:
            for n in self.declared - before:
                self.declared.discard(n)
                self.vars.pop(n, None)
                # a name bound in a block that never falls out of its end cannot be seen after the block
                if not self.terminal(stmts):
                    self.out_of_scope.add(n)
        if not out:
            out.append(f"{ind}pure ()")
        return out

    # ---- constant strings (for ElementPath arguments)
    def const_pieces(self, e):
        """-> [(text, lean code or None for a literal)] if `e` is a translation-time constant string"""
        if isinstance(e, ast.Constant) and isinstance(e.value, str):
            return [(e.value, None)]
        if isinstance(e, ast.Name) and e.id not in self.vars and e.id in self.mod.strconsts:
            return [(self.mod.strconsts[e.id][0], self.mod.strconsts[e.id][1])]
        if isinstance(e, ast.JoinedStr):
            out = []
            for v in e.values:
                if isinstance(v, ast.Constant) and isinstance(v.value, str):
                    out.append((v.value, None))
                elif isinstance(v, ast.FormattedValue) and v.conversion == -1 and v.format_spec is None:
                    p = self.const_pieces(v.value)
                    if p is None:
                        return None
                    out += p
                else:
                    return None
            return out
        if isinstance(e, ast.BinOp) and isinstance(e.op, ast.Add):
            a, b = self.const_pieces(e.left), self.const_pieces(e.right)
            return None if a is None or b is None else a + b
        return None

    def element_path(self, e):
        pieces = self.const_pieces(e)
        if pieces is None:
            raise Unsupported(f"ElementPath argument `{ast.unparse(e)}` is not a translation-time constant string")
        steps, cur, depth = [], [], 0
        for text, code in pieces:
            if code is not None:
                d = depth
                for ch in text:
                    if ch == "{": d += 1
                    elif ch == "}": d -= 1
                    elif ch == "/" and d == 0:
                        raise Unsupported("ElementPath separator inside a named constant")
                depth = d
                cur.append((text, code))
                continue
            buf = ""
            for ch in text:
                if ch == "{": depth += 1
                elif ch == "}": depth -= 1
                if ch == "/" and depth == 0:
                    if buf:
                        cur.append((buf, None))
                    steps.append(cur)
                    cur, buf = [], ""
                else:
                    buf += ch
            if buf:
                cur.append((buf, None))
        steps.append(cur)
        codes = []
        for s in steps:
            full = "".join(t for t, _ in s)
            m = STEP_RE.fullmatch(full)
            if not m or (m.group(1) or "") == "{*}":
                raise Unsupported(f"ElementPath `{ast.unparse(e)}`: step {full!r} is outside the subset `{{uri}}local`")
            codes.append("(" + " ++ ".join(c if c is not None else chars(t) for t, c in s) + ")")
        return f"({P}Path.mk {codes[0]} [{', '.join(codes[1:])}])"

    # ---- expressions
    def _expr(self, e):
        r = self._expr_o(e)
        if r is not None:
            return r
        return super()._expr(e)

    def const_table(self, e, hint):
        """a dict / tuple literal of string constants -> auxiliary definition"""
        if isinstance(e, ast.Dict):
            if not (e.keys and all(isinstance(k, ast.Constant) and isinstance(k.value, str) for k in e.keys)
                    and all(isinstance(v, ast.Constant) and isinstance(v.value, str) for v in e.values)):
                raise Unsupported("dict literal that is not made of string constants")
            if len({k.value for k in e.keys}) != len(e.keys):
                raise Unsupported("dict literal with a repeated key")
            body = lean_list(f"({chars(k.value)}, {chars(v.value)})" for k, v in zip(e.keys, e.values))
            ty, t = "List (S2T.Py.Str × S2T.Py.Str)", Dict(STR, STR)
            name = hint or f"dict_{self.fresh('dict')}"
        else:
            body = lean_list((chars(x.value) for x in e.elts), per_line=6)
            ty, t = "List S2T.Py.Str", Lst(STR)
            name = hint or f"tuple_{self.fresh('tuple')}"
        q = f"{self.name}.{name}"
        self.add_aux(f"/-- the literal `{name}` of `{self.name}` (line {e.lineno}) -/\ndef {q} : {ty} := {body}\n")
        return f"S2T.Gen.{self.mod.name}.{q}", t, False

    def _expr_o(self, e):
        if isinstance(e, ast.Dict):
            p = self.par.get(e)
            hint = None
            if isinstance(p, ast.Assign) and len(p.targets) == 1 and isinstance(p.targets[0], ast.Name) and p.value is e:
                hint = p.targets[0].id
            return self.const_table(e, hint)
        if isinstance(e, ast.BoolOp) and isinstance(e.op, ast.Or) and len(e.values) == 2:
            snap = self.snapshot()
            a, ta, ea = self.expr(e.values[0])
            b, tb, eb = self.expr(e.values[1])
            if ta[0] == "opt" and ta[1] == tb and tb in (STR, INT) and not eb:
                return f"({P}orOpt {a} {b})", tb, ea
            self.restore(snap)
            return None
        if isinstance(e, ast.BinOp) and isinstance(e.op, ast.Mult):
            snap = self.snapshot()
            a, ta, ea = self.expr(e.left)
            b, tb, eb = self.expr(e.right)
            if ta == STR and tb == INT:
                return f"({P}strRepeat {a} {b})", STR, ea or eb
            if ta == INT and tb == STR and not (ea and eb):
                return f"({P}strRepeat {b} {a})", STR, ea or eb
            self.restore(snap)
            return None
        if isinstance(e, ast.Subscript) and not isinstance(e.slice, ast.Slice):
            snap = self.snapshot()
            c, t, eff = self.expr(e.value)
            if t == CDICT:
                k, tk, ek = self.expr(e.slice)
                if tk != STR:
                    raise Unsupported(f"key of type {lt(tk)} in a dict with one-character keys")
                self.eff = True
                return f"(← {P}cdictGetItem {c} {k})", STR, True
            self.restore(snap)
            return None
        if isinstance(e, ast.ListComp):
            return self.list_comp(e)
        return None

    def list_comp(self, e):
        """a comprehension whose element calls a closure is a loop placed before the statement"""
        if not any(isinstance(n, ast.Call) and isinstance(n.func, ast.Name) and n.func.id in self.closures
                   and n.func.id not in self.vars for n in ast.walk(e.elt)):
            return None
        if len(e.generators) != 1 or e.generators[0].is_async or not isinstance(e.generators[0].target, ast.Name):
            raise Unsupported("comprehension shape (one `for` over one name only)")
        gen = e.generators[0]
        it, tit, _ = self.iterable(gen.iter)
        v = gen.target.id
        if v in self.vars:
            raise Unsupported("comprehension variable shadows a local")
        e._omml_loop = True
        outer_pre, outer_hoists = self.pre, self.hoists
        self.pre, self.hoists = [], []
        self.vars[v] = tit
        try:
            conds = []
            for c in gen.ifs:
                cc, _ = self.cond(c)
                if self.pre:
                    raise Unsupported("comprehension condition that calls a closure")
                conds.append(cc)
            body, tb, _ = self.expr(e.elt)
            inner_pre, inner_hoists = self.pre, self.hoists
        finally:
            del self.vars[v]
            self.pre, self.hoists = outer_pre, outer_hoists
        k = self.fresh("l")
        acc = f"py_l{k}"
        lines = [f"let mut {acc} : {lt(Lst(tb))} := []", f"for {ident(v)} in {it} do"]
        ind = "  "
        for cc in conds:
            lines.append(f"{ind}if {cc} then")
            ind += "  "
        lines += [ind + l for l in inner_pre]
        lines.append(f"{ind}{acc} := (S2T.Py.listAppend {acc} {body})")
        assigns = set()
        for _, a in inner_hoists:
            assigns |= a
        self.hoist(e, lines, assigns)
        return acc, Lst(tb), False

    # ---- conditions / comparisons
    def compare(self, e):
        if len(e.ops) == 1 and isinstance(e.ops[0], (ast.In, ast.NotIn)):
            op, rn = e.ops[0], e.comparators[0]
            neg = isinstance(op, ast.NotIn)
            if isinstance(rn, (ast.Tuple, ast.List)) and rn.elts and all(
                    isinstance(x, ast.Constant) and isinstance(x.value, str) for x in rn.elts):
                a, ta, ea = self.expr(e.left)
                if ta != STR:
                    raise Unsupported(f"`in` with {lt(ta)} in a tuple of strings")
                tab, _, _ = self.const_table(rn, None)
                c = f"(S2T.Py.setContains {tab} {a})"
                return (f"(!{c})" if neg else c), ea
            snap = self.snapshot()
            a, ta, ea = self.expr(e.left)
            b, tb, eb = self.expr(rn)
            if tb == CDICT and ta == STR:
                c = f"({P}cdictContains {b} {a})"
                return (f"(!{c})" if neg else c), ea or eb
            if ta == STR and tb == STR and not self.const_char(e.left):
                c = f"({P}strContains {b} {a})"
                return (f"(!{c})" if neg else c), ea or eb
            self.restore(snap)
        return super().compare(e)

    # ---- iteration
    def iterable(self, node):
        snap = self.snapshot()
        c, t, eff = self.expr(node)
        if t == XML:
            return f"({P}Xml.iter {c})", XML, eff
        if t == STR:
            return f"({P}strIter {c})", STR, eff
        self.restore(snap)
        return super().iterable(node)

    # ---- calls
    def call(self, e):
        f = e.func
        if isinstance(f, ast.Name) and f.id in self.closures and f.id not in self.vars:
            return self.closure_call(e, self.closures[f.id])
        return super().call(e)

    def closure_call(self, e, sig: ClosureSig):
        if e.keywords or len(e.args) != len(sig.params):
            raise Unsupported(f"call of the closure `{e.func.id}` with keywords / a different number of arguments")
        args = []
        for a, (pn, pt) in zip(e.args, sig.params):
            c, t, _ = self.expr(a)
            args.append(self.coerce(c, t, pt, e))
        for n, t in sig.ro + sig.state:
            if n not in self.vars or self.vars[n] != t:
                raise Unsupported(f"closure `{e.func.id}` captures `{n}`, which is not in scope at this call")
        k = self.fresh("c")
        tmp = f"py_c{k}"
        head = f"({sig.lean} env)" if sig.env else sig.lean
        if sig.env:
            self.env = True
        allargs = args + [ident(n) for n, _ in sig.ro] + [ident(n) for n, _ in sig.state]
        lines = [f"let {tmp} ← " + " ".join([head] + [a if a.startswith("(") or " " not in a else f"({a})" for a in allargs])]
        n = 1 + len(sig.state)
        for i, (s, _) in enumerate(sig.state):
            lines.append(f"{ident(s)} := {tmp}{proj(i + 1, n)}")
        self.hoist(e, lines, [s for s, _ in sig.state])
        return (f"{tmp}{proj(0, n)}" if n > 1 else tmp), sig.ret, False

    def method_call(self, e):
        r = self._method_o(e)
        if r is not None:
            return r
        return super().method_call(e)

    def _method_o(self, e):
        f = e.func
        m = f.attr
        if m in ("find", "findall", "get", "strip", "partition", "pop"):
            snap = self.snapshot()
            c, t, eff = self.expr(f.value)
            if t == XML and m in ("find", "findall") and len(e.args) == 1 and not e.keywords:
                path = self.element_path(e.args[0])
                return (f"({P}Xml.{m} {c} {path})", Opt(XML) if m == "find" else Lst(XML), eff)
            if t == XML and m == "get" and not e.keywords and len(e.args) in (1, 2):
                k, tk, ek = self.expr(e.args[0])
                if tk != STR:
                    raise Unsupported(f"attribute name of type {lt(tk)}")
                if len(e.args) == 1:
                    return f"({P}Xml.get? {c} {k})", Opt(STR), eff or ek
                d, td, ed = self.expr(e.args[1])
                if td == STR:
                    return f"({P}Xml.getD {c} {k} {d})", STR, eff or ek or ed
                raise Unsupported(f"Element.get with a default of type {lt(td)}")
            if t == STR and m == "strip" and not e.args and not e.keywords:
                sp = self.mod.cfg.get("isspace")
                if not sp:
                    raise Unsupported("str.strip(): the module names no table of the str.isspace() code points")
                return f"({P}strip {sp} {c})", STR, eff
            if t == STR and m == "partition" and len(e.args) == 1 and not e.keywords:
                s, ts, es = self.expr(e.args[0])
                if ts == STR:
                    self.eff = True
                    return f"(← {P}partition {c} {s})", Tup(STR, STR, STR), True
            if t[0] == "list" and m == "pop" and not e.args and not e.keywords and isinstance(f.value, ast.Name) \
                    and f.value.id in self.declared and f.value.id in self.mut and t[1] != UNK:
                v = f.value.id
                k = self.fresh("p")
                tmp = f"py_p{k}"
                self.hoist(e, [f"let {tmp} ← S2T.Py.listPop {ident(v)}", f"{ident(v)} := {tmp}.1"], [v])
                return f"{tmp}.2", t[1], False
            self.restore(snap)
        return None

    # ---- statements
    def assign_to(self, target, code, t, node, out, ind, monadic_rhs=False):
        if isinstance(target, ast.Name) and t[0] == "list" and target.id in self.inplace_names \
                and isinstance(node, (ast.Assign, ast.AnnAssign)) and node.value is not None \
                and not self.fresh_list(node.value):
            self.note(node, f"list `{target.id}` is mutated in place but bound to a value that may be shared "
                            f"({ast.unparse(node.value)[:40]})")
        if isinstance(target, ast.Name) and t == Lst(UNK) and target.id not in self.declared and not monadic_rhs:
            n = target.id
            marker = f"⟦T{self.fresh('ty')}⟧"
            self.vars[n] = t
            self.declared.add(n)
            self.root().type_fix[marker] = None
            self.open_markers[n] = marker
            kw = "let mut" if n in self.mut else "let"
            out.append(f"{ind}{kw} {ident(n)} : {marker} := {code}")
            return
        super().assign_to(target, code, t, node, out, ind, monadic_rhs)

    def _stmt(self, st, out, ind, in_loop, in_try):
        if isinstance(st, ast.FunctionDef):
            return self.closure_def(st)
        if isinstance(st, ast.While):
            return self.while_stmt(st, out, ind, in_try)
        if isinstance(st, ast.For):
            return self.for_stmt(st, out, ind, in_try)
        if isinstance(st, ast.Return) and self.is_closure:
            if in_try:
                raise Unsupported("return inside try/except")
            if st.value is None:
                c, t = "()", NONE
            else:
                c, t, _ = self.expr(st.value)
            c = self.coerce(c, t, self.ret, st)
            out.append(f"{ind}return ({', '.join([c] + [ident(s) for s, _ in self.cap_state])})")
            return
        if isinstance(st, ast.If) and len(st.orelse) == 1 and isinstance(st.orelse[0], ast.If):
            # `elif`: as `else` + nested `if` (statements hoisted out of the nested test must stay inside the `else`)
            c, _ = self.cond(st.test)
            out.append(f"{ind}if {c} then")
            self.narrow.append(self.facts(st.test, True))
            out += self.block(st.body, ind + "  ", in_loop, in_try)
            self.narrow.pop()
            out.append(f"{ind}else")
            self.narrow.append(self.facts(st.test, False))
            out += self.block(st.orelse, ind + "  ", in_loop, in_try)
            self.narrow.pop()
            return
        # xs.append(e) on a list whose element type is not known yet
        if isinstance(st, ast.Expr) and isinstance(st.value, ast.Call) and isinstance(st.value.func, ast.Attribute) \
                and st.value.func.attr == "append" and isinstance(st.value.func.value, ast.Name) \
                and self.vars.get(st.value.func.value.id) == Lst(UNK) and len(st.value.args) == 1 \
                and not st.value.keywords:
            v = st.value.func.value.id
            c, t, _ = self.expr(st.value.args[0])
            if t == UNK:
                raise Unsupported("append of a value of unknown type")
            self.vars[v] = Lst(t)
            marker = self.open_markers.pop(v)
            self.root().type_fix[marker] = lt(Lst(t))
            out.append(f"{ind}{ident(v)} := (S2T.Py.listAppend {ident(v)} {c})")
            return
        super()._stmt(st, out, ind, in_loop, in_try)

    # ---- for: as pyfun.py, but the loop variable goes out of scope with the loop, and a later read of its NAME is
    # accepted when a later `for` / comprehension binds that name again
    def rebound_between(self, use, loop):
        for n in ast.walk(self.node):
            if isinstance(n, (ast.For, ast.ListComp, ast.GeneratorExp)) and n is not loop \
                    and n.lineno > loop.end_lineno and n.lineno <= use.lineno <= n.end_lineno:
                tg = n.target if isinstance(n, ast.For) else n.generators[0].target
                if use.id in self._targets(tg):
                    return True
        return False

    def for_stmt(self, st, out, ind, in_try):
        if st.orelse:
            raise Unsupported("for … else")
        it, tel, _ = self.iterable(st.iter)
        names = self._targets(st.target)
        if any(n in self.declared for n in names if n != "_"):
            raise Unsupported("loop variable re-uses an assigned local")
        saved = {n: self.vars.get(n) for n in names}
        if isinstance(st.target, ast.Name):
            pat = ident(st.target.id)
            self.vars[st.target.id] = tel
        elif isinstance(st.target, ast.Tuple) and tel[0] == "tuple" and len(tel[1]) == len(st.target.elts) \
                and all(isinstance(x, ast.Name) for x in st.target.elts):
            for x, tt in zip(st.target.elts, tel[1]):
                self.vars[x.id] = tt
            pat = "(" + ", ".join("_" if x.id == "_" else ident(x.id) for x in st.target.elts) + ")"
        else:
            raise Unsupported("loop target shape")
        for other in ast.walk(self.node):
            if isinstance(other, ast.Name) and other.id in names and isinstance(other.ctx, ast.Load) \
                    and other.lineno > st.end_lineno and not self.rebound_between(other, st):
                raise Unsupported("loop variable is read after the loop")
        out.append(f"{ind}for {pat} in {it} do")
        out += self.block(st.body, ind + "  ", True, in_try)
        for n in names:
            if saved[n] is None:
                self.vars.pop(n, None)
            else:
                self.vars[n] = saved[n]

    # ---- nested function = closure
    def closure_def(self, node: ast.FunctionDef):
        if node.decorator_list:
            raise Unsupported("decorated nested function")
        if node.name in self.vars or node.name in self.closures:
            raise Unsupported(f"nested function `{node.name}` re-uses a name")
        own = {a.arg for a in list(node.args.args) + list(node.args.kwonlyargs)}
        stores, loads = set(), []
        for n in ast.walk(node):
            if isinstance(n, ast.Name):
                if isinstance(n.ctx, ast.Store):
                    stores.add(n.id)
                elif n.id not in loads:
                    loads.append(n.id)
            if isinstance(n, (ast.Nonlocal, ast.Global)):
                raise Unsupported("nonlocal / global in a nested function")
            if isinstance(n, (ast.FunctionDef, ast.Lambda, ast.ClassDef)) and n is not node:
                raise Unsupported("function / class nested in a nested function")
        captured = [n for n in self.vars if n in loads and n not in own and n not in stores and n in self.declared]
        for n in stores:
            if n in self.vars and n not in own:
                raise Unsupported(f"nested function `{node.name}` assigns `{n}`, a local of the enclosing function")
        # a local of the enclosing function that is bound only after this `def` would be seen by the closure in Python
        later = {x.id for s in self.node.body for x in ast.walk(s) if isinstance(x, ast.Name) and isinstance(x.ctx, ast.Store)
                 and x.lineno > node.end_lineno}
        for n in loads:
            if n in later and n not in self.vars and n not in own and n not in stores:
                raise Unsupported(f"nested function `{node.name}` reads `{n}`, which the enclosing function binds later")
        state = [(n, self.vars[n]) for n in captured if n in self.mut]
        ro = [(n, self.vars[n]) for n in captured if n not in self.mut]
        for n, t in state:
            if t[0] != "list" or n not in self.inplace_names:
                raise Unsupported(f"nested function `{node.name}` captures `{n}`, which is re-assigned")
        recursive = any(isinstance(n, ast.Call) and isinstance(n.func, ast.Name) and n.func.id == node.name
                        for n in ast.walk(node))
        child = OmmlFuncTr(self.mod, node, {}, qualname=f"{self.name}.{node.name}", parent=self)
        text, sig = child.translate_closure(state, ro, recursive)
        self.add_aux(text)
        self.closures[node.name] = sig
        self.root().closure_names.append(f"{self.name}.{node.name}")
        if child.eff:
            self.eff = True

    def translate_closure(self, state, ro, recursive):
        node = self.node
        a = node.args
        if a.vararg or a.kwarg or a.posonlyargs or a.kwonlyargs or a.defaults:
            self.note(node, "nested function with *args / **kwargs / keyword-only / default parameters")
        params = []
        for arg in a.args:
            t = self.annot(arg.annotation)
            if t is None:
                self.note(arg, f"parameter `{arg.arg}` has no mapped annotation ({ast.unparse(arg.annotation) if arg.annotation else 'none'})")
                t = UNK
            params.append((arg.arg, t))
            self.vars[arg.arg] = t
            self.declared.add(arg.arg)
        for n, t in ro + state:
            self.vars[n] = t
            self.declared.add(n)
        self.cap_state, self.cap_ro = list(state), list(ro)
        self.analyse()
        for n, _ in state:
            self.mut.add(n)
            self.inplace_names.add(n)
        for p, _ in params:
            if p in self.mut:
                self.note(node, f"assignment to the parameter `{p}` of a nested function")
        self.ret = self.annot(node.returns)
        if self.ret is None:
            self.note(node, f"nested function without a mapped return annotation ({ast.unparse(node.returns) if node.returns else 'none'})")
            self.ret = UNK
        measure = None
        if recursive:
            cands = [p for p, t in params if t in (XML, Opt(XML))]
            if len(cands) != 1:
                self.note(node, "recursive nested function without exactly one Element parameter to recurse on")
            else:
                measure = cands[0]
        lean = f"{self.name}"
        sig = ClosureSig(lean, params, self.ret, state, ro, False, recursive)
        self.closures[node.name] = sig
        self.eff = True
        pre = [f"  let mut {ident(n)} := {ident(n)}" for n, _ in state]
        body = pre + self.block(node.body, "  ", False, keep=True)
        if not self.terminal(node.body):
            if self.ret == NONE:
                body.append(f"  return ({', '.join(['()'] + [ident(s) for s, _ in state])})")
            else:
                self.note(node, "control can reach the end of a nested function whose result type is not None")
        if self.env:
            self.note(node, "nested function that needs the environment")
        ps = "".join(f" ({ident(p)} : {lt(t)})" for p, t in params + ro + state)
        rty = lt(Tup(self.ret, *[t for _, t in state])) if state else lt(self.ret)
        L = [f"/-- nested function `{node.name}` of `{self.parent.name}` ({self.mod.cfg['src']}): a closure over "
             f"{[n for n, _ in ro + state]}; the in-place mutated {[n for n, _ in state]} are passed in and returned"
             + (f"; recursive: well-founded recursion on the size of `{measure}`" if measure else "")
             + "".join("\n    " + r for r in self.remarks) + " -/"]
        L.append(f"def {self.name}{ps} : S2T.Py.M {rty} := do")
        L += body
        if measure:
            L.append(f"termination_by sizeOf {ident(measure)}")
            L.append("decreasing_by all_goals py_omml_decreasing")
        return "\n".join(L) + "\n", sig

    def finish(self, text):
        for marker, ty in self.type_fix.items():
            if marker in text:
                if ty is None:
                    self.note(self.node, "an un-annotated empty list whose element type is never fixed by an append")
                    ty = "(List Unit)"
                text = text.replace(marker, ty)
        return text

    # ---- while L and REST: … L.pop() …
    def while_stmt(self, st, out, ind, in_try):
        if st.orelse:
            raise Unsupported("while … else")
        for n in ast.walk(st):
            if isinstance(n, (ast.Break, ast.Continue, ast.Return, ast.Yield, ast.YieldFrom, ast.While, ast.Try)) and n is not st:
                raise Unsupported(f"{type(n).__name__} inside a while loop")
        test = st.test
        if isinstance(test, ast.Name):
            L, rest = test.id, []
        elif isinstance(test, ast.BoolOp) and isinstance(test.op, ast.And) and isinstance(test.values[0], ast.Name):
            L, rest = test.values[0].id, list(test.values[1:])
        else:
            raise Unsupported("while loop whose test does not start with the truthiness of a list local")
        if L not in self.declared or self.vars[L][0] != "list" or L not in self.mut:
            raise Unsupported(f"while loop: `{L}` is not a mutable list local")
        pops, other = [], []
        for n in ast.walk(st):
            if isinstance(n, ast.Call) and isinstance(n.func, ast.Attribute) and isinstance(n.func.value, ast.Name) \
                    and n.func.value.id == L:
                (pops if n.func.attr == "pop" and not n.args and not n.keywords else other).append(n)
            if isinstance(n, ast.Name) and n.id == L and isinstance(n.ctx, ast.Store):
                other.append(n)
            if isinstance(n, ast.Call) and isinstance(n.func, ast.Name) and n.func.id in self.closures \
                    and n.func.id not in self.vars and L in [s for s, _ in self.closures[n.func.id].state]:
                other.append(n)
            if isinstance(n, ast.Subscript) and isinstance(n.ctx, (ast.Store, ast.Del)) and isinstance(n.value, ast.Name) \
                    and n.value.id == L:
                other.append(n)
        other = [n for n in other if not (isinstance(n, ast.Call) and isinstance(n.func, ast.Attribute)
                                          and n.func.attr in ("copy", "count", "index"))]
        if len(pops) != 1 or other:
            raise Unsupported(f"while loop without a recognised variant (exactly one `{L}.pop()` and no other change of "
                              f"`{L}` in the body)")
        # the pop stands in a top-level statement of the body and is evaluated unconditionally
        q = pops[0]
        while not isinstance(self.par[q], ast.stmt):
            p = self.par[q]
            if isinstance(p, ast.BoolOp) and p.values[0] is not q or isinstance(p, ast.IfExp) and p.test is not q \
                    or isinstance(p, (ast.Lambda, ast.ListComp, ast.GeneratorExp, ast.SetComp, ast.DictComp)):
                raise Unsupported(f"while loop: `{L}.pop()` is evaluated conditionally")
            q = p
        if self.par[q] not in st.body or isinstance(self.par[q], (ast.If, ast.For, ast.With)):
            raise Unsupported(f"while loop: `{L}.pop()` is not in a top-level simple statement of the body")
        self.whiles += 1
        fname = f"{self.name}.while_{self.whiles}"
        # REST of the test (may raise: evaluated only when L is truthy)
        saved = (self.pre, self.hoists)
        self.pre, self.hoists = [], []
        rest_code = None
        if rest:
            r = rest[0] if len(rest) == 1 else ast.copy_location(ast.BoolOp(op=ast.And(), values=rest), test)
            if len(rest) > 1:
                ast.fix_missing_locations(r)
                for ch in ast.walk(r):
                    for c2 in ast.iter_child_nodes(ch):
                        self.par.setdefault(c2, ch)
            rest_code, _ = self.cond(r)
        if self.pre:
            self.pre, self.hoists = saved
            raise Unsupported("while test that calls a closure / pops a list")
        self.pre, self.hoists = saved
        stores = []
        for n in ast.walk(st):
            if isinstance(n, ast.Name) and isinstance(n.ctx, ast.Store) and n.id not in stores:
                stores.append(n.id)
            if isinstance(n, ast.Call) and isinstance(n.func, ast.Attribute) and n.func.attr in INPLACE_METHODS \
                    and isinstance(n.func.value, ast.Name) and n.func.value.id not in stores:
                stores.append(n.func.value.id)
        carried = [n for n in self.vars if n in stores and n in self.declared]
        if L not in carried:
            raise Unsupported("while loop: internal error (variant not carried)")
        for n in carried:
            if n not in self.mut:
                raise Unsupported(f"while loop assigns `{n}`, which is not declared mutable")
        env0 = self.env
        body = self.block(st.body, "        ", False, in_try=False)
        if self.env and not env0:
            raise Unsupported("while body that needs the environment")
        reads = []
        for n in ast.walk(st):
            if isinstance(n, ast.Name) and isinstance(n.ctx, ast.Load) and n.id in self.declared \
                    and n.id not in carried and n.id not in reads:
                reads.append(n.id)
        others = [c for c in carried if c != L]
        tup = lambda ns: ("(" + ", ".join(ident(n) for n in ns) + ")") if len(ns) != 1 else ident(ns[0])
        tty = lambda ns: lt(Tup(*[self.vars[n] for n in ns])) if len(ns) != 1 else lt(self.vars[ns[0]])
        ps = "".join(f" ({ident(n)} : {lt(self.vars[n])})" for n in reads + carried)
        A = [f"/-- `while {ast.unparse(st.test)}:` number {self.whiles} of `{self.name}`: read-only locals {reads}, "
             f"loop-carried {carried}; well-founded recursion on the length of `{L}` (its only change in the body is one "
             f"unconditional `{L}.pop()`) -/"]
        A.append(f"def {fname}{ps} : S2T.Py.M {tty(carried)} :=")
        A.append(f"  if py_h{ident(L)} : S2T.Py.truthy {ident(L)} = true then do")
        inner_ind = "    "
        if rest_code is not None:
            A.append(f"    if {rest_code} then")
            inner_ind = "      "
        if others:
            A.append(f"{inner_ind}let {tup(others)} : {tty(others)} ← (do")
        else:
            A.append(f"{inner_ind}let _ ← (do")
        for n in carried:
            A.append(f"        let mut {ident(n)} := {ident(n)}")
        A += body
        A.append(f"        pure {tup(others) if others else '()'} : S2T.Py.M {tty(others) if others else 'Unit'})")
        rec_args = " ".join(ident(n) if n != L else f"({ident(n)}.dropLast)" for n in reads + carried)
        A.append(f"{inner_ind}{fname} {rec_args}")
        if rest_code is not None:
            A.append(f"    else pure {tup(carried)}")
        A.append(f"  else pure {tup(carried)}")
        A.append(f"termination_by {ident(L)}.length")
        A.append(f"decreasing_by all_goals py_pop_decreasing py_h{ident(L)}")
        self.add_aux("\n".join(A) + "\n")
        self.eff = True
        call = f"{fname} " + " ".join(ident(n) for n in reads + carried)
        out.append(f"{ind}{tup(carried)} := (← {call})")

    # ---- the function
    def translate(self):
        node = self.node
        for d in node.decorator_list:
            self.note(node, f"decorator {ast.unparse(d)}")
        a = node.args
        if a.vararg or a.kwarg or a.posonlyargs:
            self.note(node, "*args / **kwargs / positional-only parameters")
        params, defaults = [], {}
        allargs = list(a.args) + list(a.kwonlyargs)
        dvals = [None] * (len(a.args) - len(a.defaults)) + list(a.defaults) + list(a.kw_defaults)
        for arg, dv in zip(allargs, dvals):
            t = self.opts.get("types", {}).get(arg.arg) or self.annot(arg.annotation)
            if t is None:
                self.note(arg, f"parameter `{arg.arg}` has no mapped annotation ({ast.unparse(arg.annotation) if arg.annotation else 'none'})")
                t = UNK
            params.append((arg.arg, t))
            self.vars[arg.arg] = t
            self.declared.add(arg.arg)
            if dv is not None:
                self.note(dv, "default parameter value")
        self.analyse()
        for p, _ in params:
            if p in self.mut:
                self.note(node, f"assignment to the parameter `{p}`")
        self.ret = self.opts["ret"] if "ret" in self.opts else self.annot(node.returns)
        if self.ret is None and node.returns is not None:
            self.note(node, f"return annotation {ast.unparse(node.returns)} is not mapped")
        body = self.block(node.body, "  ", False, keep=True)
        if self.ret is None:
            self.ret = NONE
        if not self.terminal(node.body):
            if self.ret == NONE:
                pass
            elif self.ret[0] == "opt":
                body.append("  return none")
            else:
                self.note(node, "control can reach the end of a function whose result type is not None-able")
        sig = Sig(f"S2T.Gen.{self.mod.name}.{ident(self.name)}", params, self.ret, self.eff, self.env, defaults)
        ps = "".join(f" ({ident(p)} : {lt(t)})" for p, t in params)
        envp = f" (env : {self.mod.cfg.get('envtype', 'S2T.Py.Env')})" if self.env else ""
        rt = lt(self.ret)
        L = list(self.aux)
        L.append(f"/-- `{self.name}` of {self.mod.cfg['src']}" + "".join("\n    " + r for r in self.remarks) + " -/")
        if self.eff:
            L.append(f"def {ident(self.name)}{envp}{ps} : S2T.Py.M {rt} := do")
        else:
            L.append(f"def {ident(self.name)}{envp}{ps} : {rt} := Id.run do")
        L += body
        return self.finish("\n".join(L) + "\n"), sig


# ----------------------------------------------------------------------------- the module
class ModTrO(ModTrX):
    def __init__(self, name):
        super().__init__(name)
        self.strconsts: dict = {}    # python name -> (runtime value, lean name)
        self.closure_names: list = []

    def run(self):
        import importlib
        cfg = self.cfg
        tree = parse(cfg["src"])
        fdefs = {n.name: n for n in tree.body if isinstance(n, ast.FunctionDef)}
        consts_text = []
        for cn in cfg.get("strconsts", []):
            v = getattr(self.pymod, cn, None)
            lit = ast_literal_assign(cfg["src"], cn)
            if not isinstance(v, str):
                self.notes.append(f"{cfg['src']}: `{cn}` is not a module-level str at run time")
                continue
            if lit != v:
                self.notes.append(f"{cfg['src']}: `{cn}`: runtime value differs from the source literal")
            nstores = sum(1 for n in ast.walk(tree) if isinstance(n, ast.Name) and n.id == cn and isinstance(n.ctx, ast.Store))
            if nstores != 1:
                self.notes.append(f"{cfg['src']}: `{cn}` is assigned {nstores} times")
            self.strconsts[cn] = (v, f"S2T.Gen.{self.name}.{cn}")
            cfg["consts"][cn] = (f"S2T.Gen.{self.name}.{cn}", STR)
            consts_text.append(f"/-- module constant `{cn}` -/\ndef {cn} : S2T.Py.Str := {chars(v)}\n")
        for an, objname in cfg.get("annot_objects", {}).items():
            modname, attr = objname.rsplit(".", 1)
            obj = self.pymod
            for part in an.split("."):
                obj = getattr(obj, part, None)
            if obj is None or obj is not getattr(importlib.import_module(modname), attr, object()):
                self.notes.append(f"{cfg['src']}: `{an}` is not {objname} at run time")
        # module tables that stand for a module-level name: the name must be bound exactly once
        for cn in cfg["consts"]:
            if cn in cfg.get("strconsts", []):
                continue
            nstores = sum(1 for n in ast.walk(tree) if isinstance(n, ast.Name) and n.id == cn and isinstance(n.ctx, ast.Store))
            if nstores != 1:
                self.notes.append(f"{cfg['src']}: module table `{cn}` is assigned {nstores} times")
        defs, own = [], []
        for fname, opts in cfg["funcs"]:
            if fname not in fdefs:
                self.notes.append(f"{cfg['src']}: function `{fname}` not found")
                continue
            obj = self._runtime(fname)
            if getattr(getattr(obj, "__code__", None), "co_firstlineno", None) not in (
                    fdefs[fname].lineno, *(d.lineno for d in fdefs[fname].decorator_list)):
                self.notes.append(f"{cfg['src']}: runtime `{fname}` is not the function defined in the source text")
            ft = OmmlFuncTr(self, fdefs[fname], opts, qualname=fname)
            text, sig = ft.translate()
            self.sigs[fname] = sig
            own.append(fname)
            self.closure_names += ft.closure_names
            defs.append(text)
        self.notes = list(dict.fromkeys(self.notes))
        L = [HEADER.format(src=cfg["src"])]
        L.append("import S2T.Py.Prelude")
        for i in cfg["imports"]:
            L.append(f"import {i}")
        L.append("set_option linter.unusedVariables false")
        L.append(f"namespace S2T.Gen.{self.name}")
        L.append("open S2T.Py.Omml\n")
        for cn, mro in sorted(self.excs.items()):
            L.append(f"/-- `raise {cn}(…)` at the `site`-th raise statement of `func` (message dropped) -/")
            L.append(f"def exc_{cn} (func : String) (site : Nat) : S2T.Py.Exc :=\n  ⟨{lean_str(cn)}, ["
                     + ", ".join(lean_str(m) for m in mro) + "], func, site⟩\n")
        L += consts_text
        L += defs
        L.append("/-- names of the translated functions, source order of the whitelist -/")
        L.append("def translated : List String := " + lean_list((lean_str(f) for f in own), per_line=4) + "\n")
        L.append("/-- nested functions translated as closures (state passing) -/")
        L.append("def closures : List String := " + lean_list((lean_str(f) for f in self.closure_names), per_line=4) + "\n")
        L.append("/-- constructs the translator did not understand (must be empty) -/")
        L.append("def notes : List String := " + lean_list(lean_str(n) for n in self.notes) + "\n")
        L.append(f"end S2T.Gen.{self.name}\n")
        return "\n".join(L)


def translate_module(name):
    if name not in OMODULES:
        from gen import pyfun_paths
        return pyfun_paths.translate_module(name)
    if name not in pyfun._DONE:
        m = ModTrO(name)
        text = m.run()
        pyfun._DONE[name] = {"text": text, "sigs": m.sigs, "notes": m.notes}
    return pyfun._DONE[name]


def _mk(name):
    def gen():
        return translate_module(name)["text"]
    gen.__name__ = "gen_" + name
    return gen


for _name in OMODULES:
    generator(_name)(_mk(_name))
