"""C02 (part 'odf'): constants behind the ODF / RTF / PPT / XLS text walkers -> S2T/Gen/C02Odf.lean

* Python's whitespace set (str.isspace, cross-checked with strip()/split());
* per OpenDocument extractor module: the tag / attribute names `_get_text_recursive` hands to `element_text`, the
  skip-tag set, and the tags the full-text walkers test (runtime value of the module constant, cross-checked with the
  value obtained by evaluating the assignment's AST against the module's literal `NS` dict);
* RTF: `_RtfParser.SKIP_DESTINATIONS`, `_RtfParser.SPECIAL_CHARS` (runtime, cross-checked with the AST literals);
* PPT: `_CLEAN_TRANS` (runtime translation table; the AST dict is re-evaluated and compared), `_PLACEHOLDER_PREFIXES`.
"""
import ast

from translate import HEADER, chars, fresh_import, generator, lean_list, lean_str, nat_list, parse

OO = "sharepoint2text/parsing/extractors/open_office/"
RTF = "sharepoint2text/parsing/extractors/ms_legacy/rtf_extractor.py"
PPT = "sharepoint2text/parsing/extractors/ms_legacy/ppt_extractor.py"


def _module_assigns(tree):
    out = {}
    for n in tree.body:
        if isinstance(n, ast.Assign) and len(n.targets) == 1 and isinstance(n.targets[0], ast.Name):
            out[n.targets[0].id] = n.value
        elif isinstance(n, ast.AnnAssign) and isinstance(n.target, ast.Name) and n.value is not None:
            out[n.target.id] = n.value
    return out


def _ast_value(assigns, name, env):
    """evaluate the module-level assignment `name = <expr>` against already evaluated names (no builtins)"""
    if name not in assigns:
        return None
    code = compile(ast.Expression(assigns[name]), "<gen>", "eval")
    return eval(code, {"__builtins__": {"chr": chr, "range": range, "str": str, "frozenset": frozenset, "set": set}}, dict(env))


class _Consts:
    def __init__(self, relpath, modname, notes):
        self.mod = fresh_import(modname)
        self.assigns = _module_assigns(parse(relpath))
        self.notes = notes
        self.rel = relpath
        self.env = {}
        ns = _ast_value(self.assigns, "NS", {})
        if ns != getattr(self.mod, "NS", None):
            notes.append(f"{relpath}: NS runtime value differs from the source literal")
        self.env["NS"] = ns

    def get(self, name, default=None):
        if not hasattr(self.mod, name):
            if default is None:
                raise KeyError(f"{self.rel}: no constant {name}")
            return default
        val = getattr(self.mod, name)
        try:
            av = _ast_value(self.assigns, name, self.env)
        except Exception as e:  # depends on other names: evaluate those first
            av = None
            try:
                env = dict(self.env)
                for k in self.assigns:
                    if k != name and hasattr(self.mod, k) and isinstance(getattr(self.mod, k), (str, set, frozenset)):
                        env[k] = getattr(self.mod, k)
                av = _ast_value(self.assigns, name, env)
            except Exception as e2:
                self.notes.append(f"{self.rel}: {name} not evaluable from the AST: {e2!r}")
        if av is not None and av != val:
            self.notes.append(f"{self.rel}: {name} runtime value differs from the source expression")
        return val


def _fmt(c: _Consts) -> str:
    skip = sorted(c.get("_TEXT_SKIP_TAGS"))
    return ("{ space := (%s), tab := (%s), lb := (%s), attrC := (%s), skip := %s }" % (
        chars(c.get("_TEXT_SPACE_TAG")), chars(c.get("_TEXT_TAB_TAG")), chars(c.get("_TEXT_LINE_BREAK_TAG")),
        chars(c.get("_ATTR_TEXT_C")), "[" + ", ".join(chars(s) for s in skip) + "]"))


@generator("C02Odf")
def gen_c02_odf() -> str:
    notes = []
    ws = [c for c in range(0x110000) if chr(c).isspace()]
    ws2 = [c for c in range(0x110000) if not (0xD800 <= c <= 0xDFFF) and ("a" + chr(c)).strip() == "a" and (chr(c) + "a").strip() == "a"]
    ws3 = [c for c in range(0x110000) if not (0xD800 <= c <= 0xDFFF) and ("a" + chr(c) + "b").split() == ["a", "b"]]
    if ws != ws2 or ws != ws3:
        notes.append("str.isspace / strip / split disagree on the whitespace set")
    odt = _Consts(OO + "odt_extractor.py", "sharepoint2text.parsing.extractors.open_office.odt_extractor", notes)
    odp = _Consts(OO + "odp_extractor.py", "sharepoint2text.parsing.extractors.open_office.odp_extractor", notes)
    ods = _Consts(OO + "ods_extractor.py", "sharepoint2text.parsing.extractors.open_office.ods_extractor", notes)
    odg = _Consts(OO + "odg_extractor.py", "sharepoint2text.parsing.extractors.open_office.odg_extractor", notes)
    odf = _Consts(OO + "odf_extractor.py", "sharepoint2text.parsing.extractors.open_office.odf_extractor", notes)

    def ns(c, prefix, local):
        return "{%s}%s" % (c.mod.NS[prefix], local)

    fields = [
        ("ws", nat_list(ws)),
        ("odt", _fmt(odt)), ("odp", _fmt(odp)), ("ods", _fmt(ods)), ("odg", _fmt(odg)), ("odf", _fmt(odf)),
        ("odtP", chars(odt.get("_TEXT_P_TAG"))), ("odtH", chars(odt.get("_TEXT_H_TAG"))),
        ("odtTracked", chars(odt.get("_TEXT_TRACKED_CHANGES_TAG", ""))),
        ("odtTable", chars(odt.get("_TABLE_TABLE_TAG"))), ("odtRow", chars(odt.get("_TABLE_ROW_TAG"))),
        ("odtCell", chars(odt.get("_TABLE_CELL_TAG"))), ("odtList", chars(odt.get("_TEXT_LIST_TAG"))),
        ("odtItem", chars(odt.get("_TEXT_LIST_ITEM_TAG"))),
        ("odgP", chars(odg.get("_TEXT_P_TAG"))), ("odgH", chars(odg.get("_TEXT_H_TAG"))),
        ("odfP", chars(odf.get("_TEXT_P_TAG"))), ("odfH", chars(odf.get("_TEXT_H_TAG"))),
        ("odfMathAnnotation", chars(odf.get("_MATH_ANNOTATION_TAG"))),
        ("odfMathNs", chars("{%s}" % odf.mod.NS["math"])),
        ("odpP", chars(odp.get("_TEXT_P_TAG"))), ("odpFrame", chars(odp.get("_DRAW_FRAME_TAG"))),
        ("odpTextBox", chars(odp.get("_DRAW_TEXT_BOX_TAG"))), ("odpStyleName", chars(odp.get("_ATTR_TEXT_STYLE_NAME"))),
        ("odpSvgX", chars(odp.get("_ATTR_SVG_X"))), ("odpSvgY", chars(odp.get("_ATTR_SVG_Y"))),
        ("odpPage", chars(ns(odp, "draw", "page"))),
        ("odsP", chars(ods.get("_TEXT_P_TAG"))), ("odsTable", chars(ns(ods, "table", "table"))),
        ("odsRow", chars(ns(ods, "table", "table-row"))), ("odsCell", chars(ns(ods, "table", "table-cell"))),
        ("odsName", chars(ods.get("_ATTR_TABLE_NAME"))), ("odsRepRows", chars(ods.get("_ATTR_TABLE_REPEAT_ROWS"))),
        ("odsRepCols", chars(ods.get("_ATTR_TABLE_REPEAT_COLS"))),
        ("odsValueType", chars(ods.get("_ATTR_OFFICE_VALUE_TYPE"))), ("odsValue", chars(ods.get("_ATTR_OFFICE_VALUE"))),
        ("odsDateValue", chars(ods.get("_ATTR_OFFICE_DATE_VALUE"))), ("odsTimeValue", chars(ods.get("_ATTR_OFFICE_TIME_VALUE"))),
        ("odsBoolValue", chars(ods.get("_ATTR_OFFICE_BOOLEAN_VALUE"))),
    ]
    # find()/findall() paths written with prefixes in the source: they must exist in the sources as such
    for rel, needles in ((OO + "odp_extractor.py", ['findall("draw:page", NS)', 'findall("draw:frame", NS)']),
                         (OO + "ods_extractor.py", ['findall("table:table-row", NS)', 'findall("table:table-cell", NS)',
                                                    'findall("table:table", NS)'])):
        from translate import src
        text = src(rel)
        for nd in needles:
            if nd not in text:
                notes.append(f"{rel}: expected call {nd} not found")

    # ---- RTF
    rtf = fresh_import("sharepoint2text.parsing.extractors.ms_legacy.rtf_extractor")
    rtree = parse(RTF)
    skip = sorted(rtf._RtfParser.SKIP_DESTINATIONS)
    special = dict(rtf._RtfParser.SPECIAL_CHARS)
    for node in ast.walk(rtree):
        if isinstance(node, ast.ClassDef) and node.name == "_RtfParser":
            for st in node.body:
                if isinstance(st, ast.Assign) and isinstance(st.targets[0], ast.Name):
                    nm = st.targets[0].id
                    if nm == "SKIP_DESTINATIONS":
                        try:
                            lit = ast.literal_eval(st.value.args[0])
                            if set(lit) != set(skip):
                                notes.append("rtf: SKIP_DESTINATIONS runtime value differs from the literal")
                        except Exception as e:
                            notes.append(f"rtf: SKIP_DESTINATIONS literal not evaluable {e!r}")
                    if nm == "SPECIAL_CHARS":
                        try:
                            if ast.literal_eval(st.value) != special:
                                notes.append("rtf: SPECIAL_CHARS runtime value differs from the literal")
                        except Exception as e:
                            notes.append(f"rtf: SPECIAL_CHARS literal not evaluable {e!r}")
    def ranges(pred):
        out, start, prev = [], None, None
        for c in range(128, 0x110000):
            if pred(chr(c)):
                if start is None:
                    start = c
                prev = c
            elif start is not None:
                out.append((start, prev))
                start = None
        if start is not None:
            out.append((start, prev))
        return out

    import re as _re
    alpha = ranges(str.isalpha)
    digit = ranges(str.isdigit)
    nd_chars = [c for c in range(128, 0x110000) if _re.match(r"\d", chr(c))]
    nd = [c for c in nd_chars if int(chr(c)) == 0]
    for c in nd_chars:  # every \d character lies in a decade starting at a zero digit and has the matching value
        st = [z for z in nd if z <= c < z + 10]
        if len(st) != 1 or int(chr(c)) != c - st[0]:
            notes.append(f"decimal digit U+{c:04X} does not fit the decade scheme")
    for c in range(128):  # ASCII part hard-wired in the model
        ch = chr(c)
        if ch.isalpha() != (("a" <= ch <= "z") or ("A" <= ch <= "Z")) or ch.isdigit() != ("0" <= ch <= "9") \
                or bool(_re.match(r"\d", ch)) != ("0" <= ch <= "9"):
            notes.append(f"ASCII classification of {c} differs from the model")
    # ---- PPT
    ppt = fresh_import("sharepoint2text.parsing.extractors.ms_legacy.ppt_extractor")
    trans = dict(ppt._CLEAN_TRANS)
    passigns = _module_assigns(parse(PPT))
    try:
        cc = _ast_value(passigns, "_CONTROL_CHARS", {})
        env = {"_CONTROL_CHARS": cc}
        lit = eval(compile(ast.Expression(passigns["_CLEAN_TRANS"].args[0]), "<gen>", "eval"), {"__builtins__": {}}, env)
        if str.maketrans(lit) != trans:
            notes.append("ppt: _CLEAN_TRANS runtime value differs from the source expression")
    except Exception as e:
        notes.append(f"ppt: _CLEAN_TRANS not evaluable from the AST: {e!r}")
    prefixes = list(ppt._PLACEHOLDER_PREFIXES)

    def trans_entry(k, v):
        if v is None:
            return f"({k}, [])"
        if isinstance(v, int):
            v = chr(v)
        return f"({k}, {chars(v)})"

    L = [HEADER.format(src="open_office/*.py, ms_legacy/rtf_extractor.py, ms_legacy/ppt_extractor.py")]
    L.append("import S2T.Model.C02OdfXml\nimport S2T.Model.C02OdfRtf\nnamespace S2T.Gen.C02Odf\nopen S2T.OdfText\n")
    L.append("def tables : Tables := {\n" + ",\n".join(f"  {k} := {v}" for k, v in fields) + "\n}\n")
    L.append("/-- `_RtfParser.SKIP_DESTINATIONS` (sorted) -/")
    L.append("def rtfSkip : List (List Char) := " + lean_list((chars(s) for s in skip), per_line=4) + "\n")
    L.append("/-- `_RtfParser.SPECIAL_CHARS` (dict order) -/")
    L.append("def rtfSpecial : List (List Char × List Char) := " + lean_list(f"({chars(k)}, {chars(v)})" for k, v in special.items()) + "\n")
    L.append("def rtfAlpha : List (Nat × Nat) := " + lean_list((f"({a}, {b})" for a, b in alpha), per_line=8) + "\n")
    L.append("def rtfDigit : List (Nat × Nat) := " + lean_list((f"({a}, {b})" for a, b in digit), per_line=8) + "\n")
    L.append("def rtfNd : List Nat := " + nat_list(nd) + "\n")
    L.append("def rtfTables : S2T.Rtf.Tables := { ws := tables.ws, skip := rtfSkip, special := rtfSpecial, alpha := rtfAlpha, digit := rtfDigit, nd := rtfNd }\n")
    L.append("/-- `_CLEAN_TRANS`: code point ↦ replacement ([] = deleted) -/")
    L.append("def pptTrans : List (Nat × List Char) := " + lean_list((trans_entry(k, v) for k, v in sorted(trans.items())), per_line=4) + "\n")
    L.append("def pptPrefixes : List (List Char) := " + lean_list(chars(s) for s in prefixes) + "\n")
    L.append("def pptTables : S2T.Rtf.PptTables := { ws := tables.ws, trans := pptTrans, prefixes := pptPrefixes }\n")
    L.append("/-- translator cross-check notes (runtime value vs. source); must be empty -/")
    L.append("def notes : List String := " + lean_list(lean_str(n) for n in notes) + "\n")
    L.append("end S2T.Gen.C02Odf\n")
    return "\n".join(L)
