"""C12: constants used by the loop models, the explicit limits with the comparison operator found at
every limit site, and the inventory of XML parse sites  ->  S2T/Gen/C12Consts.lean

Everything is read from the CURRENT source tree: module constants as runtime values cross-checked
against the value of the AST expression they are assigned from; literals that live inside function
bodies (FILEPASS id, SOF marker tuples, RTF prefixes, limit comparisons) from the AST of that function.
"""
import ast
import inspect
import os

from translate import HEADER, REPO, fresh_import, generator, lean_list, lean_str, parse

EX = "sharepoint2text/parsing/extractors/"


def _const_eval(node):
    """value of a constant integer expression (`10 * 1024 * 1024`, `1 << 20`, tuples of those)"""
    if isinstance(node, ast.Constant):
        return node.value
    if isinstance(node, ast.Tuple):
        return tuple(_const_eval(e) for e in node.elts)
    if isinstance(node, ast.UnaryOp) and isinstance(node.op, ast.USub):
        return -_const_eval(node.operand)
    if isinstance(node, ast.BinOp):
        a, b = _const_eval(node.left), _const_eval(node.right)
        ops = {ast.Mult: lambda: a * b, ast.Add: lambda: a + b, ast.Sub: lambda: a - b, ast.Pow: lambda: a ** b,
               ast.LShift: lambda: a << b, ast.FloorDiv: lambda: a // b}
        return ops[type(node.op)]()
    raise ValueError("not a constant expression: " + ast.unparse(node))


def _module_assign(rel, name):
    for node in parse(rel).body:
        if isinstance(node, ast.Assign) and len(node.targets) == 1 and isinstance(node.targets[0], ast.Name) \
                and node.targets[0].id == name:
            return node.value
        if isinstance(node, ast.AnnAssign) and isinstance(node.target, ast.Name) and node.target.id == name and node.value:
            return node.value
    raise KeyError(f"{rel}: no module-level assignment of {name}")


def _find_func(rel, qual):
    parts = qual.split(".")
    node = parse(rel)
    for p in parts:
        for ch in ast.walk(node):
            if isinstance(ch, (ast.FunctionDef, ast.ClassDef, ast.AsyncFunctionDef)) and ch.name == p:
                node = ch
                break
        else:
            raise KeyError(f"{rel}: no {qual}")
    return node


def _in_tuples(fn):
    """all `x in (<int literals>)` tuples inside a function, in source order"""
    res = []
    for n in ast.walk(fn):
        if isinstance(n, ast.Compare) and len(n.ops) == 1 and isinstance(n.ops[0], (ast.In, ast.NotIn)) \
                and isinstance(n.comparators[0], ast.Tuple):
            try:
                vals = _const_eval(n.comparators[0])
            except Exception:
                continue
            if all(isinstance(v, int) for v in vals):
                res.append((ast.unparse(n.left), list(vals)))
    return res


_OPS = {ast.Gt: "gt", ast.GtE: "ge", ast.Lt: "lt", ast.LtE: "le", ast.Eq: "eq", ast.NotEq: "ne"}


def _compare_with(fn, lhs_src=None, rhs_src=None):
    """the unique `if`/`while` test inside fn that is a single comparison with the given side(s)"""
    hits = []
    for n in ast.walk(fn):
        if isinstance(n, (ast.If, ast.While)) and isinstance(n.test, ast.Compare) and len(n.test.ops) == 1:
            l, r = ast.unparse(n.test.left), ast.unparse(n.test.comparators[0])
            if (lhs_src is None or l == lhs_src) and (rhs_src is None or r == rhs_src):
                hits.append((l, _OPS.get(type(n.test.ops[0]), "other"), r))
    if len(hits) != 1:
        raise ValueError(f"{fn.name}: expected exactly one comparison lhs={lhs_src} rhs={rhs_src}, found {hits}")
    return hits[0]


_FLIP = {"gt": "lt", "lt": "gt", "ge": "le", "le": "ge", "eq": "eq", "ne": "ne", "other": "other"}


def _limit_compare(fn, limit_token, other_is_const=None):
    """the unique comparison inside fn with `limit_token` on one side, normalised to  <other> OP <limit>.
    other_is_const: True = the other side must be an int literal (the `> 0` enabling test, normalised the other way
    round: <limit> OP <const>), False = it must not be, None = do not care."""
    hits = []
    # single-assignment local aliases (`limit = _config.max_memory_size`) are looked through
    assigned = {}
    for n in ast.walk(fn):
        if isinstance(n, ast.Assign) and len(n.targets) == 1 and isinstance(n.targets[0], ast.Name):
            assigned.setdefault(n.targets[0].id, []).append(n.value)

    def resolve(e, depth=0):
        while isinstance(e, ast.Name) and len(assigned.get(e.id, [])) == 1 and depth < 4:
            e, depth = assigned[e.id][0], depth + 1
        return e
    for n in ast.walk(fn):
        if not (isinstance(n, ast.Compare) and len(n.ops) == 1):
            continue
        l, r = resolve(n.left), resolve(n.comparators[0])
        op = _OPS.get(type(n.ops[0]), "other")
        ls, rs = ast.unparse(l), ast.unparse(r)
        for lim_side, other, flipped in ((rs, l, False), (ls, r, True)):
            if limit_token not in lim_side.replace("(", " ").replace(")", " ").replace(".", " ").split() and limit_token != lim_side:
                continue
            const = isinstance(other, ast.Constant) and isinstance(other.value, int)
            if other_is_const is not None and const != other_is_const:
                continue
            o = _FLIP[op] if flipped else op            # now:  other OP limit
            if const:
                hits.append(("limit", _FLIP[o], str(other.value)))     # limit OP' const
            else:
                hits.append(("size", o, "limit"))
    if len(hits) != 1:
        raise ValueError(f"{fn.name}: expected exactly one comparison against {limit_token} (const={other_is_const}), found {hits}")
    return hits[0]


def _nats(xs):
    return "[" + ", ".join(str(int(x)) for x in xs) + "]"


def _cps(s):
    return "[" + ", ".join(str(ord(c)) for c in s) + "]"


_XML_PARSE_FUNCS = {"fromstring", "XML", "parse", "iterparse", "XMLParser", "XMLPullParser", "parseString",
                    "fromstringlist", "XMLID", "make_parser", "ParserCreate", "TreeBuilder"}
_XML_MODULE_PREFIXES = ("xml.", "xml", "defusedxml", "lxml", "pyexpat", "html5lib", "bs4")


def _xml_call_target(call, bound):
    """(call source, dotted module/object the receiver name is bound to) if `call` is a call of an XML parser entry
    point through a name imported from an XML package, else None"""
    f = call.func
    if isinstance(f, ast.Attribute) and f.attr in _XML_PARSE_FUNCS:
        base = f.value
        while isinstance(base, ast.Attribute):
            base = base.value
        if isinstance(base, ast.Name) and base.id in bound and \
                bound[base.id].split(".")[0] in ("xml", "defusedxml", "lxml", "pyexpat", "html5lib", "bs4"):
            return ast.unparse(f), bound[base.id]
    elif isinstance(f, ast.Name) and f.id in bound and f.id in _XML_PARSE_FUNCS and \
            bound[f.id].split(".")[0] in ("xml", "defusedxml", "lxml", "pyexpat"):
        return f.id, bound[f.id]
    return None


def _xml_sites(calls=None):
    """(file, function, call source, module the receiver name is bound to) for every call of an XML
    parser entry point through a name imported from an XML package
    (`calls`, if given, additionally receives (file, function stack, call node, call source, module, bindings))"""
    sites, imports_seen = [], []
    calls = calls if calls is not None else []
    pkg = os.path.join(REPO, "sharepoint2text")
    for root, dirs, files in os.walk(pkg):
        dirs[:] = sorted(d for d in dirs if d not in ("tests", "__pycache__"))
        for fn in sorted(files):
            if not fn.endswith(".py"):
                continue
            rel = os.path.relpath(os.path.join(root, fn), REPO)
            tree = parse(rel)
            bound = {}  # local name -> dotted module/object
            for n in ast.walk(tree):
                if isinstance(n, ast.Import):
                    for a in n.names:
                        bound[a.asname or a.name.split(".")[0]] = a.name if a.asname else a.name.split(".")[0]
                elif isinstance(n, ast.ImportFrom) and n.module:
                    for a in n.names:
                        bound[a.asname or a.name] = n.module + "." + a.name
            for name, target in sorted(bound.items()):
                if target.split(".")[0] in ("xml", "defusedxml", "lxml", "pyexpat", "html5lib", "bs4"):
                    imports_seen.append((rel, name, target))

            def visit(node, stack):
                for ch in ast.iter_child_nodes(node):
                    st = stack + [ch.name] if isinstance(ch, (ast.FunctionDef, ast.AsyncFunctionDef, ast.ClassDef)) else stack
                    if isinstance(ch, ast.Call):
                        hit = _xml_call_target(ch, bound)
                        if hit:
                            sites.append((rel, ".".join(st) or "<module>", hit[0], hit[1]))
                            calls.append((rel, st, ch, hit[0], hit[1], bound))
                    visit(ch, st)

            visit(tree, [])
    return sites, imports_seen


# ---------------------------------------------------------------- TAR member loop (member-type guard, order of events)
_TAR_KINDS = (("reg", ("REGTYPE", "AREGTYPE", "CONTTYPE")), ("hardlink", ("LNKTYPE",)), ("symlink", ("SYMTYPE",)),
              ("dir", ("DIRTYPE",)), ("special", ("CHRTYPE", "BLKTYPE", "FIFOTYPE")))


def _tar_loop_facts(fn, notes):
    """facts about the `for member in tf.getmembers()` loop of _extract_from_tar_optimized, from the CURRENT source:
    * per member kind (regular / hard link / symbolic link / directory / special) whether it gets past the loop's
      member-type guards.  Every top-level `if <test>: continue` of the loop body whose test mentions nothing but the
      loop variable (and the `tarfile` module) is a type guard; it is EVALUATED on a real tarfile.TarInfo of every type,
      so `not member.isreg()`, `not member.isfile()`, `member.type != tarfile.REGTYPE`, `not (member.isreg() or
      member.islnk())` are all read for what they do, not for how they are spelled.
    * the order (source position) of the events type-guard / size-test / extractfile / read inside the loop body.
    """
    import tarfile
    loops = [n for n in ast.walk(fn) if isinstance(n, ast.For) and isinstance(n.iter, ast.Call)
             and isinstance(n.iter.func, ast.Attribute) and n.iter.func.attr == "getmembers"]
    if len(loops) != 1 or not isinstance(loops[0].target, ast.Name):
        raise ValueError(f"{fn.name}: expected exactly one `for <name> in <tar>.getmembers()` loop, found {len(loops)}")
    loop = loops[0]
    var = loop.target.id
    # plain aliases of the loop variable made at the top of the body (`member = entry`)
    aliases = {var}
    for st in loop.body:
        if isinstance(st, ast.Assign) and isinstance(st.value, ast.Name) and st.value.id in aliases:
            aliases |= {t.id for t in st.targets if isinstance(t, ast.Name)}

    def only_continue(body):
        return len(body) >= 1 and isinstance(body[-1], ast.Continue) and \
            all(isinstance(s, (ast.Continue, ast.Expr)) for s in body)

    def names_of(e):
        return {n.id for n in ast.walk(e) if isinstance(n, ast.Name)}
    guards, events = [], []
    for st in loop.body:
        if isinstance(st, ast.If) and only_continue(st.body) and not st.orelse and names_of(st.test) <= aliases | {"tarfile"} \
                and names_of(st.test) & aliases:
            guards.append(st.test)
            events.append(((st.lineno, st.col_offset), "type-guard"))
    # a guard written the other way round: `if member.isreg(): <whole body>` (no else) — the body is the accepted case
    wrapped = [st for st in loop.body if isinstance(st, ast.If) and not only_continue(st.body)
               and names_of(st.test) <= aliases | {"tarfile"} and names_of(st.test) & aliases]
    accepted = []
    for kind, types in _TAR_KINDS:
        verdicts = set()
        for tname in types:
            ti = tarfile.TarInfo("m.txt")
            ti.type = getattr(tarfile, tname)
            ok = True
            for g in guards:
                if eval(compile(ast.Expression(g), "<tar guard>", "eval"), {"tarfile": tarfile, **{a: ti for a in aliases}}):
                    ok = False
            for w in wrapped:
                contains_extract = any(isinstance(n, ast.Attribute) and n.attr == "extractfile" for n in ast.walk(w))
                if contains_extract and not eval(compile(ast.Expression(w.test), "<tar guard>", "eval"),
                                                 {"tarfile": tarfile, **{a: ti for a in aliases}}):
                    ok = False
            verdicts.add(ok)
        if len(verdicts) != 1:
            notes.append(f"tar member-type guard: the types {types} of kind {kind} are not treated alike")
        accepted.append((kind, True in verdicts))
    # order of events (size test = the comparison against max_memory_size, looked through local aliases)
    assigned = {}
    for n in ast.walk(fn):
        if isinstance(n, ast.Assign) and len(n.targets) == 1 and isinstance(n.targets[0], ast.Name):
            assigned.setdefault(n.targets[0].id, []).append(n.value)

    def resolve(e, depth=0):
        while isinstance(e, ast.Name) and len(assigned.get(e.id, [])) == 1 and depth < 4:
            e, depth = assigned[e.id][0], depth + 1
        return e
    for n in ast.walk(loop):
        if isinstance(n, ast.If) and any(isinstance(c, ast.Compare) and any("max_memory_size" in ast.unparse(resolve(x))
                                         for x in [c.left] + c.comparators) for c in ast.walk(n.test)):
            if any(isinstance(s, (ast.Continue, ast.Break, ast.Return, ast.Raise)) for s in ast.walk(n)):
                events.append(((n.lineno, n.col_offset), "size-test"))
        if isinstance(n, ast.Call) and isinstance(n.func, ast.Attribute) and n.func.attr == "extractfile":
            events.append(((n.lineno, n.col_offset), "extractfile"))
        if isinstance(n, ast.Call) and isinstance(n.func, ast.Attribute) and n.func.attr in ("read", "readall", "readinto", "read1"):
            events.append(((n.lineno, n.col_offset), "read"))
    # reads outside the loop body proper (e.g. tf.extractall / tf.extract) would bypass everything
    bypass = sorted({n.func.attr for n in ast.walk(fn) if isinstance(n, ast.Call) and isinstance(n.func, ast.Attribute)
                     and n.func.attr in ("extractall", "extract")})
    return accepted, [name for _, name in sorted(events)], bypass


# ---------------------------------------------------------------- ZIP / TAR: is the payload fetched through the tested entry?
_HANDLE_ITERS = ("infolist", "getmembers")


def _read_origin(fn, read_attrs):
    """How do the payload reads of an archive member loop name the member they read?
    -> ("handle" | "name" | "unknown", [source of every read site]).
    A read site is a call `<archive>.<read_attrs>(ARG, ...)` on the object bound by `with <...>(...) as <archive>`.
    ARG is traced back through the function: loop / comprehension targets (also tuple positions), single assignments,
    `L.append((..))` into a list that is iterated later, `sorted / list / reversed / tuple(L)`.  "handle": ARG is the
    very object the loop got from `infolist()` / `getmembers()` / iterating the archive; "name": it is a `.filename` /
    `.name` attribute, a string, or the result of `getinfo` / `getmember`; anything else: "unknown"."""
    withs = {}
    for n in ast.walk(fn):
        if isinstance(n, ast.With):
            for it in n.items:
                if isinstance(it.optional_vars, ast.Name):
                    withs[it.optional_vars.id] = it.context_expr
    # `with zf.open(info) as stream` binds a member handle, not an archive: its own read() names no member
    arch = {v for v, e in withs.items() if not (isinstance(e, ast.Call) and isinstance(e.func, ast.Attribute)
                                                and isinstance(e.func.value, ast.Name) and e.func.value.id in withs)}
    binds, assigned, appends = [], {}, {}
    for n in ast.walk(fn):
        if isinstance(n, (ast.For, ast.comprehension)):
            binds.append((n.target, n.iter))
        if isinstance(n, ast.Assign) and len(n.targets) == 1 and isinstance(n.targets[0], ast.Name):
            assigned.setdefault(n.targets[0].id, []).append(n.value)
        if isinstance(n, ast.Call) and isinstance(n.func, ast.Attribute) and n.func.attr == "append" \
                and isinstance(n.func.value, ast.Name) and len(n.args) == 1:
            appends.setdefault(n.func.value.id, []).append(n.args[0])

    visiting = set()

    def combine(vs):
        vs = list(vs)
        if vs and all(v is None for v in vs):       # None: a name that is being resolved already (a cycle adds nothing)
            return None
        vs = [v for v in vs if v is not None]
        if vs and all(v == "handle" for v in vs):
            return "handle"
        return "name" if "name" in vs else "unknown"

    def of_iter(it, k, depth):
        if depth > 8:
            return "unknown"
        if isinstance(it, ast.Call) and isinstance(it.func, ast.Attribute) and it.func.attr in _HANDLE_ITERS:
            return "handle" if k is None else "unknown"
        if isinstance(it, ast.Attribute) and it.attr == "filelist":
            return "handle" if k is None else "unknown"
        if isinstance(it, ast.Call) and isinstance(it.func, ast.Name) and it.func.id in ("sorted", "list", "reversed", "tuple") and it.args:
            return of_iter(it.args[0], k, depth + 1)
        if isinstance(it, ast.Name):
            if it.id in arch:
                return "handle" if k is None else "unknown"
            elems = list(appends.get(it.id, []))
            for v in assigned.get(it.id, []):
                if isinstance(v, (ast.List, ast.Tuple)):
                    elems += v.elts
                elif isinstance(v, ast.ListComp):
                    elems.append(v.elt)
                elif not (isinstance(v, ast.Call) and not v.args):      # `x = []` / `x = list()` carry nothing
                    return of_iter(v, k, depth + 1) if not elems else "unknown"
            if not elems:
                return "unknown"
            out = []
            for e in elems:
                if k is None:
                    out.append(of_expr(e, depth + 1))
                elif isinstance(e, ast.Tuple) and k < len(e.elts):
                    out.append(of_expr(e.elts[k], depth + 1))
                else:
                    out.append("unknown")
            return combine(out)
        return "unknown"

    def of_expr(e, depth=0):
        if depth > 8:
            return "unknown"
        if isinstance(e, ast.Attribute) and e.attr in ("filename", "name", "orig_filename", "path"):
            return "name"
        if isinstance(e, (ast.JoinedStr,)) or (isinstance(e, ast.Constant) and isinstance(e.value, str)):
            return "name"
        if isinstance(e, ast.Call) and isinstance(e.func, ast.Attribute) and e.func.attr in ("getinfo", "getmember"):
            return "name"
        if isinstance(e, ast.Name):
            if e.id in visiting:
                return None
            visiting.add(e.id)
            try:
                return of_name(e, depth)
            finally:
                visiting.discard(e.id)
        return "unknown"

    def of_name(e, depth):
        if True:
            found = []
            for tgt, it in binds:
                if isinstance(tgt, ast.Name) and tgt.id == e.id:
                    found.append(of_iter(it, None, depth + 1))
                elif isinstance(tgt, ast.Tuple):
                    for k, t in enumerate(tgt.elts):
                        if isinstance(t, ast.Name) and t.id == e.id:
                            found.append(of_iter(it, k, depth + 1))
            for v in assigned.get(e.id, []):
                found.append(of_expr(v, depth + 1))
            return combine(found)
        return "unknown"
    sites = []
    for n in ast.walk(fn):
        if isinstance(n, ast.Call) and isinstance(n.func, ast.Attribute) and n.func.attr in read_attrs \
                and isinstance(n.func.value, ast.Name) and n.func.value.id in arch:
            arg = n.args[0] if n.args else next((k.value for k in n.keywords if k.arg in ("name", "member")), None)
            sites.append((ast.unparse(n), "unknown" if arg is None else of_expr(arg)))
    return combine(v for _, v in sites) or "unknown", [f"{src} -> {v}" for src, v in sites]


# ---------------------------------------------------------------- 7z: does max_output reach EVERY stage of a coder chain?
def _sz_bound_sites(rel):
    """(site, does it hand `max_output` on UNCHANGED) for every place the output bound of a 7z folder passes through on
    its way from extractall to the lzma decoder calls.  Deliberately strict: only the plain name `max_output` (for the
    lzma calls also `-1 if max_output is None else max_output`) counts; a conditional, a re-binding of the parameter or
    a return that does not mention it is `false`."""
    def plain(e):
        return isinstance(e, ast.Name) and e.id == "max_output"

    def lzma_bound(e):
        if plain(e):
            return True
        return isinstance(e, ast.IfExp) and ast.unparse(e.test) == "max_output is None" and ast.unparse(e.body) == "-1" and plain(e.orelse)

    def rebinds(fn, allowed=()):
        bad = False
        for n in ast.walk(fn):
            tg = []
            if isinstance(n, ast.Assign):
                tg = [(t, n.value) for t in n.targets]
            elif isinstance(n, (ast.AugAssign, ast.AnnAssign)):
                tg = [(n.target, n.value)]
            elif isinstance(n, ast.NamedExpr):
                tg = [(n.target, n.value)]
            elif isinstance(n, (ast.For, ast.comprehension)):
                tg = [(x, None) for x in ast.walk(n.target)]
            for t, v in tg:
                if isinstance(t, ast.Name) and t.id == "max_output":
                    if not (v is not None and any(a(v) for a in allowed)):
                        bad = True
        return bad

    def is_param(fn):
        return any(a.arg == "max_output" for a in fn.args.args + fn.args.kwonlyargs)

    def arg_of(call, pos, kw):
        for k in call.keywords:
            if k.arg == kw:
                return k.value
        return call.args[pos] if len(call.args) > pos else None

    def calls(fn, attr):
        return [n for n in ast.walk(fn) if isinstance(n, ast.Call) and isinstance(n.func, ast.Attribute) and n.func.attr == attr]
    sites = []
    # extractall: max_output is None or what _needed_output says, and goes to _decompress_folder as it is
    ex = _find_func(rel, "SevenZipReader.extractall")
    cs = calls(ex, "_decompress_folder")
    ok = bool(cs) and all(plain(arg_of(c, 4, "max_output")) for c in cs) and not rebinds(ex, allowed=(
        lambda v: isinstance(v, ast.Constant) and v.value is None,
        lambda v: isinstance(v, ast.Call) and isinstance(v.func, ast.Attribute) and v.func.attr == "_needed_output"))
    sites.append(("extractall -> _decompress_folder", ok))
    # _decompress_folder: every _apply_decoder call inside the loop over the coders gets the parameter itself
    df = _find_func(rel, "SevenZipReader._decompress_folder")
    cs = calls(df, "_apply_decoder")
    loops = [n for n in ast.walk(df) if isinstance(n, (ast.For, ast.While)) and any(c in list(ast.walk(n)) for c in cs)]
    ok = bool(cs) and is_param(df) and not rebinds(df) and all(plain(arg_of(c, 4, "max_output")) for c in cs) and len(loops) >= 1 \
        and not any(isinstance(x, ast.Subscript) for lp in loops if isinstance(lp, ast.For) for x in ast.walk(lp.iter))
    sites.append(("_decompress_folder -> _apply_decoder (every stage)", ok))
    # _apply_decoder: every return cuts at / hands on the parameter
    ad = _find_func(rel, "SevenZipReader._apply_decoder")
    clean = is_param(ad) and not rebinds(ad)
    k = 0
    for n in ast.walk(ad):
        if isinstance(n, ast.Return):
            k += 1
            v = n.value
            good = False
            if isinstance(v, ast.Call):
                good = any(plain(a) for a in v.args) or any(plain(kw.value) for kw in v.keywords)
            elif isinstance(v, ast.IfExp):
                good = ast.unparse(v.test) == "max_output is None" and isinstance(v.orelse, ast.Subscript) and \
                    isinstance(v.orelse.slice, ast.Slice) and v.orelse.slice.upper is not None and plain(v.orelse.slice.upper) \
                    and v.orelse.slice.lower is None
            elif isinstance(v, ast.Subscript):
                good = isinstance(v.slice, ast.Slice) and v.slice.upper is not None and plain(v.slice.upper) and v.slice.lower is None
            sites.append((f"_apply_decoder return #{k}: {ast.unparse(v) if v is not None else 'None'}"[:90], clean and good))
    if k == 0:
        sites.append(("_apply_decoder has no return", False))
    for name in ("_decompress_lzma", "_decompress_lzma2"):
        fn = _find_func(rel, "SevenZipReader." + name)
        cs = calls(fn, "decompress")
        ok = bool(cs) and is_param(fn) and not rebinds(fn) and all(arg_of(c, 1, "max_length") is not None and lzma_bound(arg_of(c, 1, "max_length")) for c in cs)
        sites.append((f"{name} -> LZMADecompressor.decompress", ok))
    return sites


@generator("C12Consts")
def gen_c12():
    notes = []
    L = [HEADER.format(src="util/encryption.py, util/image_utils.py, ms_modern/*_extractor.py, ms_legacy/*_extractor.py, "
                           "util/sevenzip.py, archive_extractor.py, __init__.py (runtime values + AST)")]
    L.append("namespace S2T.Gen.C12Consts\n")

    # ---- loop constants
    enc = _find_func(EX + "util/encryption.py", "is_xls_encrypted")
    l, op, r = _compare_with(enc, lhs_src="record_id")
    L.append(f"/-- `record_id == …` in is_xls_encrypted (FILEPASS) -/\ndef filepassId : Nat := {int(_const_eval(ast.parse(r, mode='eval').body))}")
    L.append(f"def filepassOp : String := {lean_str(op)}\n")

    iu = fresh_import("sharepoint2text.parsing.extractors.util.image_utils")
    tups = _in_tuples(_find_func(EX + "util/image_utils.py", "get_jpeg_dimensions"))
    sof_iu = [v for lhs, v in tups if lhs == "marker"]
    if len(sof_iu) != 1:
        notes.append("get_jpeg_dimensions: expected exactly one `marker in (...)` tuple")
    L.append(f"def sofImageUtils : List Nat := {_nats(sof_iu[0] if sof_iu else [])}")
    for short, modname in (("Docx", "docx_extractor"), ("Xlsx", "xlsx_extractor")):
        mod = fresh_import("sharepoint2text.parsing.extractors.ms_modern." + modname)
        rt = sorted(mod._JPEG_SOF_MARKERS)
        lit = _module_assign(EX + f"ms_modern/{modname}.py", "_JPEG_SOF_MARKERS")
        try:
            inner = lit.args[0] if isinstance(lit, ast.Call) else lit
            litv = sorted(_const_eval(ast.Tuple(elts=inner.elts)) if isinstance(inner, (ast.Set, ast.List, ast.Tuple)) else [])
        except Exception:
            litv = None
        if litv != rt:
            notes.append(f"{modname}._JPEG_SOF_MARKERS: runtime value differs from the source literal")
        L.append(f"def sof{short} : List Nat := {_nats(rt)}")
    tups = _in_tuples(_find_func(EX + "ms_modern/pptx_extractor.py", "_get_image_pixel_dimensions"))
    sof_pptx = [v for lhs, v in tups if lhs == "marker" and len(v) > 2]
    if len(sof_pptx) != 1:
        notes.append("pptx _get_image_pixel_dimensions: expected exactly one SOF `marker in (...)` tuple")
    L.append(f"def sofPptx : List Nat := {_nats(sof_pptx[0] if sof_pptx else [])}")
    # the `marker in (0xD9, 0xDA)` stop tuples of the three copies
    stops = {}
    for short, modname in (("Docx", "docx_extractor"), ("Xlsx", "xlsx_extractor"), ("Pptx", "pptx_extractor")):
        t = [v for lhs, v in _in_tuples(_find_func(EX + f"ms_modern/{modname}.py", "_get_image_pixel_dimensions"))
             if lhs == "marker" and len(v) == 2]
        stops[short] = t[0] if len(t) == 1 else []
    L.append("def sofStops : List (List Nat) := [" + ", ".join(_nats(stops[k]) for k in ("Docx", "Xlsx", "Pptx")) + "]\n")

    blip_rt = list(iu.BLIP_TYPES)
    L.append(f"def blipTypes : List Nat := {_nats(blip_rt)}")
    ppt = fresh_import("sharepoint2text.parsing.extractors.ms_legacy.ppt_extractor")
    xls = fresh_import("sharepoint2text.parsing.extractors.ms_legacy.xls_extractor")
    doc = fresh_import("sharepoint2text.parsing.extractors.ms_legacy.doc_extractor")
    for nm, mod, rel in (("ppt", ppt, "ms_legacy/ppt_extractor.py"), ("xls", xls, "ms_legacy/xls_extractor.py")):
        if _const_eval(_module_assign(EX + rel, "_RECORD_HEADER_SIZE")) != mod._RECORD_HEADER_SIZE:
            notes.append(f"{nm}._RECORD_HEADER_SIZE: runtime value differs from the source literal")
        L.append(f"def {nm}HeaderFmt : String := {lean_str(mod._RECORD_HEADER.format)}")
        L.append(f"def {nm}HeaderSize : Nat := {int(mod._RECORD_HEADER_SIZE)}")
    L.append(f"def dibFmt : String := {lean_str(doc._DIB24.format)}")
    if _const_eval(_module_assign(EX + "ms_legacy/ppt_extractor.py", "RT_SLIDE_LIST_WITH_TEXT")) != ppt.RT_SLIDE_LIST_WITH_TEXT:
        notes.append("RT_SLIDE_LIST_WITH_TEXT: runtime value differs from the source literal")
    L.append(f"def slideListWithText : Nat := {int(ppt.RT_SLIDE_LIST_WITH_TEXT)}\n")

    rtf = fresh_import("sharepoint2text.parsing.extractors.ms_legacy.rtf_extractor")
    rig = _find_func(EX + "ms_legacy/rtf_extractor.py", "_RtfParser._remove_ignorable_groups")
    prefixes = None
    for n in ast.walk(rig):
        if isinstance(n, ast.Assign) and isinstance(n.targets[0], ast.Name) and n.targets[0].id == "prefixes":
            prefixes = list(ast.literal_eval(n.value))
    if prefixes is None:
        notes.append("_remove_ignorable_groups: `prefixes` literal not found")
        prefixes = []
    L.append("def rtfIgnorablePrefixes : List (List Nat) := " + lean_list(_cps(p) for p in prefixes))
    L.append("def rtfSkipDestinations : List (List Nat) := " + lean_list((_cps(k) for k in sorted(rtf._RtfParser.SKIP_DESTINATIONS)), per_line=4))
    L.append(f"def rtfUnicodePattern : String := {lean_str(rtf._RE_UNICODE.pattern)}\n")

    # ---- explicit limits
    arc = fresh_import("sharepoint2text.parsing.extractors.archive_extractor")
    arel = EX + "archive_extractor.py"
    for nm in ("MAX_MEMORY_SIZE", "MAX_ARCHIVE_FILE_SIZE", "MAX_7Z_FILE_SIZE"):
        if _const_eval(_module_assign(arel, nm)) != getattr(arc, nm):
            notes.append(f"{nm}: runtime value differs from the source expression")
    L.append(f"def maxMemorySize : Nat := {int(arc.MAX_MEMORY_SIZE)}")
    L.append(f"def maxArchiveFileSize : Nat := {int(arc.MAX_ARCHIVE_FILE_SIZE)}")
    L.append(f"def max7zFileSize : Nat := {int(arc.MAX_7Z_FILE_SIZE)}")
    L.append(f"/-- `ArchiveConfig().max_memory_size` (the per-member limit in force by default) -/\ndef configMaxMemorySize : Nat := {int(arc.ArchiveConfig().max_memory_size)}")
    import sharepoint2text
    sig = inspect.signature(sharepoint2text.read_file)
    default = sig.parameters["max_file_size"].default
    rf = _find_func("sharepoint2text/__init__.py", "read_file")
    ast_default = None
    args = rf.args
    names = [a.arg for a in args.args]
    if "max_file_size" in names:
        idx = names.index("max_file_size") - (len(names) - len(args.defaults))
        ast_default = _const_eval(args.defaults[idx])
    if ast_default != default:
        notes.append("read_file max_file_size default: runtime value differs from the source expression")
    L.append(f"def readFileDefaultLimit : Nat := {int(default)}\n")

    sites = []
    f7z = _find_func(arel, "_extract_from_7z_optimized")
    sites.append(("read_file.enabled",) + _limit_compare(rf, "max_file_size", other_is_const=True))
    sites.append(("read_file.reject",) + _limit_compare(rf, "max_file_size", other_is_const=False))
    sites.append(("7z.reject",) + _limit_compare(f7z, "MAX_7Z_FILE_SIZE"))
    sites.append(("zip.skip",) + _limit_compare(_find_func(arel, "_extract_from_zip_optimized"), "max_memory_size"))
    sites.append(("tar.skip",) + _limit_compare(_find_func(arel, "_extract_from_tar_optimized"), "max_memory_size"))
    sites.append(("7z.skip",) + _limit_compare(f7z, "max_memory_size"))
    sites.append(("entry.skip",) + _limit_compare(_find_func(arel, "_process_archive_entry"), "MAX_ARCHIVE_FILE_SIZE"))
    L.append("/-- (site, left role, comparison operator, right role) of every explicit-limit test, normalised to `size OP limit` "
             "(`limit OP 0` for the enabling test) whatever the operand order / local names in the source -/")
    L.append("def limitSites : List (String × String × String × String) := " + lean_list(
        f"({lean_str(a)}, {lean_str(b)}, {lean_str(c)}, {lean_str(d)})" for a, b, c, d in sites) + "\n")

    # ---- TAR member loop: which member kinds get past the type guard; order of the size test and the read
    ftar = _find_func(arel, "_extract_from_tar_optimized")
    tar_accept, tar_events, tar_bypass = _tar_loop_facts(ftar, notes)
    L.append("/-- (member kind, does it get past the member-type guard(s) of the TAR member loop) — the guard expressions of the "
             "current source evaluated on a real tarfile.TarInfo of every type -/")
    L.append("def tarGuardAccepts : List (String × Bool) := " + lean_list(
        f"({lean_str(k)}, {'true' if v else 'false'})" for k, v in tar_accept))
    L.append("/-- type-guard / size-test / extractfile / read inside the TAR member loop, in source order -/")
    L.append("def tarLoopEvents : List String := " + lean_list(lean_str(e) for e in tar_events))
    L.append("/-- calls of TarFile.extract / extractall in _extract_from_tar_optimized (they would bypass the loop's tests) -/")
    L.append("def tarBypassCalls : List String := " + lean_list(lean_str(e) for e in tar_bypass) + "\n")

    # ---- ZIP / TAR: the payload of the entry whose size was tested is read through THAT entry (not through its name)
    zrb, zsites = _read_origin(_find_func(arel, "_extract_from_zip_optimized"), ("read", "open", "extract"))
    trb, tsites = _read_origin(ftar, ("extractfile", "extract"))
    L.append("/-- how the ZIP member loop names the member it reads (`zf.read(X)` / `zf.open(X)`): \"handle\" = X is the ZipInfo the "
             "loop got from infolist() and tested, \"name\" = a name (resolves to the LAST entry carrying it), \"unknown\" -/")
    L.append(f"def zipReadBy : String := {lean_str(zrb)}")
    L.append("def zipReadSites : List String := " + lean_list(lean_str(x) for x in zsites))
    L.append("/-- the same for `tf.extractfile(X)` in the TAR member loop -/")
    L.append(f"def tarReadBy : String := {lean_str(trb)}")
    L.append("def tarReadSites : List String := " + lean_list(lean_str(x) for x in tsites) + "\n")

    # ---- 7z: the output bound on its way through a folder's coder chain
    L.append("/-- (site, hands `max_output` on unchanged) from extractall down to the lzma decoder calls -/")
    L.append("def szStageBoundSites : List (String × Bool) := " + lean_list(
        f"({lean_str(a)}, {'true' if b else 'false'})" for a, b in _sz_bound_sites(EX + "util/sevenzip.py")) + "\n")

    # does the 7z path hand the filtered member list to the extraction step?
    f7 = _find_func(arel, "_extract_from_7z_optimized")
    ex_calls = [n for n in ast.walk(f7) if isinstance(n, ast.Call) and isinstance(n.func, ast.Attribute) and n.func.attr == "extractall"]
    kw = sorted({k.arg for c in ex_calls for k in c.keywords if k.arg})
    L.append("/-- keyword arguments of the `extractall(...)` call in _extract_from_7z_optimized -/")
    L.append("def sevenZipExtractallKeywords : List String := " + lean_list(lean_str(k) for k in kw) + "\n")

    # ---- XML parse sites
    xs, imps = _xml_sites()
    L.append("/-- (file, function, call, module the receiver is imported from) of every XML parser entry point called -/")
    L.append("def xmlParseSites : List (String × String × String × String) := " + lean_list(
        f"({lean_str(a)}, {lean_str(b)}, {lean_str(c)}, {lean_str(d)})" for a, b, c, d in xs) + "\n")
    L.append("/-- (file, local name, imported object) of every import from an XML package -/")
    L.append("def xmlImports : List (String × String × String) := " + lean_list(
        f"({lean_str(a)}, {lean_str(b)}, {lean_str(c)})" for a, b, c in imps) + "\n")

    L.append("/-- translator cross-check notes (runtime value vs. source literal); must be empty -/")
    L.append("def notes : List String := " + lean_list(lean_str(n) for n in notes) + "\n")
    L.append("end S2T.Gen.C12Consts\n")
    return "\n".join(L)


# ---------------------------------------------------------------- XML parse chains (which parser sees a part, in which order)
_TRANSFORMS = {"lstrip", "strip", "rstrip", "removeprefix", "removesuffix", "replace", "sub", "subn", "split", "rsplit",
               "partition", "rpartition", "decode", "encode", "translate", "join", "lower", "upper", "splitlines"}
_FORBID_KW = ("forbid_dtd", "forbid_entities", "forbid_external")


def _callable_defaults(module, attr, notes, where):
    """defaults of the forbid_* parameters of <module>.<attr>, from the signature of the INSTALLED object"""
    import importlib
    try:
        obj = importlib.import_module(module)
    except Exception:
        head, _, tail = module.rpartition(".")
        try:
            obj = getattr(importlib.import_module(head), tail)
        except Exception as e:
            notes.append(f"{where}: cannot import {module}: {e}")
            return None
    for a in attr.split("."):
        obj = getattr(obj, a, None)
        if obj is None:
            notes.append(f"{where}: {module} has no attribute {attr}")
            return None
    try:
        sig = inspect.signature(obj)
    except (TypeError, ValueError):
        notes.append(f"{where}: no signature for {module}.{attr}")
        return None
    return {k: sig.parameters[k].default for k in _FORBID_KW if k in sig.parameters}, set(sig.parameters)


def _stage_of(rel, stack, call, call_src, module, bound, func_node, notes):
    """(module, forbid_entities, forbid_dtd, strips, fallback, catches ParseError, catches forbidden, source position)"""
    where = f"{rel}:{'.'.join(stack) or '<module>'}:{call.lineno}"
    defused = module.split(".")[0] == "defusedxml"
    forbid = {"forbid_dtd": False, "forbid_entities": False, "forbid_external": False}
    if defused:
        # `ET.fromstring` with ET = defusedxml.ElementTree  ->  module defusedxml.ElementTree, attribute fromstring;
        # `fromstring` imported by name -> module defusedxml.ElementTree.fromstring, no attribute
        attr = call_src.split(".", 1)[1] if "." in call_src else ""
        got = _callable_defaults(module, attr, notes, where) if attr else _callable_defaults(module.rpartition(".")[0], module.rpartition(".")[2], notes, where)
        if got:
            defaults, params = got
            forbid.update({k: v is True for k, v in defaults.items()})
            for kw in call.keywords:
                if kw.arg is None:
                    notes.append(f"{where}: **kwargs at an XML parser call")
                    forbid = dict.fromkeys(forbid, False)
                elif kw.arg in _FORBID_KW:
                    if isinstance(kw.value, ast.Constant) and isinstance(kw.value.value, bool):
                        forbid[kw.arg] = kw.value.value
                    else:                       # decided at run time: the worst case counts
                        forbid[kw.arg] = False
                elif kw.arg == "parser" and not (isinstance(kw.value, ast.Constant) and kw.value.value is None):
                    forbid = dict.fromkeys(forbid, False)       # a caller-supplied parser replaces the defused one
            if len(call.args) > 1 and call_src.rsplit(".", 1)[-1] in ("parse", "iterparse", "fromstring", "XML"):
                # positional parameters after the data: parse(source, parser, …) / fromstring(text, forbid_dtd, …)
                forbid = dict.fromkeys(forbid, False) if any(not isinstance(a, ast.Constant) for a in call.args[1:]) else forbid
    # --- is the data handed over the raw member, or transformed first?
    assigned = {}
    for n in ast.walk(func_node):
        if isinstance(n, ast.Assign) and len(n.targets) == 1 and isinstance(n.targets[0], ast.Name):
            assigned.setdefault(n.targets[0].id, []).append(n.value)

    def transformed(e, depth=0):
        for n in ast.walk(e):
            if isinstance(n, ast.Call) and isinstance(n.func, ast.Attribute) and n.func.attr in _TRANSFORMS:
                return True
            if isinstance(n, ast.Subscript) and isinstance(n.slice, ast.Slice):
                return True
            if isinstance(n, ast.Name) and depth < 4 and any(transformed(v, depth + 1) for v in assigned.get(n.id, [])):
                return True
        return False
    data_args = list(call.args[:1]) + [k.value for k in call.keywords if k.arg in ("text", "source", "string", "data")]
    if not data_args:       # a parser OBJECT is built here; its data arrives through .feed(…) somewhere in the function
        data_args = [c.args[0] for c in ast.walk(func_node) if isinstance(c, ast.Call) and isinstance(c.func, ast.Attribute)
                     and c.func.attr == "feed" and c.args]
    strips = any(transformed(a) for a in data_args)
    # --- inside an `except` handler?  (innermost handler of the function that contains the call)
    handler = None
    for n in ast.walk(func_node):
        if isinstance(n, ast.ExceptHandler) and any(c is call for c in ast.walk(n)):
            if handler is None or any(h is n for h in ast.walk(handler)):
                handler = n
    catches_pe = catches_fb = False
    if handler is not None:
        if handler.type is None:
            catches_pe = catches_fb = True
        else:
            try:
                import importlib
                import defusedxml
                from xml.etree.ElementTree import ParseError
                mod = importlib.import_module(rel[:-3].replace("/", "."))
                types = eval(compile(ast.Expression(handler.type), "<except>", "eval"), dict(vars(mod)))
                catches_pe, catches_fb = issubclass(ParseError, types), issubclass(defusedxml.EntitiesForbidden, types)
            except Exception as e:
                notes.append(f"{where}: cannot evaluate the exception classes of the enclosing handler: {e}")
                catches_pe = catches_fb = True
    return (module, forbid["forbid_entities"], forbid["forbid_dtd"], strips, handler is not None, catches_pe, catches_fb,
            (call.lineno, call.col_offset))


def _xml_chains(notes):
    """[(file, function, [stage …])]: per function that calls an XML parser entry point, its parser calls in source
    order, split into chains at every call that is not inside an `except` handler"""
    calls = []
    _xml_sites(calls)
    by_func = {}
    for rel, stack, call, call_src, module, bound in calls:
        by_func.setdefault((rel, tuple(stack)), []).append((call, call_src, module, bound))
    chains = []
    for (rel, stack), cs in sorted(by_func.items()):
        func_node = parse(rel)
        # the innermost enclosing function / class body of the first call (same tree walk as _xml_sites)
        tree = func_node
        for name in stack:
            for ch in ast.walk(tree):
                if isinstance(ch, (ast.FunctionDef, ast.AsyncFunctionDef, ast.ClassDef)) and ch.name == name and ch is not tree:
                    tree = ch
                    break
        # the call nodes come from another parse of the same file: locate them by position
        pos = {(c.lineno, c.col_offset) for c, _, _, _ in cs}
        local = {(n.lineno, n.col_offset): n for n in ast.walk(tree) if isinstance(n, ast.Call) and (n.lineno, n.col_offset) in pos}
        stages = []
        for c, call_src, module, bound in cs:
            node = local.get((c.lineno, c.col_offset), c)
            stages.append(_stage_of(rel, list(stack), node, call_src, module, bound, tree, notes))
        stages.sort(key=lambda s: s[-1])
        cur = []
        for s in stages:
            if cur and not s[4]:
                chains.append((rel, ".".join(stack) or "<module>", cur))
                cur = []
            cur.append(s[:-1])
        if cur:
            chains.append((rel, ".".join(stack) or "<module>", cur))
    return chains


@generator("C12Xml")
def gen_c12_xml():
    notes = []
    chains = _xml_chains(notes)
    L = [HEADER.format(src="every module of the package (AST: XML parser calls, their keywords, enclosing except handlers; "
                           "runtime: forbid_* defaults of the installed defusedxml, exception hierarchy)")]
    L.append("namespace S2T.Gen.C12Xml\n")
    L.append("/-- per parsing function: its XML parser calls in source order, a new chain at every call outside an `except` handler.\n"
             "    stage = (module the parser comes from, refuses <!ENTITY, refuses DOCTYPE, is fed transformed (e.g. stripped) data,\n"
             "    runs inside an except handler, that handler catches ParseError, … catches defusedxml's exceptions) -/")
    b = lambda v: "true" if v else "false"
    L.append("def xmlParseChains : List (String × String × List (String × Bool × Bool × Bool × Bool × Bool × Bool)) := " + lean_list(
        f"({lean_str(rel)}, {lean_str(fn)}, [" + ", ".join(
            f"({lean_str(m)}, {b(fe)}, {b(fd)}, {b(st)}, {b(fb)}, {b(cp)}, {b(cf)})" for m, fe, fd, st, fb, cp, cf in stages) + "])"
        for rel, fn, stages in chains) + "\n")
    import defusedxml
    L.append(f"def defusedxmlVersion : String := {lean_str(defusedxml.__version__)}")
    L.append("/-- constructs the chain reader could not interpret (worst case assumed); must be empty -/")
    L.append("def xmlChainNotes : List String := " + lean_list(lean_str(n) for n in notes) + "\n")
    L.append("end S2T.Gen.C12Xml\n")
    return "\n".join(L)
