"""Function-level translator, sheet shaping code (extends tools/gen/pyfun_paths.py WITHOUT editing it or pyfun.py).

`SheetFuncTr(FuncTrX)` / `ModTrS(ModTrX)` add, construct by construct (tried first; everything else falls through to
pyfun_paths.py / pyfun.py unchanged, and the modules of those files are not touched):

| Python | Lean |
|---|---|
| annotations `list[T]`, `List[T]`, `tuple[A, B]`, `dict[str, V]`, `Any`, `ET.Element`, … (recursive, per-module `annot` table) | `List T`, `A × B`, association list, `S2T.Tables.Val` (the cell-value type of the hand models), `S2T.Tables.Node` |
| `None` / `str` / `int` / `bool` where an `Any` is expected; `x is None` on an `Any` | `Val.none`, `Val.str s`, `Val.int i`, `Val.bool b`; `(x == Val.none)` |
| `isinstance(x, str)`, `isinstance(x, (bool, int, float, str))`, `isinstance(x, _DATETIME_TYPES)` on an `Any` | `(Sheets.isInstance x [Cls.str, …])` (class tags read from the RUNTIME value of the second argument) |
| method call on an `Any` local that an `isinstance(x, str)` / `isinstance(x, <datetime classes>)` test dominates | `(← Sheets.asStr x)` / `(← Sheets.dtIso x)` — raise the marker `notThatType` (like `unwrap`) |
| `x = []` without annotation | `let mut x : List T := []`, `T` = element type of the first `x.append(e)` / `x.extend(e)` (unresolved: note) |
| `xs.extend(e)`, `l + m`, `l * n`, `[e] * n`, `tuple(l)`, `l + (None,) * n` (a tuple literal where the annotations read tuples as sequences), `xs[i] = e` on a local list | `xs := xs ++ e`, `l ++ m`, `Py.repeatList l n`, `xs := (← Py.setItem xs i e)` |
| a list mutated in place that is stored elsewhere (`rows.append(row)`, `[row] * n`, `obj.f = row`) | accepted iff every in-place mutation of the name precedes the store inside the block that binds the name to a fresh list (then the stored object is never mutated again: value semantics are exact); otherwise a note |
| `obj = Cls()`, `obj.f = e` on a LOCAL record, `obj.f, x = e` | `let mut obj := { … defaults … }` (`default_factory=list` ↦ `[]`), `obj := { obj with f := e }`, through a temporary |
| `for i in range(n)`, `range(a, b)`, `range(a, b, ±k)`; `for i, v in enumerate(xs)`; a loop variable name re-used by a later loop | `Py.rangeI`, `Py.rangeStep`, `Sheets.enumerate` |
| `[e for … in … if c]`, generator arguments, `{k: v for …}` with tuple targets, `range` / `enumerate` sources, elements / conditions that may raise | `List.map` / `List.filter`, or `(← List.mapM …)` / `(← Sheets.filterMapM …)`; `Sheets.dictOfPairs` |
| `any(…)` / `all(…)` whose body may raise | `(← List.anyM …)` / `(← List.allM …)` (short-circuit like Python) |
| `max(a, b)`, `min(a, b)`, `max(gen)` (ValueError on an empty sequence), `sum(gen)` | `max a b`, `(← Sheets.maxOf l)`, `Sheets.sumInt l` |
| `elem.get(k, d)`, `elem.findall("p:tag", NS)` (path literal ↦ the tag an existing generator resolved with the runtime `NS`) | `Sheets.elemGetD`, `S2T.Tables.findall <generated tag>` |
| `s.strip()`, `s.rjust(n)`, `str(x)` of an `Any`, f-string with an `int` placeholder | `S2T.Tables.pyStrip`, `Sheets.rjust`, `env.strOf x` (parameter), `Sheets.intStr` |
| calls of module functions that stay hand-modelled (`callouts` of the module) | `(← env.<field> args)` — universally quantified parameters |
| `ws.iter_rows(values_only=True)` | record field (`Worksheet.rows`) |
| `while TEST: BODY` (no break / continue / return; one top-level `xs.pop()` in BODY is the only change of the list `xs`) | `Sheets.whileM (fun st => xs.length) test body st`: well-founded recursion on the measure, NO fuel; an iteration that does not decrease the measure raises the marker `whileNoProgress`, so an equivalence theorem can only hold if the measure really decreases |

Like pyfun.py: nothing is approximated — an unknown construct appends to `notes`.
"""
from __future__ import annotations

import ast

from translate import chars, fresh_import, generator, parse
from gen import pyfun, pyfun_paths
from gen.pyfun import (BOOL, INT, MODULES, NONE, RECORDS, STR, UNK, Dict, FuncTr, Lst, Opt, Rec, Tup,
                       Unsupported, dotted, ident, lt)
from gen.pyfun_paths import FuncTrX, ModTrX, _parents

EX = "sharepoint2text/parsing/extractors/"

# ----------------------------------------------------------------------------- tables (additive, names prefixed `Sh`)
VAL, NODE = Rec("ShVal"), Rec("ShNode")
ODSCTX, ANNOTN, IMAGE, ODSSHEET, WS = Rec("ShOdsCtx"), Rec("ShAnnot"), Rec("ShImage"), Rec("ShOdsSheet"), Rec("ShWorksheet")
XLSXSHEET = Rec("ShXlsxSheet")

RECORDS.update({
    # a spreadsheet cell value / a Python object as the hand models of C13 see it
    "ShVal": dict(lean="S2T.Tables.Val", attrs={}, methods={}),
    # xml.etree.ElementTree.Element = the node type of the C13 models (tag, attrib, text, children, tail)
    "ShNode": dict(lean="S2T.Tables.Node", attrs={}, methods={}),
    "ShOdsCtx": dict(lean="S2T.Py.Sheets.OdsCtx", attrs={}, methods={}),
    "ShAnnot": dict(lean="S2T.Py.Sheets.Annot", attrs={}, methods={}),
    "ShImage": dict(lean="S2T.Py.Sheets.Image", attrs={}, methods={}),
    "ShOdsSheet": dict(lean="S2T.Py.Sheets.OdsSheet", pyclass="OdsSheet", settable=True,
                       ctor=["name", "data", "text", "annotations", "images"],
                       attrs={"name": ("name", STR, False), "data": ("data", Lst(Lst(VAL)), False),
                              "text": ("text", STR, False), "annotations": ("annotations", Lst(ANNOTN), False),
                              "images": ("images", Lst(IMAGE), False)}, methods={}),
    "ShXlsxSheet": dict(lean="S2T.Py.Sheets.XlsxSheet", pyclass="XlsxSheet", ctor=["name", "data", "text", "images"],
                        attrs={"name": ("name", STR, False), "data": ("data", Lst(Lst(VAL)), False),
                               "text": ("text", STR, False), "images": ("images", Lst(IMAGE), False)}, methods={}),
    # openpyxl worksheet: the one thing `_read_sheet_data` asks it
    "ShWorksheet": dict(lean="S2T.Py.Sheets.Worksheet", attrs={}, methods={},
                        kwmethods={("iter_rows", (("values_only", True),)): ("rows", Lst(Lst(VAL)))}),
})

# classes an `isinstance` test on an `Any` may name: runtime class -> tag of S2T.Py.Sheets.Cls
_CLS_TAGS = {"builtins.str": "str", "builtins.bool": "bool", "builtins.int": "int", "builtins.float": "float",
             "datetime.datetime": "datetime", "datetime.date": "date", "datetime.time": "time"}
_DT_TAGS = {"datetime", "date", "time"}

_ODS = "S2T.Gen.C02Sheets.ods"
SMODULES = {
    "PyOdsSheet": dict(
        src=EX + "open_office/ods_extractor.py", pymod="sharepoint2text.parsing.extractors.open_office.ods_extractor",
        imports=["S2T.Py.Sheets", "S2T.Gen.Tables", "S2T.Gen.C02Sheets"], uses=[], envtype="S2T.Py.Sheets.OdsEnv",
        annot={"Any": VAL, "typing.Any": VAL, "ET.Element": NODE, "_OdsContext": ODSCTX, "OdsSheet": ODSSHEET},
        # module constants: the definitions tools/gen/c02_sheets.py emits from the runtime values (cross-checked there)
        consts={"_ATTR_TABLE_NAME": (_ODS + ".nameAttr", STR), "_ATTR_TABLE_REPEAT_ROWS": (_ODS + ".repRows", STR),
                "_ATTR_TABLE_REPEAT_COLS": (_ODS + ".repCols", STR)},
        # `elem.findall(<literal>, NS)`: the tag tools/gen/tables.py resolved from the same literal with the runtime NS
        paths={"table:table-row": "S2T.Gen.Tables.ods.row", "table:table-cell": "S2T.Gen.Tables.ods.cell"}, nsname="NS",
        # functions that stay hand-modelled / parameters: name -> (env field, argument types, result, may raise)
        callouts={"_extract_cell_value": ("extractCellValue", [NODE], Tup(VAL, STR), True),
                  "_extract_annotations": ("extractAnnotations", [NODE], Lst(ANNOTN), True),
                  "_extract_images": ("extractImages", [ODSCTX, NODE, INT], Tup(Lst(IMAGE), INT), True)},
        funcs=[("_extract_sheet", {})]),
    "PyXlsxSheet": dict(
        src=EX + "ms_modern/xlsx_extractor.py", pymod="sharepoint2text.parsing.extractors.ms_modern.xlsx_extractor",
        imports=["S2T.Py.Sheets"], uses=[], envtype="S2T.Py.Sheets.XlsxEnv", consts={},
        annot={"Any": VAL, "typing.Any": VAL, "Worksheet": WS, "tuple": Lst(VAL), "XlsxSheet": XLSXSHEET},
        callouts={"_format_value_for_display": ("formatValue", [VAL], STR, True)},
        funcs=[("_get_cell_value", {}), ("_is_cell_non_empty", {}), ("_is_meaningful_value", {}),
               ("_find_last_data_column", {}), ("_find_last_data_row", {}), ("_is_table_name_row", {}),
               ("_read_sheet_data", {}), ("_format_sheet_as_text", {}),
               # the model's hypothesis: an openpyxl workbook is a mapping sheet name -> worksheet (`wb[name]`, KeyError)
               ("_read_content_from_workbook", {"types": {"wb": Dict(STR, WS)}})]),
}
MODULES.update(SMODULES)

INPLACE = {"append", "extend", "pop"}
SAFE_READ_CALLS = {"len", "bool", "list", "tuple", "max", "min", "any", "all", "sum", "enumerate", "sorted"}


def _is_none(node):
    return isinstance(node, ast.Constant) and node.value is None


# ----------------------------------------------------------------------------- one function
class SheetFuncTr(FuncTrX):
    def __init__(self, mod, node, opts, qualname=None):
        super().__init__(mod, node, opts, qualname=qualname)
        self.pending: dict = {}      # placeholder key -> [local name, resolved type or None, node]
        self.pend_of: dict = {}      # local name -> placeholder key (while unresolved)
        self.wcount = 0

    # ---- types from annotations (recursive)
    def annot(self, node):
        if node is None:
            return None
        table = self.mod.cfg.get("annot", {})
        txt = ast.unparse(node)
        if txt in table:
            return table[txt]
        if isinstance(node, ast.Subscript):
            head = ast.unparse(node.value)
            args = list(node.slice.elts) if isinstance(node.slice, ast.Tuple) else [node.slice]
            if head in ("list", "List", "typing.List") and len(args) == 1:
                t = self.annot(args[0])
                return Lst(t) if t is not None else None
            if head in ("tuple", "Tuple", "typing.Tuple") and args and not any(
                    isinstance(a, ast.Constant) and a.value is Ellipsis for a in args):
                ts = [self.annot(a) for a in args]
                return Tup(*ts) if all(t is not None for t in ts) else None
            if head in ("dict", "Dict", "typing.Dict") and len(args) == 2:
                k, v = self.annot(args[0]), self.annot(args[1])
                return Dict(k, v) if k == STR and v is not None else None
        return super().annot(node)

    # ---- narrowing: `isinstance(x, str)` / `isinstance(x, <datetime classes>)` on an `Any` local
    def isinstance_tags(self, e):
        """`isinstance(<name of an Any local>, <classes>)` -> (name, [tags]) with the tags read from the RUNTIME value
        of the second argument; None if `e` is not such a test"""
        if not (isinstance(e, ast.Call) and isinstance(e.func, ast.Name) and e.func.id == "isinstance"
                and "isinstance" not in self.vars and len(e.args) == 2 and not e.keywords):
            return None
        x = e.args[0]
        if not (isinstance(x, ast.Name) and self.vars.get(x.id) == VAL):
            return None
        try:
            val = eval(compile(ast.Expression(body=e.args[1]), "<isinstance>", "eval"), dict(vars(self.mod.pymod)))
        except Exception as exc:  # not evaluable in the module namespace
            raise Unsupported(f"isinstance(): the class expression {ast.unparse(e.args[1])} is not a module-level value ({exc})")
        if any(isinstance(n, ast.Name) and n.id in self.vars for n in ast.walk(e.args[1])):
            raise Unsupported("isinstance() with a class expression that mentions a local")
        classes = list(val) if isinstance(val, tuple) else [val]
        tags = []
        for c in classes:
            key = f"{getattr(c, '__module__', '?')}.{getattr(c, '__qualname__', '?')}"
            if not isinstance(c, type) or key not in _CLS_TAGS:
                raise Unsupported(f"isinstance() against {c!r}, which has no class tag in S2T.Py.Sheets.Cls")
            tags.append(_CLS_TAGS[key])
        return x.id, tags

    def facts(self, e, sense: bool) -> set:
        try:
            it = self.isinstance_tags(e)
        except Unsupported:
            it = None
        if it is not None:
            name, tags = it
            if sense and tags == ["str"]:
                return {f"{name}:str"}
            if sense and tags and set(tags) <= _DT_TAGS:
                return {f"{name}:dt"}
            return set()
        return super().facts(e, sense)

    def kill(self, name):
        for s in self.narrow:
            s.discard(name)
            for k in [k for k in s if k.startswith(name + ":")]:
                s.discard(k)

    # ---- coercions into `Any` (Val), `None` where a Val is expected
    def coercion(self, t, want):
        if t == want:
            return ""
        if want == VAL:
            if t == STR: return "S2T.Tables.Val.str"
            if t == INT: return "S2T.Tables.Val.int"
            if t == BOOL: return "S2T.Tables.Val.bool"
            return None
        if t[0] == "tuple" and want[0] == "tuple" and len(t[1]) == len(want[1]) == 2:
            a, b = self.coercion(t[1][0], want[1][0]), self.coercion(t[1][1], want[1][1])
            if a is None or b is None:
                return None
            if a == "" and b == "":
                return ""
            return f"(fun py_p => ({a or 'id'} py_p.1, {b or 'id'} py_p.2))"
        if t[0] == "dict" and want[0] == "dict" and t[1] == want[1]:
            inner = self.coercion(t[2], want[2])
            if inner is None:
                return None
            return "" if inner == "" else f"(List.map (fun py_kv => (py_kv.1, {inner} py_kv.2)))"
        return super().coercion(t, want)

    def coerce(self, code, t, want, node):
        if want is not None and t != want and want != UNK and t != UNK:
            if t == NONE and want == VAL:
                return "S2T.Tables.Val.none"
            f = self.coercion(t, want)
            if f is not None:
                return code if f == "" else f"({f} {code})"
        return super().coerce(code, t, want, node)

    def unify2(self, a, b):
        if a == b: return a
        if a == NONE and b == VAL or b == NONE and a == VAL: return VAL
        if a == VAL and self.coercion(b, VAL) is not None: return VAL
        if b == VAL and self.coercion(a, VAL) is not None: return VAL
        return pyfun.unify(a, b)

    def expr_want(self, node, want):
        """translate `node` where a value of type `want` is expected -> (code, eff); literals are typed by the
        expectation (`None` as an `Any`, `[]` at any list type, tuples / lists element-wise)"""
        if want is None or want == UNK:
            c, t, eff = self.expr(node)
            return c, eff
        if isinstance(node, ast.Tuple) and want[0] == "tuple" and len(want[1]) == len(node.elts) \
                and not any(isinstance(x, ast.Starred) for x in node.elts):
            parts = [self.expr_want(x, w) for x, w in zip(node.elts, want[1])]
            return "(" + ", ".join(p[0] for p in parts) + ")", any(p[1] for p in parts)
        if isinstance(node, (ast.List, ast.Tuple)) and want[0] == "list" \
                and not any(isinstance(x, ast.Starred) for x in node.elts):
            # a list literal — or a tuple literal where the module's annotations read tuples as sequences
            # (`"tuple": List Val`: an openpyxl row) — typed by the expectation
            parts = [self.expr_want(x, want[1]) for x in node.elts]
            return "[" + ", ".join(p[0] for p in parts) + "]", any(p[1] for p in parts)
        if isinstance(node, ast.BinOp) and isinstance(node.op, ast.Mult) and want[0] == "list":
            for seq, cnt in ((node.left, node.right), (node.right, node.left)):
                if isinstance(seq, (ast.List, ast.Tuple)):
                    a, ea = self.expr_want(seq, want)
                    snap = self.snapshot()
                    b, tb, eb = self.expr(cnt)
                    if tb == INT:
                        return f"(S2T.Py.repeatList {a} {b})", ea or eb
                    self.restore(snap)
        c, t, eff = self.expr(node)
        return self.coerce(c, t, want, node), eff

    # ---- analysis: in-place mutated locals and the alias discipline
    def _store_roots(self, st):
        """names whose OBJECT a statement mutates in place: [(name, kind)]"""
        out = []
        if isinstance(st, ast.Expr) and isinstance(st.value, ast.Call) and isinstance(st.value.func, ast.Attribute) \
                and st.value.func.attr in INPLACE and isinstance(st.value.func.value, ast.Name):
            out.append(st.value.func.value.id)
        tgts = []
        if isinstance(st, ast.Assign):
            tgts = list(st.targets)
        elif isinstance(st, (ast.AugAssign, ast.AnnAssign)):
            tgts = [st.target]
        flat = []
        for t in tgts:
            flat += list(t.elts) if isinstance(t, (ast.Tuple, ast.List)) else [t]
        for t in flat:
            if isinstance(t, (ast.Subscript, ast.Attribute)) and isinstance(t.value, ast.Name):
                out.append(t.value.id)
        return out

    def analyse(self):
        FuncTr.analyse(self)       # assignment counts; the alias rules of pyfun_paths.py are replaced by the ones below
        node = self.node
        par = _parents(node)
        params = {a.arg for a in list(node.args.args) + list(node.args.kwonlyargs)}
        for n in ast.walk(node):
            if isinstance(n, ast.Name) and isinstance(n.ctx, ast.Store) and n.id in params:
                self.mut.add(n.id)      # an assigned parameter is shadowed by a mutable local
        stmts = [n for n in ast.walk(node) if isinstance(n, ast.stmt)]
        muts: dict = {}
        for st in stmts:
            for v in self._store_roots(st):
                muts.setdefault(v, []).append(st)
        self.inplace = set(muts)

        def block_of(st):
            """(statement list containing st, index)"""
            p = par.get(st)
            for fld in ("body", "orelse", "finalbody"):
                lst = getattr(p, fld, None)
                if isinstance(lst, list) and st in lst:
                    return lst, lst.index(st)
            for h in getattr(p, "handlers", []) or []:
                if st is h:
                    return block_of(p)
            return None, -1

        def top_in(st, block):
            """index in `block` of the statement of `block` that contains `st` (None: not inside)"""
            q = st
            while q is not None:
                if q in block:
                    return block.index(q)
                q = par.get(q)
            return None

        def stmt_of(n):
            while n is not None and not isinstance(n, ast.stmt):
                n = par.get(n)
            return n

        for v in sorted(muts):
            if v in params:
                self.note(node, f"in-place mutation of the parameter `{v}` (visible to the caller)")
                continue
            self.mut.add(v)
            binds = [st for st in stmts if isinstance(st, (ast.Assign, ast.AnnAssign)) and st.value is not None and any(
                isinstance(t, ast.Name) and t.id == v for t in (st.targets if isinstance(st, ast.Assign) else [st.target]))]
            other = [n for n in ast.walk(node) if isinstance(n, ast.Name) and n.id == v and isinstance(n.ctx, ast.Store)
                     and not any(n in ast.walk(t) for b in binds for t in (b.targets if isinstance(b, ast.Assign) else [b.target]))]
            for b in binds:
                if not self.fresh_value(b.value):
                    self.note(b, f"`{v}` is mutated in place but bound to a value that may be shared ({ast.unparse(b.value)[:40]})")
            for n in other:
                holder = par.get(n)
                while holder is not None and not isinstance(holder, (ast.For, ast.comprehension, ast.stmt)):
                    holder = par.get(holder)
                body = holder.body if isinstance(holder, ast.For) else []
                if not isinstance(holder, (ast.For, ast.comprehension)) or any(m in ast.walk(s) for s in body for m in muts[v]):
                    self.note(n, f"`{v}` is mutated in place and also bound by {type(holder).__name__} (aliasing is not modelled)")
            # escapes: every use that may store the object somewhere
            escapes = []
            for n in ast.walk(node):
                if isinstance(n, ast.Name) and n.id == v and isinstance(n.ctx, ast.Load) and not self.safe_read(n, par, muts[v]):
                    escapes.append(n)
            if not escapes:
                continue
            if len(binds) != 1:
                self.note(escapes[0], f"in-place mutated `{v}` is stored elsewhere and bound {len(binds)} times "
                                      "(the store-after-last-mutation rule needs exactly one binding)")
                continue
            block, bi = block_of(binds[0])
            if block is None:
                self.note(binds[0], f"cannot locate the block binding `{v}`")
                continue
            last_mut = bi
            for m in muts[v]:
                k = top_in(m, block)
                if k is None or k <= bi:
                    self.note(m, f"in-place mutation of `{v}` outside / before the block statement that binds it, and `{v}` is stored elsewhere")
                    k = len(block)
                last_mut = max(last_mut, k)
            for n in escapes:
                k = top_in(stmt_of(n), block)
                if k is None or k <= last_mut:
                    self.note(n, f"in-place mutated `{v}` is stored elsewhere ({ast.unparse(stmt_of(n))[:50]}) before its "
                                 "last in-place mutation in the binding block (the stored object would change later: "
                                 "aliasing is not modelled)")

    def fresh_value(self, e):
        """an expression that evaluates to an object nothing else refers to"""
        if isinstance(e, (ast.List, ast.ListComp, ast.Dict, ast.DictComp)):
            return True
        if isinstance(e, ast.Call) and isinstance(e.func, ast.Name):
            if e.func.id in ("list", "sorted", "dict"):
                return True
            if any(cfg.get("pyclass") == e.func.id and "ctor" in cfg for cfg in RECORDS.values()):
                return True
        if isinstance(e, ast.Subscript) and isinstance(e.slice, ast.Slice):
            return True
        if isinstance(e, ast.BinOp) and isinstance(e.op, (ast.Add, ast.Mult)):
            return True
        return False

    def safe_read(self, n, par, mutations):
        """a Load of an in-place mutated name that cannot create a second reference to the object"""
        p = par.get(n)
        if isinstance(p, ast.Attribute) and p.value is n:
            return True                                     # receiver of a method call / attribute read or store
        if isinstance(p, ast.Subscript) and p.value is n:
            return True
        if isinstance(p, (ast.If, ast.While, ast.IfExp)) and p.test is n:
            return True
        if isinstance(p, (ast.BoolOp, ast.Compare)) or (isinstance(p, ast.UnaryOp) and isinstance(p.op, ast.Not)):
            return True
        if isinstance(p, ast.Call) and n in p.args:
            if isinstance(p.func, ast.Name) and p.func.id in SAFE_READ_CALLS and p.func.id not in self.vars:
                return True
            if isinstance(p.func, ast.Attribute) and p.func.attr == "join":
                return True
            if isinstance(p.func, ast.Attribute) and p.func.attr == "extend" and par.get(p) is not None \
                    and isinstance(par.get(p), ast.Expr):
                return True                                 # copies the elements
        if isinstance(p, (ast.For, ast.comprehension)) and p.iter is n:
            body = p.body if isinstance(p, ast.For) else []
            return not any(m in ast.walk(s) for s in body for m in mutations)
        if isinstance(p, ast.Return):
            return True
        if isinstance(p, ast.Tuple) and isinstance(par.get(p), ast.Return):
            return True
        return False

    # ---- expressions
    def _expr(self, e):
        r = self._expr_s(e)
        if r is not None:
            return r
        return super()._expr(e)

    def _expr_s(self, e):
        if isinstance(e, ast.JoinedStr) and any(isinstance(v, ast.FormattedValue) for v in e.values):
            parts, eff, special = [], False, False
            for v in e.values:
                if isinstance(v, ast.Constant) and isinstance(v.value, str):
                    parts.append(chars(v.value))
                elif isinstance(v, ast.FormattedValue) and v.conversion == -1 and v.format_spec is None:
                    c, t, ef = self.expr(v.value)
                    eff = eff or ef
                    if t == INT:
                        parts.append(f"(S2T.Py.Sheets.intStr {c})")
                        special = True
                    elif t == STR:
                        parts.append(c)
                    else:
                        raise Unsupported(f"f-string placeholder of type {lt(t)}")
                else:
                    raise Unsupported("f-string placeholder with a conversion / format spec")
            if special:
                return "(" + " ++ ".join(parts) + ")", STR, eff
            return None
        if isinstance(e, ast.IfExp):
            c, ec = self.cond(e.test)
            self.narrow.append(self.facts(e.test, True)); a, ta, ea = self.expr(e.body); self.narrow.pop()
            self.narrow.append(self.facts(e.test, False)); b, tb, eb = self.expr(e.orelse); self.narrow.pop()
            t = self.unify2(ta, tb)
            if t is None:
                raise Unsupported(f"conditional expression with branches of types {lt(ta)} / {lt(tb)}")
            a, b = self.coerce(a, ta, t, e), self.coerce(b, tb, t, e)
            if ea or eb:
                self.eff = True
                return f"(← (do if {c} then pure {a} else pure {b} : S2T.Py.M {lt(t)}))", t, True
            return f"(if {c} then {a} else {b})", t, ec
        if isinstance(e, ast.BinOp) and isinstance(e.op, ast.Add):
            snap = self.snapshot()
            a, ta, ea = self.expr(e.left)
            if ta[0] == "list" and ta[1] != UNK and (isinstance(e.right, (ast.List, ast.Tuple)) or (
                    isinstance(e.right, ast.BinOp) and isinstance(e.right.op, ast.Mult)
                    and any(isinstance(x, (ast.List, ast.Tuple)) for x in (e.right.left, e.right.right)))):
                b, eb = self.expr_want(e.right, ta)       # a literal sequence is typed by the left operand
                return f"({a} ++ {b})", ta, ea or eb
            b, tb, eb = self.expr(e.right)
            if ta[0] == "list" and tb[0] == "list" and UNK not in (ta[1], tb[1]):
                t = ta if ta == tb else None
                if t is None and self.coercion(tb, ta) is not None:
                    t, b = ta, self.coerce(b, tb, ta, e)
                elif t is None and self.coercion(ta, tb) is not None:
                    t, a = tb, self.coerce(a, ta, tb, e)
                if t is not None:
                    return f"({a} ++ {b})", t, ea or eb
            self.restore(snap)
            return None
        if isinstance(e, ast.BinOp) and isinstance(e.op, ast.Mult):
            snap = self.snapshot()
            a, ta, ea = self.expr(e.left)
            b, tb, eb = self.expr(e.right)
            if ta[0] == "list" and tb == INT:
                return f"(S2T.Py.repeatList {a} {b})", ta, ea or eb
            if ta == INT and tb[0] == "list":
                return f"(S2T.Py.repeatList {b} {a})", tb, ea or eb
            self.restore(snap)
            return None
        if isinstance(e, (ast.ListComp, ast.GeneratorExp)):
            return self.comprehension(e.elt, e.generators)
        if isinstance(e, ast.DictComp):
            pair = ast.copy_location(ast.Tuple(elts=[e.key, e.value], ctx=ast.Load()), e)
            ast.fix_missing_locations(pair)
            c, t, eff = self.comprehension(pair, e.generators)
            if t[0] != "list" or t[1][0] != "tuple" or t[1][1][0] != STR:
                raise Unsupported(f"dict comprehension with keys of type {lt(t[1][1][0]) if t[1][0] == 'tuple' else '?'}")
            return f"(S2T.Py.Sheets.dictOfPairs {c})", Dict(STR, t[1][1][1]), eff
        return None

    def snapshot(self):
        return super().snapshot() + (dict(self.pending), dict(self.pend_of))

    def restore(self, snap):
        super().restore(snap[:3])
        self.pending, self.pend_of = dict(snap[3]), dict(snap[4])

    # ---- comparisons: `x is None` on an `Any`
    def compare(self, e):
        if len(e.ops) == 1 and isinstance(e.ops[0], (ast.Is, ast.IsNot)) and _is_none(e.comparators[0]):
            snap = self.snapshot()
            a, ta, ea = self.expr(e.left)
            if ta == VAL:
                return (f"({a} == S2T.Tables.Val.none)" if isinstance(e.ops[0], ast.Is) else f"({a} != S2T.Tables.Val.none)"), ea
            self.restore(snap)
        return super().compare(e)

    def cond(self, e):
        it = self.isinstance_tags(e)
        if it is not None:
            name, tags = it
            return f"(S2T.Py.Sheets.isInstance {ident(name)} [" + ", ".join(f"S2T.Py.Sheets.Cls.{t}" for t in tags) + "])", False
        if isinstance(e, ast.Call) and isinstance(e.func, ast.Name) and e.func.id in ("any", "all") and len(e.args) == 1 \
                and isinstance(e.args[0], ast.GeneratorExp) and not e.keywords and e.func.id not in self.vars:
            c, t, eff = self.any_all(e.func.id, e.args[0])
            return c, eff
        return super().cond(e)

    # ---- iteration sources
    def iterable(self, node):
        if isinstance(node, ast.Call) and isinstance(node.func, ast.Name) and node.func.id not in self.vars and not node.keywords:
            n = node.func.id
            if n == "range" and 1 <= len(node.args) <= 3:
                parts = [self.expr(a) for a in node.args]
                if any(p[1] != INT for p in parts):
                    raise Unsupported("range() of non-ints")
                eff = any(p[2] for p in parts)
                if len(parts) == 1:
                    return f"(S2T.Py.rangeI (0 : Int) {parts[0][0]})", INT, eff
                if len(parts) == 2:
                    return f"(S2T.Py.rangeI {parts[0][0]} {parts[1][0]})", INT, eff
                k = node.args[2]
                kv = k.value if isinstance(k, ast.Constant) else (
                    -k.operand.value if isinstance(k, ast.UnaryOp) and isinstance(k.op, ast.USub) and isinstance(k.operand, ast.Constant) else None)
                if not isinstance(kv, int) or isinstance(kv, bool) or kv == 0:
                    raise Unsupported("range() with a step that is not a non-zero int literal")
                return f"(S2T.Py.rangeStep {parts[0][0]} {parts[1][0]} ({kv} : Int))", INT, eff
            if n == "enumerate" and len(node.args) == 1:
                c, t, eff = self.iterable(node.args[0])
                return f"(S2T.Py.Sheets.enumerate {c})", Tup(INT, t), eff
        return super().iterable(node)

    def bind_target(self, tg, tel):
        """loop / comprehension target -> (names, types, lean pattern with type)"""
        if isinstance(tg, ast.Name):
            return [tg.id], [tel], ("_" if tg.id == "_" else ident(tg.id)), tel
        if isinstance(tg, ast.Tuple) and tel[0] == "tuple" and len(tel[1]) == len(tg.elts) \
                and all(isinstance(x, ast.Name) for x in tg.elts):
            names = [x.id for x in tg.elts]
            return names, list(tel[1]), "(" + ", ".join("_" if n == "_" else ident(n) for n in names) + ")", tel
        raise Unsupported("loop / comprehension target shape")

    def comprehension(self, elt, gens):
        """`[elt for target in it if c …]` -> (lean list, Lst(type), eff).  Pure element and conditions: List.map /
        List.filter; otherwise `mapM` / `filterMapM` (conditions in order, the element only when they hold)"""
        if len(gens) != 1 or gens[0].is_async:
            raise Unsupported("comprehension shape (one `for` only)")
        gen = gens[0]
        it, tel, eff_it = self.iterable(gen.iter)
        names, types, pat, pty = self.bind_target(gen.target, tel)
        saved = {n: self.vars.get(n) for n in names}
        hidden = {n for n in names if n in self.declared}
        self.declared -= hidden            # inside the comprehension the name is the comprehension's own variable
        self.narrow.append(set())
        for n, tt in zip(names, types):
            if n != "_":
                self.vars[n] = tt
        eff0 = self.eff
        self.eff = False
        try:
            conds = []
            for c in gen.ifs:
                conds.append(self.cond(c))
                self.narrow[-1] |= self.facts(c, True)
            body, tb, eb = self.expr(elt)
            inner_eff = self.eff
        finally:
            self.narrow.pop()
            self.declared |= hidden
            for n in names:
                if saved[n] is None:
                    self.vars.pop(n, None)
                else:
                    self.vars[n] = saved[n]
        fn = f"fun ({pat} : {lt(pty)}) =>"
        if not (inner_eff or eb or any(c[1] for c in conds)):
            self.eff = eff0
            src = it
            if conds:
                src = f"(List.filter ({fn} " + " && ".join(c[0] for c in conds) + f") {it})"
            return f"(List.map ({fn} {body}) {src})", Lst(tb), eff_it
        self.eff = True
        if not conds:
            return f"(← List.mapM ({fn} (do pure {body} : S2T.Py.M {lt(tb)})) {it})", Lst(tb), True
        code = f"pure (some {body})"
        for c in reversed(conds):
            code = f"if {c[0]} then {code} else pure none"
        return (f"(← S2T.Py.Sheets.filterMapM ({fn} (do {code} : S2T.Py.M (Option {lt(tb)}))) {it})", Lst(tb), True)

    def any_all(self, which, g):
        if len(g.generators) != 1 or g.generators[0].is_async:
            raise Unsupported("generator expression shape")
        gen = g.generators[0]
        it, tel, eff_it = self.iterable(gen.iter)
        names, types, pat, pty = self.bind_target(gen.target, tel)
        saved = {n: self.vars.get(n) for n in names}
        hidden = {n for n in names if n in self.declared}
        self.declared -= hidden
        self.narrow.append(set())
        for n, tt in zip(names, types):
            if n != "_":
                self.vars[n] = tt
        eff0 = self.eff
        self.eff = False
        try:
            conds = []
            for c in gen.ifs:
                conds.append(self.cond(c))
                self.narrow[-1] |= self.facts(c, True)
            body, eb = self.cond(g.elt)
            inner_eff = self.eff
        finally:
            self.narrow.pop()
            self.declared |= hidden
            for n in names:
                if saved[n] is None:
                    self.vars.pop(n, None)
                else:
                    self.vars[n] = saved[n]
        fn = f"fun ({pat} : {lt(pty)}) =>"
        if not (inner_eff or eb or any(c[1] for c in conds)):
            self.eff = eff0
            for c in conds:
                body = f"(!{c[0]} || {body})" if which == "all" else f"({c[0]} && {body})"
            return f"(List.{which} {it} ({fn} {body}))", BOOL, eff_it
        self.eff = True
        code = f"pure {body}"
        for c in reversed(conds):
            code = f"if {c[0]} then {code} else pure {'true' if which == 'all' else 'false'}"
        return f"(← List.{which}M ({fn} (do {code} : S2T.Py.M Bool)) {it})", BOOL, True

    # ---- calls
    def _call_x(self, e):
        f = e.func
        if isinstance(f, ast.Name) and f.id not in self.vars and f.id not in self.localfns and f.id not in self.mod.sigs:
            n = f.id
            co = self.mod.cfg.get("callouts", {})
            if n in co:
                fld, pts, rt, raises = co[n]
                self.mod.check_callout(n)
                if e.keywords or len(e.args) != len(pts):
                    raise Unsupported(f"call of {n} with {len(e.args)} arguments / keywords")
                args, eff = [], False
                for a, pt in zip(e.args, pts):
                    c, ef = self.expr_want(a, pt)
                    args.append(c); eff = eff or ef
                self.env = True
                code = "(" + " ".join([f"env.{fld}"] + args) + ")"
                if raises:
                    self.eff = True
                    return f"(← {code})", rt, True
                return code, rt, eff
            if n == "isinstance":
                it = self.isinstance_tags(e)
                if it is None:
                    raise Unsupported("isinstance() on something that is not an `Any` local")
                c, _ = self.cond(e)
                return c, BOOL, False
            if n in ("max", "min") and len(e.args) == 2 and not e.keywords:
                a, ta, ea = self.expr(e.args[0])
                b, tb, eb = self.expr(e.args[1])
                if ta == INT and tb == INT:
                    return f"({n} {a} {b})", INT, ea or eb
                raise Unsupported(f"{n}() of {lt(ta)}, {lt(tb)}")
            if n in ("max", "min") and len(e.args) == 1 and not e.keywords:
                a = e.args[0]
                lst, tl, eff = self.comprehension(a.elt, a.generators) if isinstance(a, ast.GeneratorExp) else self.expr(a)
                if tl != Lst(INT):
                    raise Unsupported(f"{n}() of {lt(tl)}")
                self.eff = True
                return f"(← S2T.Py.Sheets.{n}Of {lst})", INT, True
            if n == "sum" and len(e.args) == 1 and not e.keywords:
                a = e.args[0]
                lst, tl, eff = self.comprehension(a.elt, a.generators) if isinstance(a, ast.GeneratorExp) else self.expr(a)
                if tl != Lst(INT):
                    raise Unsupported(f"sum() of {lt(tl)}")
                return f"(S2T.Py.Sheets.sumInt {lst})", INT, eff
            if n in ("any", "all") and len(e.args) == 1 and isinstance(e.args[0], ast.GeneratorExp) and not e.keywords:
                return self.any_all(n, e.args[0])
            if n == "str" and len(e.args) == 1 and not e.keywords:
                snap = self.snapshot()
                c, t, eff = self.expr(e.args[0])
                if t == VAL:
                    self.env = True
                    return f"(env.strOf {c})", STR, eff
                self.restore(snap)
            if n == "list" and len(e.args) == 1 and not e.keywords and isinstance(e.args[0], ast.GeneratorExp):
                return self.comprehension(e.args[0].elt, e.args[0].generators)
            if n == "tuple" and len(e.args) == 1 and not e.keywords:
                snap = self.snapshot()
                c, t, eff = self.expr(e.args[0])
                if t[0] == "list":
                    return c, t, eff        # an immutable copy: sequences are values
                self.restore(snap)
        return super()._call_x(e)

    def narrowed_receiver(self, f):
        """`x.m(...)` where x is an `Any` local narrowed by isinstance -> (code, type) of the receiver, else None"""
        if isinstance(f.value, ast.Name) and self.vars.get(f.value.id) == VAL:
            x = f.value.id
            if self.narrowed(f"{x}:str"):
                self.eff = True
                return f"(← S2T.Py.Sheets.asStr {ident(x)})", STR
            if self.narrowed(f"{x}:dt"):
                return ident(x), ("dtval",)
        return None

    def _method_x(self, e):
        f = e.func
        m = f.attr
        nr = self.narrowed_receiver(f)
        if nr is not None and nr[1] == ("dtval",):
            if m == "isoformat" and not e.args and not e.keywords:
                self.eff = True
                return f"(← S2T.Py.Sheets.dtIso {nr[0]})", STR, True
            raise Unsupported(f"method .{m} on a datetime-like object")
        if nr is not None:
            c, t, eff = nr[0], nr[1], True
        else:
            snap = self.snapshot()
            c, t, eff = self.expr(f.value)
        if t == STR and m == "strip" and not e.args and not e.keywords:
            return f"(S2T.Tables.pyStrip {c})", STR, eff
        if t == STR and m == "rjust" and len(e.args) == 1 and not e.keywords:
            w, tw, ew = self.expr(e.args[0])
            if tw == INT:
                return f"(S2T.Py.Sheets.rjust {c} {w})", STR, eff or ew
            raise Unsupported(f"rjust() with a width of type {lt(tw)}")
        if t == STR and m in ("startswith", "endswith") and len(e.args) == 1 and not e.keywords and nr is not None:
            a, ta, ea = self.expr(e.args[0])
            if ta == STR:
                return f"(S2T.Py.{m} {c} {a})", BOOL, True
        if t == STR and m == "join" and len(e.args) == 1 and not e.keywords and isinstance(e.args[0], ast.GeneratorExp):
            a, ta, ea = self.comprehension(e.args[0].elt, e.args[0].generators)
            if ta == Lst(STR):
                return f"(S2T.Py.strJoin {c} {a})", STR, eff or ea
            raise Unsupported(f"str.join of {lt(ta)}")
        if t == NODE and m == "get" and len(e.args) == 2 and not e.keywords:
            k, ek = self.expr_want(e.args[0], STR)
            d, ed = self.expr_want(e.args[1], STR)
            return f"(S2T.Py.Sheets.elemGetD {c} {k} {d})", STR, eff or ek or ed
        if t == NODE and m == "findall" and len(e.args) == 2 and not e.keywords:
            paths = self.mod.cfg.get("paths", {})
            a0, a1 = e.args
            if not (isinstance(a0, ast.Constant) and isinstance(a0.value, str) and a0.value in paths):
                raise Unsupported(f"findall({ast.unparse(a0)}, …): no generated tag for this path")
            if not (isinstance(a1, ast.Name) and a1.id == self.mod.cfg.get("nsname") and a1.id not in self.vars):
                raise Unsupported(f"findall(…, {ast.unparse(a1)}): the namespace map is not the module's {self.mod.cfg.get('nsname')}")
            self.mod.check_path(a0.value)
            return f"(S2T.Tables.findall {paths[a0.value]} {c})", Lst(NODE), eff
        if t[0] == "rec" and "kwmethods" in RECORDS[t[1]]:
            try:
                key = (m, tuple((k.arg, ast.literal_eval(k.value)) for k in e.keywords))
            except Exception:
                key = None
            if not e.args and key in RECORDS[t[1]]["kwmethods"]:
                fld, rt = RECORDS[t[1]]["kwmethods"][key]
                return f"{c}.{fld}", rt, eff
            raise Unsupported(f"method .{m}(…) of {lt(t)} with these arguments")
        if nr is not None:
            raise Unsupported(f"method .{m} on a str-narrowed `Any`")
        self.restore(snap)
        return super()._method_x(e)

    # ---- statements
    def resolve_pending(self, v, t, node):
        if v in self.pend_of and t != UNK:
            key = self.pend_of.pop(v)
            self.pending[key] = [self.pending[key][0], t, self.pending[key][2]]
            self.vars[v] = Lst(t)

    def local_record(self, target):
        """`obj.f` with obj a declared local of a settable record type -> (obj, lean field, field type) or None"""
        if isinstance(target, ast.Attribute) and isinstance(target.value, ast.Name) and target.value.id != "self":
            v = target.value.id
            t = self.vars.get(v, UNK)
            if v in self.declared and t[0] == "rec":
                cfg = RECORDS[t[1]]
                if cfg.get("settable") and target.attr in cfg["attrs"]:
                    lf, ft, _ = cfg["attrs"][target.attr]
                    return v, lf, ft
                raise Unsupported(f"assignment to {v}.{target.attr}")
        return None

    def assign_to(self, target, code, t, node, out, ind, monadic_rhs=False):
        # a name first bound inside an earlier nested block and bound again here is a NEW Lean binding: every read
        # the new binding does not dominate still finds no binding (`name_load` reports it), so nothing is re-bound
        # silently
        if isinstance(target, ast.Name) and target.id in self.out_of_scope and target.id not in self.declared:
            self.out_of_scope.discard(target.id)
        super().assign_to(target, code, t, node, out, ind, monadic_rhs)

    def _stmt(self, st, out, ind, in_loop, in_try):
        if self._stmt_s(st, out, ind, in_loop, in_try):
            return
        super()._stmt(st, out, ind, in_loop, in_try)

    def _stmt_s(self, st, out, ind, in_loop, in_try) -> bool:
        # ---- x = []  (no annotation): typed by the first append / extend
        if isinstance(st, ast.Assign) and len(st.targets) == 1 and isinstance(st.targets[0], ast.Name) \
                and isinstance(st.value, ast.List) and not st.value.elts:
            v = st.targets[0].id
            hints = self.opts.get("locals", {})
            if v in self.declared:
                out.append(f"{ind}{ident(v)} := []")
                return True
            if v in hints:
                return False
            key = f"⟪{len(self.pending)}⟫"
            self.pending[key] = [v, None, st]
            self.pend_of[v] = key
            self.vars[v] = Lst(UNK)
            self.declared.add(v)
            self.mut.add(v)
            out.append(f"{ind}let mut {ident(v)} : (List {key}) := []")
            return True
        # ---- x: T = e  with a mapped annotation: the value is typed by the annotation
        if isinstance(st, ast.AnnAssign) and st.value is not None and isinstance(st.target, ast.Name) \
                and st.target.id not in self.declared:
            t = self.annot(st.annotation)
            if t is not None:
                c, eff = self.expr_want(st.value, t)
                self.assign_to(st.target, c, t, st, out, ind)
                return True
            return False
        # ---- in-place operations on a local list
        if isinstance(st, ast.Expr) and isinstance(st.value, ast.Call) and isinstance(st.value.func, ast.Attribute) \
                and st.value.func.attr in ("append", "extend") and isinstance(st.value.func.value, ast.Name) \
                and not self.is_logging(st):
            call = st.value
            v = call.func.value.id
            if v not in self.declared or self.vars.get(v, UNK)[0] != "list":
                raise Unsupported(f".{call.func.attr}() on `{v}`, which is not a local list")
            if call.keywords or len(call.args) != 1:
                raise Unsupported(f".{call.func.attr}() with these arguments")
            if call.func.attr == "append":
                if v in self.pend_of:
                    c, t, eff = self.expr(call.args[0])
                    if t == NONE or t == UNK:
                        raise Unsupported(f"first append to the untyped list `{v}` has no usable type")
                    self.resolve_pending(v, t, st)
                else:
                    c, eff = self.expr_want(call.args[0], self.vars[v][1])
                out.append(f"{ind}{ident(v)} := (S2T.Py.listAppend {ident(v)} {c})")
            else:
                if v in self.pend_of:
                    c, t, eff = self.expr(call.args[0])
                    if t[0] != "list" or t[1] == UNK:
                        raise Unsupported(f"first extend of the untyped list `{v}` by a value of type {lt(t)}")
                    self.resolve_pending(v, t[1], st)
                else:
                    c, eff = self.expr_want(call.args[0], self.vars[v])
                out.append(f"{ind}{ident(v)} := ({ident(v)} ++ {c})")
            return True
        if isinstance(st, (ast.Assign, ast.AnnAssign)) and st.value is not None:
            targets = st.targets if isinstance(st, ast.Assign) else [st.target]
            if len(targets) == 1:
                tg = targets[0]
                # ---- xs[i] = e
                if isinstance(tg, ast.Subscript) and not isinstance(tg.slice, ast.Slice) and isinstance(tg.value, ast.Name):
                    v = tg.value.id
                    tv = self.vars.get(v, UNK)
                    if v not in self.declared or tv[0] != "list" or v not in self.mut:
                        raise Unsupported(f"store into `{v}`, which is not a local list")
                    c, eff = self.expr_want(st.value, tv[1])
                    if eff:      # Python evaluates the value before the index
                        self.tmp += 1
                        out.append(f"{ind}let py_t{self.tmp} : {lt(tv[1])} := {c}")
                        c = f"py_t{self.tmp}"
                    k, tk, ek = self.expr(tg.slice)
                    if tk != INT:
                        raise Unsupported(f"list index of type {lt(tk)}")
                    self.eff = True
                    out.append(f"{ind}{ident(v)} := (← S2T.Py.setItem {ident(v)} {k} {c})")
                    return True
                # ---- obj.f = e  on a local record
                lr = self.local_record(tg)
                if lr is not None:
                    v, lf, ft = lr
                    c, eff = self.expr_want(st.value, ft)
                    out.append(f"{ind}{ident(v)} := {{ {ident(v)} with {lf} := {c} }}")
                    return True
                # ---- a.f, x = e   (a tuple of names / fields of local records)
                if isinstance(tg, ast.Tuple) and any(isinstance(x, ast.Attribute) for x in tg.elts):
                    c, t, eff = self.expr(st.value)
                    if t[0] != "tuple" or len(t[1]) != len(tg.elts):
                        raise Unsupported(f"unpacking a value of type {lt(t)} into {len(tg.elts)} targets")
                    self.tmp += 1
                    tmp = f"py_t{self.tmp}"
                    out.append(f"{ind}let {tmp} : {lt(t)} := {c}")
                    n_el = len(tg.elts)
                    for i, x in enumerate(tg.elts):
                        proj = ".2" * i + (".1" if i < n_el - 1 else "")
                        lr = self.local_record(x)
                        if lr is not None:
                            v, lf, ft = lr
                            out.append(f"{ind}{ident(v)} := {{ {ident(v)} with {lf} := {self.coerce(tmp + proj, t[1][i], ft, st)} }}")
                        elif isinstance(x, ast.Name):
                            self.assign_to(x, f"{tmp}{proj}", t[1][i], st, out, ind)
                        else:
                            raise Unsupported(f"assignment target {ast.unparse(x)}")
                    return True
        # ---- return e : typed by the declared result
        if isinstance(st, ast.Return) and st.value is not None and self.ret is not None and not self.self_mut and not in_try \
                and isinstance(st.value, (ast.Tuple, ast.List)):
            c, eff = self.expr_want(st.value, self.ret)
            out.append(f"{ind}return {c}")
            return True
        if isinstance(st, ast.For):
            self.for_stmt(st, out, ind, in_try)
            return True
        if isinstance(st, ast.While):
            self.while_stmt(st, out, ind, in_try)
            return True
        return False

    def rebound_between(self, use, loop):
        """a read of a loop variable's name after the loop that a later `for` / comprehension binds"""
        for n in ast.walk(self.node):
            if isinstance(n, ast.For) and n is not loop and n.lineno > loop.end_lineno \
                    and n.lineno <= use.lineno <= n.end_lineno and use.id in self._targets(n.target):
                return True
            if isinstance(n, (ast.ListComp, ast.GeneratorExp, ast.DictComp, ast.SetComp)) \
                    and n.lineno <= use.lineno <= n.end_lineno and any(use.id in self._targets(g.target) for g in n.generators) \
                    and any(use is m for m in ast.walk(n)):
                return True
        return False

    def for_stmt(self, st, out, ind, in_try):
        if st.orelse:
            raise Unsupported("for … else")
        it, tel, _ = self.iterable(st.iter)
        names, types, pat, _pty = self.bind_target(st.target, tel)
        if any(n in self.declared for n in names if n != "_"):
            raise Unsupported("loop variable re-uses an assigned local")
        for other in ast.walk(self.node):
            if isinstance(other, ast.Name) and other.id in names and isinstance(other.ctx, ast.Load) \
                    and other.lineno > st.end_lineno and not self.rebound_between(other, st):
                raise Unsupported("loop variable is read after the loop")
        saved = {n: self.vars.get(n) for n in names}
        for n, tt in zip(names, types):
            if n != "_":
                self.vars[n] = tt
                self.out_of_scope.discard(n)
        out.append(f"{ind}for {pat} in {it} do")
        out += self.block(st.body, ind + "  ", True, in_try)
        for n in names:
            if saved[n] is None:
                self.vars.pop(n, None)
            else:
                self.vars[n] = saved[n]

    # `while TEST: BODY` — see the module docstring.  State = the declared locals BODY stores into (declaration
    # order); measure = the length of the one list that BODY only changes by a top-level `xs.pop()`.
    def while_stmt(self, st, out, ind, in_try):
        if st.orelse:
            raise Unsupported("while … else")
        for n in ast.walk(st):
            if isinstance(n, (ast.Break, ast.Continue, ast.Return, ast.Yield, ast.YieldFrom, ast.While, ast.Try)) and n is not st:
                raise Unsupported(f"{type(n).__name__} inside a while loop")
        stored = []
        for s in ast.walk(st):
            if isinstance(s, ast.stmt):
                for v in self._store_roots(s):
                    if v not in stored:
                        stored.append(v)
            if isinstance(s, ast.Name) and isinstance(s.ctx, ast.Store) and s.id not in stored:
                stored.append(s.id)
        carried = [n for n in self.vars if n in stored and n in self.declared]
        variant = None
        for v in carried:
            if self.vars[v][0] != "list":
                continue
            # leaf statements of the body that change `v` (in place or by assignment)
            changes = [s for s in ast.walk(st) if isinstance(s, (ast.Expr, ast.Assign, ast.AugAssign, ast.AnnAssign)) and (
                v in self._store_roots(s) or any(isinstance(n, ast.Name) and n.id == v and isinstance(n.ctx, ast.Store)
                                                 for n in ast.walk(s)))]
            pops = [s for s in changes if isinstance(s, ast.Expr) and isinstance(s.value, ast.Call)
                    and isinstance(s.value.func, ast.Attribute) and s.value.func.attr == "pop" and not s.value.args]
            if len(changes) == 1 and len(pops) == 1 and pops[0] in st.body:
                variant = v
                break
        if variant is None:
            raise Unsupported("while loop without a recognised measure (a local list whose only change in the body is one "
                              "top-level `xs.pop()`)")
        if not carried:
            raise Unsupported("while loop that changes no local")
        tys = [self.vars[n] for n in carried]
        if any(t == Lst(UNK) for t in tys):
            raise Unsupported("while loop over a list whose element type is not known yet")
        sty = lt(Tup(*tys)) if len(carried) > 1 else lt(tys[0])
        spat = "(" + ", ".join(ident(n) for n in carried) + ")" if len(carried) > 1 else ident(carried[0])
        fn = f"fun ({spat} : {sty}) =>"
        self.eff = True
        self.narrow.append(set())
        test, teff = self.cond(st.test)
        self.narrow.pop()
        self.narrow.append(self.facts(st.test, True))
        body = self.block(st.body, ind + "      ", False, in_try=False)
        self.narrow.pop()
        self.wcount += 1
        tmp = f"py_w{self.wcount}"
        out.append(f"{ind}let {tmp} : {sty} ← S2T.Py.Sheets.whileM ({fn} (List.length {ident(variant)}))")
        out.append(f"{ind}    ({fn} (do pure {test} : S2T.Py.M Bool))")
        out.append(f"{ind}    ({fn} (do")
        for n in carried:
            out.append(f"{ind}      let mut {ident(n)} := {ident(n)}")
        out += body
        out.append(f"{ind}      pure {spat} : S2T.Py.M {sty})) {spat}")
        n_el = len(carried)
        for i, n in enumerate(carried):
            proj = "" if n_el == 1 else ".2" * i + (".1" if i < n_el - 1 else "")
            out.append(f"{ind}{ident(n)} := {tmp}{proj}")
            self.kill(n)

    # ---- the function: resolve the placeholders of untyped empty lists
    def translate(self):
        text, sig = super().translate()
        for key, (v, t, node) in self.pending.items():
            if t is None:
                self.note(node, f"`{v} = []`: no append / extend gives the element type")
                text = text.replace(key, "Unit")
            else:
                text = text.replace(key, lt(t))
        return text, sig


# ----------------------------------------------------------------------------- one module
class ModTrS(ModTrX):
    def check_callout(self, name):
        """`name` is a module-level function of this source file (the hand-modelled callee), not re-bound"""
        tree = parse(self.cfg["src"])
        fd = next((n for n in tree.body if isinstance(n, ast.FunctionDef) and n.name == name), None)
        obj = getattr(self.pymod, name, None)
        obj = getattr(obj, "__wrapped__", obj)
        if fd is None or getattr(getattr(obj, "__code__", None), "co_firstlineno", None) not in (
                fd.lineno, *(d.lineno for d in fd.decorator_list)):
            self.notes.append(f"{self.cfg['src']}: call-out `{name}` is not a module-level function of this file at run time")

    def check_path(self, literal):
        """every prefix of the path literal is in the module's runtime namespace map (the generated tag was
        resolved with that map by tools/gen/tables.py)"""
        ns = getattr(self.pymod, self.cfg.get("nsname", "NS"), None)
        if not isinstance(ns, dict) or any(":" not in step or step.split(":")[0] not in ns for step in literal.split("/")):
            self.notes.append(f"{self.cfg['src']}: path {literal!r} does not resolve in the runtime namespace map")

    def check_dataclass(self, name, cfg):
        import dataclasses
        out = super().check_dataclass(name, cfg)
        cls = getattr(self.pymod, name, None)
        if isinstance(cls, type) and dataclasses.is_dataclass(cls):
            for f in dataclasses.fields(cls):
                if f.default is dataclasses.MISSING and f.default_factory is list:
                    out[f.name] = "[]"
        return out

    def run(self):
        # ModTrX.run instantiates the function translator through the module-level name `FuncTrX`; this module's
        # functions are translated by the subclass (pyfun_paths.py itself is not edited, its own modules are
        # translated before / after with the name restored)
        saved = pyfun_paths.FuncTrX
        pyfun_paths.FuncTrX = SheetFuncTr
        try:
            return super().run()
        finally:
            pyfun_paths.FuncTrX = saved


def translate_module(name):
    if name not in SMODULES:
        return pyfun_paths.translate_module(name)
    if name not in pyfun._DONE:
        m = ModTrS(name)
        text = m.run()
        pyfun._DONE[name] = {"text": text, "sigs": m.sigs, "notes": m.notes}
    return pyfun._DONE[name]


def _mk(name):
    def gen():
        return translate_module(name)["text"]
    gen.__name__ = "gen_" + name
    return gen


for _name in SMODULES:
    generator(_name)(_mk(_name))
