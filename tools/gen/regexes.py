"""C01: closed-world inventory of every regular expression the package compiles -> S2T/Gen/Regexes.lean

Literal patterns come from the AST (every `re.<fn>(<constant>, …)` call; module aliases and `from re import`
followed), dynamically built patterns from a fresh interpreter in which `re._compile` is wrapped while every
module of the package is imported and the fixtures of the modules with dynamic sites are extracted
(tools/regex_inventory.py).  Each entry carries the parse tree of CPython's own `re._parser`.
"""
import os
import sys

from translate import HEADER, REPO, generator, lean_list, lean_str

sys.path.insert(0, os.path.dirname(os.path.dirname(os.path.abspath(__file__))))
import regex_inventory as RI  # noqa: E402


@generator("Regexes")
def gen_regexes():
    entries, dyn = RI.inventory(REPO)
    L = [HEADER.format(src="every re.<fn>(…) call under sharepoint2text/ (AST) + patterns compiled at import / fixture run time (re._compile hook)")]
    L.append("import S2T.Model.Regex\nnamespace S2T.Gen.Regexes\nopen S2T.Regex\n")
    rows = []
    for e in entries:
        if e["flags"] < 0:
            raise ValueError(f"flags of {e['file']}: {e['pat']!r} are not a constant expression")
        t = RI.tree(RI.text_pat(e["pat"]), e["flags"])
        rows.append(f"{{ file := {lean_str(e['file'])}, pat := {lean_str(e['pat'])}, flags := {e['flags']}, origin := {lean_str(e['origin'])},\n"
                    f"    re := {RI.to_lean(t)} }}")
    L.append("/-- every pattern of the package: (file, pattern, flags) + parse tree -/")
    L.append("def regexes : List Entry := " + lean_list(rows) + "\n")
    L.append("/-- call sites whose pattern is not a constant: (file, function, source text of the pattern expression) -/")
    L.append("def dynamicSites : List (String × String × String) := " + lean_list(
        f"({lean_str(a)}, {lean_str(b)}, {lean_str(c)})" for a, b, c in dyn) + "\n")
    L.append("end S2T.Gen.Regexes\n")
    return "\n".join(L)
