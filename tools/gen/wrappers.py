"""C01/C08: control skeletons of the read_* wrappers, read_file, member/attachment loops and cli.main
-> S2T/Gen/Wrappers.lean ; exception class tree -> S2T/Gen/Exceptions.lean ; loop inventory -> S2T/Gen/Loops.lean

Python AST -> S2T.Wrapper.Stmt (see lean/S2T/Model/Wrapper.lean).  An `atom` is any statement or
expression without control flow of its own; it is `total` only when built from the small
whitelist below (names, constants, attribute reads, comparisons between those, logging calls, time.perf_counter, str()/
f-strings of names, imports, function definitions); everything else is opaque = may raise anything.
"""
import ast
import inspect
import os

from translate import HEADER, REPO, fresh_import, generator, lean_list, lean_str, parse

TOTAL_CALLS = {
    "logger.debug", "logger.info", "logger.warning", "logger.error", "logger.exception",
    "time.perf_counter", "bool", "str",
}
# calls that touch the OS with the caller's path (read_file / cli): tagged, the Lean side states
# the precondition "the file exists and is readable" under which they are total
OS_CALLS = {"Path", "path.stat", "open", "file_path.exists", "file_path.stat"}
STDOUT_WRITES = {"sys.stdout.write"}


def dotted(node):
    if isinstance(node, ast.Name):
        return node.id
    if isinstance(node, ast.Attribute):
        b = dotted(node.value)
        return None if b is None else b + "." + node.attr
    return None


class Tr:
    """`local_funcs` (name -> FunctionDef of the same module) switches on the interprocedural treatment of output
    (used for cli.main): a call of a module-local function that can reach sys.stdout / sys.stderr / print — directly,
    through another local function, or because the call hands it sys.stdout — is not an opaque atom: its body is
    inlined (parameters bound to sys.stdout become stdout), or, when it cannot be inlined (early `return`, recursion),
    replaced by `loop (opaque ; write)` = any number of possibly partial writes.  A call of an unknown function that is
    handed sys.stdout gets the same over-approximation."""

    def __init__(self, generator_callees=(), local_funcs=None, stdout_names=("sys.stdout",), stderr_names=("sys.stderr",), depth=0, stack=()):
        self.genfuncs = set(generator_callees)
        self.local_funcs = dict(local_funcs or {})
        self.stdout_names = set(stdout_names)
        self.stderr_names = set(stderr_names)
        self.depth = depth
        self.stack = tuple(stack)
        self._writers = None

    # ---- which module-local functions can write to stdout / stderr
    def _mentions_output(self, fn):
        chans = set()
        for n in ast.walk(fn):
            d = dotted(n) if isinstance(n, ast.Attribute) else None
            if d in ("sys.stdout", "sys.__stdout__"):
                chans.add("out")
            elif d in ("sys.stderr", "sys.__stderr__"):
                chans.add("err")
            elif isinstance(n, ast.Call) and dotted(n.func) == "print":
                kw = {k.arg: k.value for k in n.keywords}
                chans.add("err" if "file" in kw and dotted(kw["file"]) in ("sys.stderr", "sys.__stderr__") else "out")
            elif isinstance(n, ast.Call) and dotted(n.func) in ("os.write", "os.writev"):
                chans.add("out")
        return chans

    def writers(self):
        """{local function name: channels it may write to} (fixpoint over calls between local functions)"""
        if self._writers is None:
            w = {name: self._mentions_output(fn) for name, fn in self.local_funcs.items()}
            changed = True
            while changed:
                changed = False
                for name, fn in self.local_funcs.items():
                    for n in ast.walk(fn):
                        if isinstance(n, ast.Call) and isinstance(n.func, ast.Name) and n.func.id in w and n.func.id != name:
                            add = w[n.func.id] - w[name]
                            if add:
                                w[name] |= add
                                changed = True
            self._writers = {k: v for k, v in w.items() if v}
        return self._writers

    def _out_args(self, call):
        """channels handed to the callee as arguments: [(position or keyword, 'out'|'err')]"""
        res = []
        for i, a in enumerate(call.args):
            d = dotted(a)
            if d in self.stdout_names:
                res.append((i, "out"))
            elif d in self.stderr_names:
                res.append((i, "err"))
        for k in call.keywords:
            d = dotted(k.value)
            if d in self.stdout_names:
                res.append((k.arg, "out"))
            elif d in self.stderr_names:
                res.append((k.arg, "err"))
        return res

    def is_writer_call(self, call):
        if not self.local_funcs:
            return False
        d = dotted(call.func)
        if d is None:
            return False
        if d in ("print", "json.dump") or any(d == n + ".write" for n in self.stdout_names | self.stderr_names):
            return False  # modelled directly by `stmt`
        if isinstance(call.func, ast.Name) and call.func.id in self.local_funcs:
            return call.func.id in self.writers() or bool(self._out_args(call))
        return bool(self._out_args(call))

    def over_approx(self, tag, chans):
        ws = [f".write .{c} false" for c in sorted(chans)] or [".write .out false"]
        w = ws[0] if len(ws) == 1 else f"(.ite ({ws[0]}) ({ws[1]}))"
        return f"(.loop ((.seq ({self.atom('call:' + tag, False)}) ({w}))))"

    def writer_stmt(self, call):
        """skeleton of one call that can write"""
        d = dotted(call.func)
        passed = self._out_args(call)
        pre = []
        for a in list(call.args) + [k.value for k in call.keywords]:
            if dotted(a) not in self.stdout_names | self.stderr_names:
                pre += self.expr_atoms(a, "call-arg")
        if not (isinstance(call.func, ast.Name) and call.func.id in self.local_funcs):
            return self.seq(pre + [self.over_approx(d, {c for _, c in passed})])
        name = call.func.id
        fn = self.local_funcs[name]
        chans = set(self.writers().get(name, set())) | {c for _, c in passed}
        params = [a.arg for a in fn.args.posonlyargs + fn.args.args]
        kwonly = [a.arg for a in fn.args.kwonlyargs]
        body = [st for st in fn.body if not (isinstance(st, ast.Expr) and isinstance(st.value, ast.Constant))]
        rets = [n for st in body for n in ast.walk(st) if isinstance(n, ast.Return)]
        inner_defs = any(isinstance(n, (ast.FunctionDef, ast.AsyncFunctionDef, ast.Lambda, ast.Yield, ast.YieldFrom)) for st in body for n in ast.walk(st))
        tail_ret = body and isinstance(body[-1], ast.Return)
        inlinable = (name not in self.stack and self.depth < 3 and not inner_defs and fn.args.vararg is None and fn.args.kwarg is None
                     and (not rets or (len(rets) == 1 and tail_ret)))
        if not inlinable:
            return self.seq(pre + [self.over_approx(name, chans)])
        outs, errs = set(), set()
        for pos, c in passed:
            pname = params[pos] if isinstance(pos, int) and pos < len(params) else (pos if pos in params + kwonly else None)
            if pname is None:
                return self.seq(pre + [self.over_approx(name, chans)])
            (outs if c == "out" else errs).add(pname)
        sub = Tr(self.genfuncs, self.local_funcs, {"sys.stdout"} | outs, {"sys.stderr"} | errs, self.depth + 1, self.stack + (name,))
        stmts = body[:-1] if tail_ret else body
        items = [sub.stmt(st, set()) for st in stmts]
        if tail_ret:
            items += sub.expr_atoms(body[-1].value, "ret")
        return self.seq(pre + [sub.seq(items)])

    # ---- totality of expressions
    def total(self, e) -> bool:
        if e is None:
            return True
        if isinstance(e, (ast.Constant, ast.Name)):
            return True
        if isinstance(e, ast.Attribute):
            return self.total(e.value) and isinstance(e.value, ast.Name)
        if isinstance(e, ast.JoinedStr):
            return all(self.total(v) for v in e.values)
        if isinstance(e, ast.FormattedValue):
            return self.total(e.value)
        if isinstance(e, (ast.Tuple, ast.List)):
            return all(self.total(x) for x in e.elts)
        if isinstance(e, ast.BoolOp):
            return all(self.total(v) for v in e.values)
        if isinstance(e, ast.UnaryOp) and isinstance(e.op, ast.Not):
            return self.total(e.operand)
        if isinstance(e, ast.Compare):  # comparisons between names / constants / attribute reads
            return self.total(e.left) and all(self.total(c) for c in e.comparators)
        if isinstance(e, ast.BinOp) and isinstance(e.op, (ast.Sub, ast.Add, ast.Mult)):
            # only arithmetic between names/constants (perf_counter differences, size constants)
            return self.total(e.left) and self.total(e.right)
        if isinstance(e, ast.Call):
            d = dotted(e.func)
            args_total = all(self.total(a) for a in e.args) and all(self.total(k.value) for k in e.keywords)
            if d in TOTAL_CALLS and args_total:
                return True
            if d in self.genfuncs and args_total:
                return True  # calling a generator function runs none of its body
            return False
        return False

    def atom(self, tag, total):
        return f'.atom {lean_str(tag)} {"true" if total else "false"}'

    def expr_atoms(self, e, tag):
        """atoms evaluating expression e (empty when total)"""
        if e is None or self.total(e):
            return []
        if self.local_funcs:
            ws = [n for n in ast.walk(e) if isinstance(n, ast.Call) and self.is_writer_call(n)]
            if ws:
                if ws[0] is e:
                    return [self.writer_stmt(e)]
                return [self.writer_stmt(n) for n in ws] + [self.atom(tag + ":" + (ast.unparse(e)[:60].replace("\n", " ")), False)]
        if isinstance(e, ast.Call):
            d = dotted(e.func)
            if d in OS_CALLS or (d and d.split(".")[-1] in ("stat", "exists") and d.split(".")[0] in ("path", "file_path")):
                inner = []
                for a in list(e.args) + [k.value for k in e.keywords]:
                    inner += self.expr_atoms(a, tag)
                return inner + [self.atom("os:" + d, False)]
            if d == "get_extractor":
                # summary justified by C07 (`only_error`, model tied to router.get_extractor by correspondence):
                # the router raises the format-not-supported error and nothing else
                return ['(.ite (.raise_ "ExtractionFileFormatNotSupportedError") (.atom "skip" true))']
        if isinstance(e, ast.Attribute):  # e.g. path.stat().st_size
            return self.expr_atoms(e.value, tag)
        return [self.atom(tag + ":" + (ast.unparse(e)[:60].replace("\n", " ")), False)]

    def seq(self, items):
        items = [i for i in items if i is not None]
        if not items:
            return self.atom("skip", True)
        out = items[-1]
        for it in reversed(items[:-1]):
            out = f"(.seq ({it}) ({out}))" if not out.startswith("(") else f"(.seq ({it}) {out})"
        return out

    def block(self, stmts, exc_names):
        return self.seq([self.stmt(s, exc_names) for s in stmts])

    def pats(self, t):
        if t is None:
            return [""]
        if isinstance(t, ast.Tuple):
            return [p for e in t.elts for p in self.pats(e)]
        d = dotted(t)
        return [d.split(".")[-1] if d else "?"]

    def stmt(self, s, exc_names):
        if isinstance(s, ast.Expr) and isinstance(s.value, ast.Constant):
            return None  # docstring
        if isinstance(s, (ast.Import, ast.ImportFrom)):
            return self.atom("import", True)
        if isinstance(s, (ast.FunctionDef, ast.ClassDef, ast.Pass, ast.Global, ast.Nonlocal)):
            return self.atom("def", True)
        if isinstance(s, ast.Break):
            return ".brk"
        if isinstance(s, ast.Continue):
            return ".cont"
        if isinstance(s, ast.Return):
            tag = ast.unparse(s.value) if isinstance(s.value, ast.Constant) else ("none" if s.value is None else "?")
            return self.seq(self.expr_atoms(s.value, "ret") + [f".ret {lean_str(tag)}"])
        if isinstance(s, ast.Raise):
            if s.exc is None:
                return ".reraise"
            if isinstance(s.exc, ast.Name) and s.exc.id in exc_names:
                return ".reraise"
            if isinstance(s.exc, ast.Call) and dotted(s.exc.func):
                cls = dotted(s.exc.func).split(".")[-1]
                pre = []
                for a in list(s.exc.args) + [k.value for k in s.exc.keywords]:
                    pre += self.expr_atoms(a, "raise-arg")
                return self.seq(pre + [f".raise_ {lean_str(cls)}"])
            return self.atom("raise:" + ast.unparse(s.exc)[:40], False)
        if isinstance(s, ast.If):
            return self.seq(self.expr_atoms(s.test, "test") + [f"(.ite ({self.block(s.body, exc_names)}) ({self.block(s.orelse, exc_names)}))"])
        if isinstance(s, ast.While):
            body = self.seq(self.expr_atoms(s.test, "test") + [self.block(s.body, exc_names)])
            return self.seq([f"(.loop ({body}))"] + ([self.block(s.orelse, exc_names)] if s.orelse else []))
        if isinstance(s, (ast.For, ast.AsyncFor)):
            body = self.seq([self.atom("next:" + ast.unparse(s.iter)[:40], False), self.block(s.body, exc_names)])
            return self.seq(self.expr_atoms(s.iter, "iter") + [f"(.loop ({body}))"] + ([self.block(s.orelse, exc_names)] if s.orelse else []))
        if isinstance(s, (ast.With, ast.AsyncWith)):
            enter, exits = [], []
            for it in s.items:
                d = dotted(it.context_expr.func) if isinstance(it.context_expr, ast.Call) else None
                tagp = "os:" if d in OS_CALLS else ""
                enter += [self.atom(tagp + "with-enter:" + ast.unparse(it.context_expr)[:40], False)]
                exits += [self.atom(tagp + "with-exit:" + ast.unparse(it.context_expr)[:40], False)]
            return self.seq(enter + [f"(.try_ ({self.block(s.body, exc_names)}) [] ({self.seq(exits)}))"])
        if isinstance(s, ast.Try):
            hs = []
            for h in s.handlers:
                names = set(exc_names) | ({h.name} if h.name else set())
                # inside a handler, `raise X(...) from exc` is a new exception; bare raise = reraise
                hs.append(f"([{', '.join(lean_str(p) for p in self.pats(h.type))}], {self.block(h.body, names)})")
            body = self.block(s.body, exc_names)
            if s.orelse:  # over-approximation: else-block may or may not run, outside the handlers
                inner = f"(.try_ ({body}) [{', '.join(hs)}] ({self.atom('skip', True)}))"
                orelse = f"(.ite ({self.block(s.orelse, exc_names)}) ({self.atom('skip', True)}))"
                return f"(.try_ ({self.seq([inner, orelse])}) [] ({self.block(s.finalbody, exc_names)}))"
            return f"(.try_ ({body}) [{', '.join(hs)}] ({self.block(s.finalbody, exc_names)}))"
        # statements carrying an expression
        val = None
        if isinstance(s, ast.Expr):
            val = s.value
        elif isinstance(s, (ast.Assign, ast.AnnAssign, ast.AugAssign)):
            val = s.value
            tgts = s.targets if isinstance(s, ast.Assign) else [s.target]
            if not all(isinstance(t, ast.Name) for t in tgts):
                return self.atom("assign:" + ast.unparse(s)[:50].replace("\n", " "), False)
        if isinstance(val, ast.Yield):
            return self.seq(self.expr_atoms(val.value, "yield-value") + [".yield_"])
        if isinstance(val, ast.YieldFrom):
            return self.seq(self.expr_atoms(val.value, "iter") + [f"(.loop ({self.seq([self.atom('next:' + ast.unparse(val.value)[:40], False), '.yield_'])}))"])
        if isinstance(val, ast.Call) and (dotted(val.func) in STDOUT_WRITES or dotted(val.func) in {n + ".write" for n in self.stdout_names}):
            pre = []
            for a in val.args:
                pre += self.expr_atoms(a, "write-arg")
            return self.seq(pre + [".write .out true"])
        if isinstance(val, ast.Call) and dotted(val.func) in {n + ".write" for n in self.stderr_names} and self.local_funcs:
            pre = []
            for a in val.args:
                pre += self.expr_atoms(a, "write-arg")
            return self.seq(pre + [".write .err true"])
        if isinstance(val, ast.Call) and dotted(val.func) == "print":
            kw = {k.arg: k.value for k in val.keywords}
            ch = ".err" if "file" in kw and dotted(kw["file"]) in self.stderr_names else ".out"
            pre = []
            for a in val.args:
                pre += self.expr_atoms(a, "write-arg")
            return self.seq(pre + [f".write {ch} true"])
        if isinstance(val, ast.Call) and dotted(val.func) == "json.dump" and len(val.args) >= 2 and dotted(val.args[1]) in self.stdout_names:
            return self.seq(self.expr_atoms(val.args[0], "write-arg") + [".write .out false"])
        if val is not None or isinstance(s, (ast.Expr, ast.Assign, ast.AnnAssign, ast.AugAssign)):
            atoms = self.expr_atoms(val, "stmt")
            return self.seq(atoms) if atoms else self.atom("total:" + ast.unparse(s)[:40].replace("\n", " "), True)
        if isinstance(s, ast.Assert):
            return self.atom("assert", False)
        if isinstance(s, ast.Delete):
            return self.atom("del", False)
        return self.atom("unknown:" + type(s).__name__, False)


def find_func(relpath, name):
    for node in ast.walk(parse(relpath)):
        if isinstance(node, (ast.FunctionDef, ast.AsyncFunctionDef)) and node.name == name:
            return node
    raise KeyError(f"{relpath}:{name}")


def family_classes():
    exc = fresh_import("sharepoint2text.parsing.exceptions")
    root = exc.ExtractionError
    fam = {}
    for nm, obj in vars(exc).items():
        if inspect.isclass(obj) and issubclass(obj, root):
            fam[nm] = [c.__name__ for c in obj.__mro__ if isinstance(c, type) and issubclass(c, root)]
    return fam


@generator("Exceptions")
def gen_exceptions():
    fam = family_classes()
    L = [HEADER.format(src="sharepoint2text/parsing/exceptions.py (runtime class tree)")]
    L.append("namespace S2T.Gen.Exceptions\n")
    L.append('def root : String := "ExtractionError"\n')
    L.append("/-- family class ↦ its family ancestors (itself included), from `__mro__` -/")
    L.append("def family : List (String × List String) := " + lean_list(
        f"({lean_str(k)}, [{', '.join(lean_str(a) for a in v)}])" for k, v in sorted(fam.items())) + "\n")
    L.append("def isFam (c : String) : Bool := (family.map (·.1)).contains c")
    L.append("def famSub (c p : String) : Bool := match family.lookup c with | some anc => anc.contains p | none => false\n")
    L.append("end S2T.Gen.Exceptions\n")
    return "\n".join(L)


def registered_wrappers():
    router = fresh_import("sharepoint2text.parsing.router")
    seen = []
    for ft, (m, f) in router._EXTRACTOR_REGISTRY.items():
        if (m, f) not in seen:
            seen.append((m, f))
    return seen


@generator("Wrappers")
def gen_wrappers():
    L = [HEADER.format(src="the registered read_* functions, sharepoint2text/__init__.py, cli.py, archive/mail member loops (AST)")]
    L.append("import S2T.Model.Wrapper\nnamespace S2T.Gen.Wrappers\nopen S2T.Wrapper\n")
    names = []
    tr = Tr()
    for m, f in registered_wrappers():
        rel = m.replace(".", "/") + ".py"
        fn = find_func(rel, f)
        is_gen = any(isinstance(n, (ast.Yield, ast.YieldFrom)) for n in ast.walk(fn))
        L.append(f"/-- {rel}:{f} (lines {fn.lineno}-{fn.end_lineno}){'' if is_gen else '  NOT A GENERATOR'} -/")
        L.append(f"def {f} : Stmt :=\n  {tr.block(fn.body, set())}\n")
        names.append((f, is_gen))
    L.append("/-- the registered extractor entry points (one per distinct registry target) -/")
    L.append("def extractorWrappers : List (String × Stmt) := " + lean_list(f"({lean_str(n)}, {n})" for n, _ in names) + "\n")
    L.append("def allGenerators : Bool := " + ("true" if all(g for _, g in names) else "false") + "\n")
    # public thin wrappers in sharepoint2text/__init__.py
    init = "sharepoint2text/__init__.py"
    tree = parse(init)
    thin = []
    for node in tree.body:
        if isinstance(node, ast.FunctionDef) and node.name.startswith("read_") and node.name != "read_file":
            # local alias names imported inside the function are generator functions of the registry
            aliases = set()
            for n in ast.walk(node):
                if isinstance(n, ast.ImportFrom):
                    aliases |= {a.asname or a.name for a in n.names}
            t2 = Tr(generator_callees=aliases)
            L.append(f"def init_{node.name} : Stmt :=\n  {t2.block(node.body, set())}\n")
            thin.append(node.name)
    L.append("def initWrappers : List (String × Stmt) := " + lean_list(f"({lean_str(n)}, init_{n})" for n in thin) + "\n")
    rf = find_func(init, "read_file")
    L.append(f"def read_file : Stmt :=\n  {tr.block(rf.body, set())}\n")
    cli = find_func("sharepoint2text/cli.py", "main")
    cli_funcs = {n.name: n for n in parse("sharepoint2text/cli.py").body if isinstance(n, (ast.FunctionDef, ast.AsyncFunctionDef)) and n.name != "main"}
    tr_cli = Tr(local_funcs=cli_funcs)
    L.append("/-- sharepoint2text/cli.py:main — calls of module-local functions that can write to stdout/stderr are inlined "
             f"(or over-approximated by `loop (opaque ; partial write)`); local functions that can write: {sorted(tr_cli.writers()) or 'none'} -/")
    L.append(f"def cli_main : Stmt :=\n  {tr_cli.block(cli.body, set())}\n")
    # member / attachment loops
    extra = [("sharepoint2text/parsing/extractors/archive_extractor.py", "_process_archive_entry")]
    dt = "sharepoint2text/parsing/extractors/data_types.py"
    for rel, f in extra + [(dt, "iterate_supported_attachments")]:
        try:
            fn = find_func(rel, f)
        except KeyError:
            continue
        L.append(f"/-- {rel}:{f} -/\ndef {f.lstrip('_')} : Stmt :=\n  {tr.block(fn.body, set())}\n")
    L.append("end S2T.Gen.Wrappers\n")
    return "\n".join(L)


@generator("Loops")
def gen_loops():
    """every `while` loop and every directly self-recursive function of the package (tests excluded)"""
    pkg = os.path.join(REPO, "sharepoint2text")
    loops, recs = [], []
    for root, dirs, files in os.walk(pkg):
        dirs[:] = sorted(d for d in dirs if d != "tests" and d != "__pycache__")
        for fn in sorted(files):
            if not fn.endswith(".py"):
                continue
            rel = os.path.relpath(os.path.join(root, fn), REPO)
            tree = parse(rel)

            def visit(node, stack):
                for ch in ast.iter_child_nodes(node):
                    st = stack
                    if isinstance(ch, (ast.FunctionDef, ast.AsyncFunctionDef, ast.ClassDef)):
                        st = stack + [ch.name]
                    if isinstance(ch, ast.While):
                        # normalised key: header + the statements that assign the loop variables
                        names = {n.id for n in ast.walk(ch.test) if isinstance(n, ast.Name)}
                        upd = []
                        for n in ast.walk(ch):
                            if isinstance(n, ast.AugAssign) and isinstance(n.target, ast.Name) and n.target.id in names:
                                upd.append(ast.unparse(n))
                            elif isinstance(n, ast.Assign) and any(isinstance(t, ast.Name) and t.id in names for t in n.targets):
                                upd.append(ast.unparse(n))
                            elif isinstance(n, ast.Call) and isinstance(n.func, ast.Attribute) and isinstance(n.func.value, ast.Name) \
                                    and n.func.value.id in names and n.func.attr in ("pop", "append", "popleft"):
                                upd.append(ast.unparse(n))
                        has_break = any(isinstance(n, (ast.Break, ast.Return, ast.Raise)) for n in ast.walk(ch))
                        loops.append((rel, ".".join(stack) or "<module>", ast.unparse(ch.test), sorted(set(upd)), has_break))
                    if isinstance(ch, (ast.FunctionDef, ast.AsyncFunctionDef)):
                        for n in ast.walk(ch):
                            if isinstance(n, ast.Call):
                                d = dotted(n.func)
                                if d in (ch.name, "self." + ch.name, "cls." + ch.name):
                                    recs.append((rel, ".".join(st)))
                                    break
                    visit(ch, st)

            visit(tree, [])
    L = [HEADER.format(src="every `while` statement and self-recursive function under sharepoint2text/ (AST)")]
    L.append("namespace S2T.Gen.Loops\n")
    L.append("/-- (file, enclosing function, loop test, sorted updates of the test's variables, has break/return/raise) -/")
    L.append("def whileLoops : List (String × String × String × List String × Bool) := " + lean_list(
        f"({lean_str(a)}, {lean_str(b)}, {lean_str(c)}, [{', '.join(lean_str(u) for u in d)}], {'true' if e else 'false'})"
        for a, b, c, d, e in loops) + "\n")
    L.append("def recursiveFunctions : List (String × String) := " + lean_list(f"({lean_str(a)}, {lean_str(b)})" for a, b in sorted(set(recs))) + "\n")
    L.append("end S2T.Gen.Loops\n")
    return "\n".join(L)
