"""C08: how the PDF path provisions AES -> S2T/Gen/PdfCrypt.lean

Read from the CURRENT source, construct by construct (nothing here recognises a whole function):

* which function gives `read_pdf` its reader (`opener`), and in that function
  - the handler around `<reader> = PdfReader(...)`: does it catch pypdf's DependencyError, call the patch function and open
    again (`handlerRetries`), and under which literal in the error text (`retryMarker`);
  - every call of the patch function outside that handler with the PATH CONDITION under which it is reached, as a `Guard`
    (`<reader>.is_encrypted` = enc, not / and / or / constants, early `return`s folded in; any other sub-expression — a helper
    call, a look into the /Encrypt dictionary — becomes `atom i` with its source text in `opaques`);
* the bindings `patch_pypdf_fallback_aes` assigns unconditionally (`patchBindings`), against the AES entry points pypdf's
  modules actually hold at run time (`neededBindings`), and the text of the DependencyError pypdf raises for AES.
"""
import ast

from translate import HEADER, fresh_import, generator, lean_list, lean_str, parse

from gen.wrappers import find_func

PDF = "sharepoint2text/parsing/extractors/pdf/pdf_extractor.py"
FALLBACK = "sharepoint2text/parsing/extractors/pdf/_pypdf_aes_fallback.py"
PATCH = "patch_pypdf_fallback_aes"


def _patch_names(mod: ast.Module):
    names = {PATCH}
    for n in ast.walk(mod):
        if isinstance(n, ast.ImportFrom):
            for a in n.names:
                if a.name == PATCH:
                    names.add(a.asname or a.name)
        if isinstance(n, ast.Assign) and isinstance(n.value, ast.Name) and n.value.id in names:
            for t in n.targets:
                if isinstance(t, ast.Name):
                    names.add(t.id)
    return names


def _is_patch_call(n, names):
    return isinstance(n, ast.Call) and ((isinstance(n.func, ast.Name) and n.func.id in names)
                                        or (isinstance(n.func, ast.Attribute) and n.func.attr == PATCH))


def _has_patch_call(node, names):
    return any(_is_patch_call(n, names) for n in ast.walk(node))


def _is_reader_ctor(n):
    return isinstance(n, ast.Call) and ((isinstance(n.func, ast.Name) and n.func.id == "PdfReader")
                                        or (isinstance(n.func, ast.Attribute) and n.func.attr == "PdfReader"))


class _G:
    """guard terms as Lean text + a python evaluator (for the closed-world self check)"""

    def __init__(self, readers):
        self.readers, self.atoms = readers, []

    def expr(self, e):
        if isinstance(e, ast.Attribute) and e.attr == "is_encrypted" and isinstance(e.value, ast.Name) and e.value.id in self.readers:
            return ".enc"
        if isinstance(e, ast.Constant) and isinstance(e.value, bool):
            return f"(.const {'true' if e.value else 'false'})"
        if isinstance(e, ast.UnaryOp) and isinstance(e.op, ast.Not):
            return f"(.not {self.expr(e.operand)})"
        if isinstance(e, ast.BoolOp):
            parts = [self.expr(v) for v in e.values]
            op = ".and" if isinstance(e.op, ast.And) else ".or"
            t = parts[0]
            for p in parts[1:]:
                t = f"({op} {t} {p})"
            return t
        txt = ast.unparse(e)
        if txt not in self.atoms:
            self.atoms.append(txt)
        return f"(.atom {self.atoms.index(txt)})"


def _conj(a, b):
    if a == "(.const true)":
        return b
    return f"(.and {a} {b})"


def _ends(stmts):
    return bool(stmts) and isinstance(stmts[-1], (ast.Return, ast.Raise))


def _walk(stmts, guard, G, names, sites, skip_try):
    """call sites of the patch function in `stmts` (not inside `skip_try`'s handlers) with their path condition"""
    for st in stmts:
        if isinstance(st, ast.If):
            t = G.expr(st.test) if not _has_patch_call(st.test, names) else None
            if t is None:       # the call sits in the test itself: it runs under the current guard
                sites.append(guard)
                t = "(.atom %d)" % (len(G.atoms))
                G.atoms.append(ast.unparse(st.test))
            _walk(st.body, _conj(guard, t), G, names, sites, skip_try)
            _walk(st.orelse, _conj(guard, f"(.not {t})"), G, names, sites, skip_try)
            if _ends(st.body) and not _ends(st.orelse):
                guard = _conj(guard, f"(.not {t})")
            elif _ends(st.orelse) and st.orelse and not _ends(st.body):
                guard = _conj(guard, t)
        elif isinstance(st, ast.Try):
            _walk(st.body, guard, G, names, sites, skip_try)
            if st is not skip_try:
                for h in st.handlers:     # reached only if something raised: an unknown condition
                    G.atoms.append(f"<exception reaches handler at line {h.lineno}>")
                    _walk(h.body, _conj(guard, "(.atom %d)" % (len(G.atoms) - 1)), G, names, sites, skip_try)
            _walk(st.orelse, guard, G, names, sites, skip_try)
            _walk(st.finalbody, guard, G, names, sites, skip_try)
        elif isinstance(st, (ast.For, ast.While, ast.AsyncFor)):
            G.atoms.append(f"<loop at line {st.lineno} runs>")
            _walk(st.body, _conj(guard, "(.atom %d)" % (len(G.atoms) - 1)), G, names, sites, skip_try)
        elif isinstance(st, (ast.With, ast.AsyncWith)):
            _walk(st.body, guard, G, names, sites, skip_try)
        elif isinstance(st, (ast.FunctionDef, ast.AsyncFunctionDef, ast.ClassDef, ast.Lambda)):
            continue
        elif _has_patch_call(st, names):
            sites.append(guard)


def _handler_facts(fn, names, notes):
    """(try node | None, handlerRetries, marker)"""
    for tr in [n for n in ast.walk(fn) if isinstance(n, ast.Try)]:
        opens = [s for s in tr.body if isinstance(s, ast.Assign) and _is_reader_ctor(s.value)]
        if not opens:
            continue
        for h in tr.handlers:
            tnames = {n.id for n in ast.walk(h.type) if isinstance(n, ast.Name)} | \
                     {n.attr for n in ast.walk(h.type) if isinstance(n, ast.Attribute)} if h.type is not None else {"BaseException"}
            if not tnames & {"DependencyError", "Exception", "BaseException"}:
                continue
            marker, ok = "", True
            patched = reopened = False
            for s in h.body:
                if isinstance(s, ast.If) and _ends(s.body) and not s.orelse:
                    t = s.test
                    if (isinstance(t, ast.Compare) and len(t.ops) == 1 and isinstance(t.ops[0], ast.NotIn)
                            and isinstance(t.left, ast.Constant) and isinstance(t.left.value, str)
                            and isinstance(t.comparators[0], ast.Call) and getattr(t.comparators[0].func, "id", "") == "str"
                            and getattr(t.comparators[0].args[0] if t.comparators[0].args else None, "id", None) == h.name):
                        if patched:
                            ok = False
                        if marker:
                            ok = False
                            notes.append(f"{fn.name}: several marker tests in the DependencyError handler")
                        marker = t.left.value
                    elif isinstance(t, ast.UnaryOp) and isinstance(t.op, ast.Not) and _is_patch_call(t.operand, names):
                        patched = True
                    else:
                        ok = False
                        notes.append(f"{fn.name}: handler re-raises under a condition that is not translated: {ast.unparse(t)}")
                elif isinstance(s, ast.Raise):
                    if not (patched and reopened):
                        ok = False
                elif _has_patch_call(s, names) and isinstance(s, (ast.Expr, ast.Assign)):
                    patched = True
                elif isinstance(s, ast.Assign) and _is_reader_ctor(s.value):
                    reopened = patched
                elif isinstance(s, ast.Expr) and isinstance(s.value, ast.Call) and getattr(s.value.func, "attr", "") == "seek":
                    pass
                elif isinstance(s, (ast.If, ast.For, ast.While, ast.Try, ast.With, ast.Return)):
                    ok = False
                    notes.append(f"{fn.name}: statement in the DependencyError handler is not translated: {ast.unparse(s)[:80]}")
            return tr, bool(ok and patched and reopened), marker
        return tr, False, ""
    return None, False, ""


def _patch_bindings(notes):
    fn = find_func(FALLBACK, PATCH)
    alias = {}
    out = []
    for st in fn.body:
        if isinstance(st, ast.Import):
            for a in st.names:
                alias[a.asname or a.name.split(".")[0]] = a.name
        elif isinstance(st, ast.ImportFrom):
            for a in st.names:
                alias[a.asname or a.name] = f"{st.module}.{a.name}"
        elif isinstance(st, ast.Assign):
            for t in st.targets:
                parts, n = [], t
                while isinstance(n, ast.Attribute):
                    parts.append(n.attr)
                    n = n.value
                if isinstance(n, ast.Name) and n.id in alias and parts:
                    out.append((alias[n.id], ".".join(reversed(parts))))
    return out


def _needed_bindings():
    import pypdf._crypt_providers as providers
    import pypdf._crypt_providers._fallback as fb
    import pypdf._encryption as enc
    funcs = sorted(n for n in vars(fb) if n.startswith("aes_") and callable(getattr(fb, n)))
    need = []
    for m in (fb, providers, enc):
        for n in funcs:
            if hasattr(m, n):
                need.append((m.__name__, n))
        if hasattr(m, "CryptAES") and getattr(m, "CryptAES") is not fb.CryptAES:
            need.append((m.__name__, "CryptAES"))
    for meth in ("__init__", "encrypt", "decrypt"):
        if meth in vars(fb.CryptAES):
            need.append((fb.__name__, f"CryptAES.{meth}"))
    return need, getattr(fb, "_DEPENDENCY_ERROR_STR", "")


@generator("PdfCrypt")
def gen_pdfcrypt() -> str:
    notes = []
    mod = parse(PDF)
    names = _patch_names(mod)
    fresh_import("sharepoint2text.parsing.extractors.pdf.pdf_extractor")
    rfn = find_func(PDF, "read_pdf")
    # the function read_pdf takes the reader it decrypts from
    dec_vars = {n.func.value.id for n in ast.walk(rfn) if isinstance(n, ast.Call) and isinstance(n.func, ast.Attribute)
                and n.func.attr == "decrypt" and isinstance(n.func.value, ast.Name)}
    srcs = [ast.unparse(n.value.func) for n in ast.walk(rfn) if isinstance(n, ast.Assign) and isinstance(n.value, ast.Call)
            and any(isinstance(t, ast.Name) and t.id in dec_vars for t in n.targets)]
    opener = srcs[0] if len(srcs) == 1 else ""
    if len(srcs) != 1:
        notes.append(f"read_pdf: the reader it decrypts is assigned {len(srcs)} times ({srcs})")
    funcs = {n.name: n for n in mod.body if isinstance(n, (ast.FunctionDef, ast.AsyncFunctionDef))}
    ofn = funcs.get(opener)
    if ofn is None:
        notes.append(f"read_pdf: its reader comes from {opener!r}, which is not a function of pdf_extractor.py")
        ofn = rfn
    readers = {t.id for n in ast.walk(ofn) if isinstance(n, ast.Assign) and _is_reader_ctor(n.value) for t in n.targets if isinstance(t, ast.Name)}
    if ofn is rfn:
        readers |= dec_vars
    tr, retries, marker = _handler_facts(ofn, names, notes)
    G = _G(readers)
    sites = []
    _walk(ofn.body, "(.const true)", G, names, sites, tr)
    patch_sites = sorted(f.name for f in funcs.values() if _has_patch_call(f, names))
    ctor_sites = sorted(f.name for f in funcs.values() if any(_is_reader_ctor(n) for n in ast.walk(f)))
    bindings = _patch_bindings(notes)
    needed, msg = _needed_bindings()
    if not msg:
        notes.append("pypdf: no _DEPENDENCY_ERROR_STR in the fallback provider")

    def pairs(xs):
        return lean_list((f"({lean_str(a)}, {lean_str(b)})" for a, b in xs), per_line=2)

    L = [HEADER.format(src=f"{PDF}, {FALLBACK}"), "import S2T.Model.PdfCrypt", "namespace S2T.Gen.PdfCrypt", "open S2T.PdfCrypt", ""]
    L.append(f"def opener : String := {lean_str(opener)}")
    L.append("def opaques : List String := " + lean_list(lean_str(o) for o in G.atoms))
    L.append("def patchSites : List String := " + lean_list((lean_str(s) for s in patch_sites), per_line=8))
    L.append("def readerCtorSites : List String := " + lean_list((lean_str(s) for s in ctor_sites), per_line=8))
    L.append("def code : OpenCode := {")
    L.append(f"  handlerRetries := {'true' if retries else 'false'}")
    L.append(f"  retryMarker := {lean_str(marker)}")
    L.append(f"  aesErrorMessage := {lean_str(msg)}")
    L.append("  postGuards := " + lean_list(sites, per_line=1))
    L.append("  patchBindings := " + pairs(bindings))
    L.append("  neededBindings := " + pairs(needed))
    L.append("}")
    L.append("def notes : List String := " + lean_list(lean_str(n) for n in notes))
    L.append("\nend S2T.Gen.PdfCrypt")
    return "\n".join(L) + "\n"
