"""C04: inventories behind the common interface -> S2T/Gen/Iface.lean

Read from the CURRENT tree (runtime reflection of data_types first, AST of the whole package second):

* every class of data_types implementing one of the protocols (result / unit / image / table) with the list of
  protocol accessors it defines (reflective; a new class or a dropped accessor changes the inventory);
* for every image class: the field its get_metadata() reports as image_number / unit_number, whether it reports a
  size (`size_bytes`), which field holds the payload and of which kind (bytes | stream); for every unit class the
  field (or constant) reported as unit_number; all taken from the AST of the accessor and cross-checked at runtime
  on a probe instance;
* every constructor call site (whole package, tests excluded) of those classes: for each number field the
  expression given (classified by a small intra-module data-flow: 1-based enumerate / counter incremented before
  use / len(..)+1 / field copy / positive constant / None / parameter resolved through the callers) or the
  dataclass default when the keyword is absent; for each size-reporting image class whether `size_bytes` is
  `len(v)` of the very `v` stored as payload;
* for every constructor call site of an image class: where the payload object comes from (`io.BytesIO(..)` written at
  the site = a new object per image | immutable bytes | nothing | anything else = may be one object in several images);
  for every image class the form of its `get_bytes()` (wrap the bytes in a new stream | rewind and return the stored one);
* every read of an attribute `.text` in the package, classified by how the value is protected against `None`
  (ElementTree gives `None` for an element that is present but empty) and whether the receiver is an XML element;
* RTF stripper constants that end up in text (SPECIAL_CHARS values as code points; the \\uN mask);
* the per-format map `metadata field <- XML tag` of the document-property readers (AST), for the pass-through theorems.
"""
from __future__ import annotations

import ast
import dataclasses
import io
import os

from translate import HEADER, REPO, fresh_import, generator, lean_list, lean_str, parse

PKG = "sharepoint2text"
DT = "sharepoint2text/parsing/extractors/data_types.py"
RTF = "sharepoint2text/parsing/extractors/ms_legacy/rtf_extractor.py"

RESULT_ACC = ["iterate_units", "iterate_images", "iterate_tables", "get_full_text", "get_metadata"]
UNIT_ACC = ["get_text", "get_images", "get_tables", "get_metadata"]
IMAGE_ACC = ["get_bytes", "get_content_type", "get_caption", "get_description", "get_metadata"]
TABLE_ACC = ["get_table", "get_dim"]


# ----------------------------------------------------------------------------- reflection
def _classes():
    dt = fresh_import("sharepoint2text.parsing.extractors.data_types")
    out = {"result": [], "unit": [], "image": [], "table": []}
    for name, cls in sorted(vars(dt).items()):
        if not isinstance(cls, type) or cls.__module__ != dt.__name__ or not dataclasses.is_dataclass(cls):
            continue
        if getattr(cls, "_is_protocol", False):
            continue
        mro = {c.__name__ for c in cls.__mro__}
        if "ExtractionInterface" in mro:
            out["result"].append(cls)
        elif "UnitInterface" in mro:
            out["unit"].append(cls)
        elif "ImageInterface" in mro:
            out["image"].append(cls)
        elif "TableInterface" in mro:
            out["table"].append(cls)
    return dt, out


def _defined(cls, names):
    """protocol accessors the class really implements (not the abstract stub inherited from the Protocol)"""
    res = []
    for n in names:
        f = getattr(cls, n, None)
        if f is None or getattr(f, "__isabstractmethod__", False):
            continue
        res.append(n)
    return res


def _classdefs():
    return {n.name: n for n in parse(DT).body if isinstance(n, ast.ClassDef)}


def _method(cd, name):
    for n in cd.body:
        if isinstance(n, ast.FunctionDef) and n.name == name:
            return n
    return None


def _self_attr(e):
    return e.attr if isinstance(e, ast.Attribute) and isinstance(e.value, ast.Name) and e.value.id == "self" else None


def _reported(e):
    """what an accessor reports for a number keyword: ('field', name) | ('fieldpos', name) | ('const', k) | ('none',) | ('other',)
    fieldpos = `self.f if self.f > 0 else None`"""
    if isinstance(e, ast.Constant):
        if e.value is None:
            return ("none",)
        if isinstance(e.value, int) and not isinstance(e.value, bool):
            return ("const", e.value)
        return ("other",)
    a = _self_attr(e)
    if a:
        return ("field", a)
    if isinstance(e, ast.IfExp):
        a = _self_attr(e.body)
        t = e.test
        if (a and isinstance(e.orelse, ast.Constant) and e.orelse.value is None and isinstance(t, ast.Compare)
                and _self_attr(t.left) == a and len(t.ops) == 1 and isinstance(t.ops[0], ast.Gt)
                and isinstance(t.comparators[0], ast.Constant) and t.comparators[0].value == 0):
            return ("fieldpos", a)
    return ("other",)


def _meta_call_kw(fn, kw):
    """the value of keyword `kw` in the (single) `return X(...)` of accessor `fn`"""
    rets = [n for n in ast.walk(fn) if isinstance(n, ast.Return) and isinstance(n.value, ast.Call)]
    if len(rets) != 1:
        return None
    for k in rets[0].value.keywords:
        if k.arg == kw:
            return k.value
    return None


# ----------------------------------------------------------------------------- call-site data-flow
class _Module:
    def __init__(self, rel):
        self.rel = rel
        self.tree = parse(rel)
        self.parent = {}
        for n in ast.walk(self.tree):
            for c in ast.iter_child_nodes(n):
                self.parent[c] = n
        self.funcs = {}
        for n in ast.walk(self.tree):
            if isinstance(n, (ast.FunctionDef, ast.AsyncFunctionDef)):
                self.funcs.setdefault(n.name, []).append(n)

    def enclosing_fn(self, node):
        n = node
        while n in self.parent:
            n = self.parent[n]
            if isinstance(n, (ast.FunctionDef, ast.AsyncFunctionDef)):
                return n
        return None

    def stmt_chain(self, node):
        """[(body_list, index)] from the innermost statement containing node outwards, within the enclosing function"""
        chain = []
        n = node
        while n in self.parent:
            p = self.parent[n]
            for fld in ("body", "orelse", "finalbody", "handlers"):
                lst = getattr(p, fld, None)
                if isinstance(lst, list) and n in lst:
                    chain.append((p, fld, lst, lst.index(n)))
            if isinstance(p, (ast.FunctionDef, ast.AsyncFunctionDef)):
                break
            n = p
        return chain


def _is_inc(st, name):
    return (isinstance(st, ast.AugAssign) and isinstance(st.op, ast.Add) and isinstance(st.target, ast.Name)
            and st.target.id == name and isinstance(st.value, ast.Constant) and st.value.value == 1)


def _is_succ_assign(mod, st, name, fn):
    if not (isinstance(st, ast.Assign) and len(st.targets) == 1 and isinstance(st.targets[0], ast.Name) and st.targets[0].id == name):
        return False
    e = st.value
    if isinstance(e, ast.BinOp) and isinstance(e.op, ast.Add):
        for a, b in ((e.left, e.right), (e.right, e.left)):
            if isinstance(b, ast.Constant) and isinstance(b.value, int) and b.value >= 1 and _nonneg(mod, a, fn):
                return True
    return False


def _enum_start(call):
    """start of enumerate(...) or None"""
    if not (isinstance(call, ast.Call) and isinstance(call.func, ast.Name) and call.func.id == "enumerate"):
        return None
    if len(call.args) >= 2 and isinstance(call.args[1], ast.Constant):
        return call.args[1].value
    for k in call.keywords:
        if k.arg == "start" and isinstance(k.value, ast.Constant):
            return k.value.value
    if len(call.args) == 1 and not call.keywords:
        return 0
    return None


def _nonneg_param(mod, name, fn, _seen=None):
    """`name` is a parameter of fn with a non-negative int default, never re-assigned in fn except by `+=` of a
    non-negative amount, and every call of fn in the module passes a non-negative expression for it"""
    _seen = _seen or set()
    if (fn.name, name) in _seen:
        return True
    _seen = _seen | {(fn.name, name)}
    args = fn.args
    params = [a.arg for a in args.posonlyargs + args.args]
    if name not in params:
        return False
    idx = params.index(name)
    defaults = [None] * (len(params) - len(args.defaults)) + list(args.defaults)
    d = defaults[idx]
    if not (isinstance(d, ast.Constant) and isinstance(d.value, int) and not isinstance(d.value, bool) and d.value >= 0):
        return False
    for n in ast.walk(fn):
        if isinstance(n, ast.Assign) and any(isinstance(t, ast.Name) and t.id == name for t in n.targets):
            return False
        if isinstance(n, ast.AugAssign) and isinstance(n.target, ast.Name) and n.target.id == name:
            if not (isinstance(n.op, ast.Add) and _nonneg(mod, n.value, fn)):
                return False
    tree = getattr(mod, "tree", None)
    if tree is None:
        return False
    for caller in ast.walk(tree):
        if not isinstance(caller, (ast.FunctionDef, ast.AsyncFunctionDef)):
            continue
        for c in ast.walk(caller):
            if isinstance(c, ast.Call) and isinstance(c.func, ast.Name) and c.func.id == fn.name:
                passed = None
                off = idx - (1 if params and params[0] in ("self", "cls") else 0)
                if len(c.args) > idx:
                    passed = c.args[idx]
                for k in c.keywords:
                    if k.arg == name:
                        passed = k.value
                if passed is not None and not _nonneg(mod, passed, caller):
                    return False
    return True


def _nonneg(mod, e, fn):
    """expression known to be >= 0: len(..), 0-based enumerate/range index, non-negative constant"""
    if isinstance(e, ast.Constant) and isinstance(e.value, int) and e.value >= 0:
        return True
    if isinstance(e, ast.Call) and isinstance(e.func, ast.Name) and e.func.id == "len":
        return True
    if isinstance(e, ast.BinOp) and isinstance(e.op, ast.Add):
        return _nonneg(mod, e.left, fn) and _nonneg(mod, e.right, fn)
    if isinstance(e, ast.Name) and fn is not None and _nonneg_param(mod, e.id, fn):
        return True
    if isinstance(e, ast.Name) and fn is not None:
        binds = []
        for n in ast.walk(fn):
            if isinstance(n, ast.Assign) and any(isinstance(t, ast.Name) and t.id == e.id for t in n.targets):
                binds.append(isinstance(n.value, ast.Constant) and isinstance(n.value.value, int) and n.value.value >= 0)
            elif isinstance(n, ast.AugAssign) and isinstance(n.target, ast.Name) and n.target.id == e.id:
                binds.append(_is_inc(n, e.id) or (isinstance(n.op, ast.Add) and _nonneg(mod, n.value, fn)))
            elif isinstance(n, (ast.For, ast.comprehension)) and any(isinstance(x, ast.Name) and x.id == e.id for x in ast.walk(n.target)):
                binds.append(None)
        if binds and all(b is True for b in binds):
            return True  # `c = k >= 0` / `c += 1` only
        for n in ast.walk(fn):
            if isinstance(n, (ast.For, ast.comprehension)):
                tgt, it = n.target, n.iter
                if isinstance(tgt, ast.Tuple) and tgt.elts and isinstance(tgt.elts[0], ast.Name) and tgt.elts[0].id == e.id:
                    s = _enum_start(it)
                    if isinstance(s, int) and s >= 0:
                        return True
                if isinstance(tgt, ast.Name) and tgt.id == e.id and isinstance(it, ast.Call) and isinstance(it.func, ast.Name) and it.func.id == "range":
                    if len(it.args) == 1 or (isinstance(it.args[0], ast.Constant) and isinstance(it.args[0].value, int) and it.args[0].value >= 0):
                        return True
    return False


def classify(mod: _Module, e, site, depth=0) -> str:
    """kind of the expression `e` used at node `site` (a Call) as a 1-based number"""
    fn = mod.enclosing_fn(site)
    if isinstance(e, ast.Constant):
        if e.value is None:
            return "none"
        if isinstance(e.value, int) and not isinstance(e.value, bool):
            return f"const:{e.value}"
        return "other:constant"
    if isinstance(e, ast.Attribute):
        return "copy:" + e.attr
    if isinstance(e, ast.BinOp) and isinstance(e.op, ast.Add):
        for a, b in ((e.left, e.right), (e.right, e.left)):
            if isinstance(b, ast.Constant) and isinstance(b.value, int) and b.value >= 1 and _nonneg(mod, a, fn):
                return "succ"
        return "other:binop"
    if isinstance(e, ast.IfExp):
        a, b = classify(mod, e.body, site, depth), classify(mod, e.orelse, site, depth)
        return a if a == b else f"either:{a}|{b}"
    if isinstance(e, ast.BoolOp) and isinstance(e.op, ast.Or) and len(e.values) == 2:
        # `x or k`: x when truthy (non-zero) else k
        b = classify(mod, e.values[1], site, depth)
        a = classify(mod, e.values[0], site, depth)
        return f"either:{a}|{b}"
    if isinstance(e, ast.Call) and isinstance(e.func, ast.Name):
        return "call:" + e.func.id
    if isinstance(e, ast.Name) and fn is not None:
        name = e.id
        while any(isinstance(n, ast.Nonlocal) and name in n.names for n in ast.walk(fn)) and mod.enclosing_fn(fn) is not None:
            fn = mod.enclosing_fn(fn)
        # loop target of a 1-based enumerate
        kinds = set()
        for n in ast.walk(fn):
            if isinstance(n, (ast.For, ast.comprehension)):
                tgt = n.target
                if isinstance(tgt, ast.Tuple) and tgt.elts and isinstance(tgt.elts[0], ast.Name) and tgt.elts[0].id == name:
                    s = _enum_start(n.iter)
                    kinds.add(f"enum:{s}" if isinstance(s, int) else "other:enumerate")
                elif any(isinstance(x, ast.Name) and x.id == name for x in ast.walk(tgt)):
                    kinds.add("other:loop-target")
            elif isinstance(n, ast.Assign) and any(isinstance(t, ast.Name) and t.id == name for t in n.targets):
                v = n.value
                if isinstance(v, ast.Constant) and v.value == 0:
                    kinds.add("init0")
                else:
                    kinds.add("assign:" + classify(mod, v, n, depth + 1) if depth < 3 else "other:deep")
            elif isinstance(n, ast.AugAssign) and isinstance(n.target, ast.Name) and n.target.id == name:
                kinds.add("inc" if _is_inc(n, name) else "other:augassign")
            elif isinstance(n, (ast.Assign, ast.AnnAssign, ast.With, ast.NamedExpr)):
                tg = n.targets if isinstance(n, ast.Assign) else [getattr(n, "target", None)]
                for t in tg:
                    if t is not None and not isinstance(t, ast.Name) and any(isinstance(x, ast.Name) and x.id == name and isinstance(x.ctx, ast.Store) for x in ast.walk(t)):
                        kinds.add("other:unpack")
        args = fn.args
        params = [a.arg for a in args.posonlyargs + args.args + args.kwonlyargs]
        if name in params and not kinds:
            # resolve through the callers of this function inside the module
            if depth >= 3:
                return "other:deep-param"
            idx = (args.posonlyargs + args.args).index(next(a for a in args.posonlyargs + args.args + args.kwonlyargs if a.arg == name)) if name in [a.arg for a in args.posonlyargs + args.args] else None
            found = set()
            for n in ast.walk(mod.tree):
                if isinstance(n, ast.Call) and ((isinstance(n.func, ast.Name) and n.func.id == fn.name) or (isinstance(n.func, ast.Attribute) and n.func.attr == fn.name)):
                    arg = None
                    for k in n.keywords:
                        if k.arg == name:
                            arg = k.value
                    off = 1 if (isinstance(n.func, ast.Attribute) and params and params[0] == "self") else 0
                    if arg is None and idx is not None and 0 <= idx - off < len(n.args):
                        arg = n.args[idx - off]
                    if arg is None:
                        dflt = _param_default(fn, name)
                        found.add("other:caller-omits" if dflt is None else classify(mod, dflt, n, depth + 1))
                    else:
                        found.add(classify(mod, arg, n, depth + 1))
            if not found:
                return "other:param-without-caller"
            return found.pop() if len(found) == 1 else "either:" + "|".join(sorted(found))
        if kinds == {"enum:1"}:
            return "enum:1"
        if kinds and "inc" in kinds and all(k == "inc" or (k.startswith("assign:const:") and int(k[13:]) >= 1) for k in kinds):
            return "counter"  # starts at k >= 1 and only ever grows
        if kinds and kinds <= {"init0", "inc", "assign:succ"} and kinds & {"inc", "assign:succ"}:
            # counter: `n += 1` or `n = <nonneg> + 1` must come before the site in the site's own statement chain
            for p, fld, lst, i in mod.stmt_chain(site):
                if any(_is_inc(s, name) or _is_succ_assign(mod, s, name, fn) for s in lst[:i]):
                    return "counter"
            return "other:counter-not-incremented-before-use"
        if len(kinds) == 1:
            k = kinds.pop()
            if k.startswith("assign:"):
                return k[len("assign:"):]
            return k if k.startswith(("enum:", "other:")) else "other:" + k
        if kinds:
            ks = sorted(k[len("assign:"):] if k.startswith("assign:") else k for k in kinds)
            return "either:" + "|".join(ks)
        return "other:unbound-name"
    return "other:" + type(e).__name__


def _param_default(fn, name):
    a = fn.args
    pos = a.posonlyargs + a.args
    for i, p in enumerate(pos):
        if p.arg == name:
            j = i - (len(pos) - len(a.defaults))
            return a.defaults[j] if j >= 0 else None
    for p, d in zip(a.kwonlyargs, a.kw_defaults):
        if p.arg == name:
            return d
    return None


def _py_files():
    root = os.path.join(REPO, PKG)
    out = []
    for d, dirs, files in os.walk(root):
        dirs[:] = sorted(x for x in dirs if x not in ("tests", "__pycache__"))
        for f in sorted(files):
            if f.endswith(".py"):
                out.append(os.path.relpath(os.path.join(d, f), REPO))
    return out


def _flatten(kind: str):
    """'either:a|b' -> ['a','b'] (nested either flattened)"""
    if kind.startswith("either:"):
        res = []
        for part in kind[len("either:"):].split("|"):
            res += _flatten(part)
        return res
    return [kind]


def _kind_lean(kind: str) -> str:
    def one(k):
        if k == "none":
            return ".none"
        if k.startswith("const:"):
            v = int(k[6:])
            return f".const {v}" if v >= 0 else f".other {lean_str(k)}"
        if k.startswith("enum:"):
            return f".enumFrom {int(k[5:])}"
        if k == "succ":
            return ".succ"
        if k == "counter":
            return ".counter"
        if k.startswith("copy:"):
            return f".copy {lean_str(k[5:])}"
        if k.startswith("call:"):
            return f".call {lean_str(k[5:])}"
        if k.startswith("default:"):
            d = k[8:]
            if d == "None":
                return ".none"
            try:
                v = int(d)
                return f".dflt {v}" if v >= 0 else f".other {lean_str(k)}"
            except ValueError:
                return f".other {lean_str(k)}"
        return f".other {lean_str(k)}"
    parts = sorted(set(_flatten(kind)))
    return "[" + ", ".join(one(p) for p in parts) + "]"


def _binds_name(node, name):
    """does this statement / expression (re)bind `name`? (assignment, augmented assignment, loop / with target, walrus, del)"""
    for x in ast.walk(node):
        if isinstance(x, ast.Name) and x.id == name and isinstance(x.ctx, (ast.Store, ast.Del)):
            return True
    return False


def _size_through_name(mod, sz, pv, site):
    """`size_bytes=<name>` : accepted when the name is bound exactly once in the function, by `len(v)` of the very
    variable `v` stored as payload (or wrapped in io.BytesIO), in a statement that precedes the constructor call in
    one of its enclosing blocks, and `v` is not re-bound anywhere between that statement and the call.
    (A size taken BEFORE the payload is transformed is the defect class this excludes.)"""
    fn = mod.enclosing_fn(site)
    if fn is None:
        return "other:size-name-outside-function"
    inner = pv
    if isinstance(pv, ast.Call) and isinstance(pv.func, ast.Attribute) and pv.func.attr == "BytesIO" and len(pv.args) == 1:
        inner = pv.args[0]
    if not isinstance(inner, ast.Name):
        return "other:size-name-payload-not-a-variable"
    binds = [st for st in ast.walk(fn) if isinstance(st, ast.stmt) and not isinstance(st, (ast.FunctionDef, ast.AsyncFunctionDef, ast.ClassDef))
             and any(isinstance(x, ast.Name) and x.id == sz.id and isinstance(x.ctx, (ast.Store, ast.Del)) for x in _own_targets(st))]
    if len(binds) != 1:
        return "other:size-name-bound-%d-times" % len(binds)
    b = binds[0]
    if not (isinstance(b, ast.Assign) and len(b.targets) == 1 and isinstance(b.targets[0], ast.Name) and isinstance(b.value, ast.Call)
            and isinstance(b.value.func, ast.Name) and b.value.func.id == "len" and len(b.value.args) == 1 and not b.value.keywords
            and ast.dump(b.value.args[0]) == ast.dump(inner)):
        return "other:size-name-not-len-of-payload"
    precedes = any(b in lst[:i] for _, _, lst, i in mod.stmt_chain(site))
    if not precedes:
        return "other:size-name-bound-elsewhere"
    for st in ast.walk(fn):
        if isinstance(st, ast.stmt) and st is not b and b.lineno < st.lineno <= site.lineno and not isinstance(st, (ast.For, ast.While, ast.If, ast.With, ast.Try)):
            if any(isinstance(x, ast.Name) and x.id == inner.id and isinstance(x.ctx, (ast.Store, ast.Del)) for x in _own_targets(st)):
                return "other:payload-rebound-after-size-taken"
        if isinstance(st, (ast.For, ast.With)) and b.lineno < st.lineno <= site.lineno:
            tg = [st.target] if isinstance(st, ast.For) else [i.optional_vars for i in st.items if i.optional_vars is not None]
            if any(isinstance(x, ast.Name) and x.id == inner.id for t in tg for x in ast.walk(t)):
                return "other:payload-rebound-after-size-taken"
    return "lenOfPayload"


def _own_targets(st):
    """the binding targets of a simple statement (not those of statements nested in it)"""
    out = []
    if isinstance(st, ast.Assign):
        for t in st.targets:
            out += list(ast.walk(t))
    elif isinstance(st, (ast.AugAssign, ast.AnnAssign)):
        out += list(ast.walk(st.target))
    elif isinstance(st, ast.Delete):
        for t in st.targets:
            out += list(ast.walk(t))
    elif isinstance(st, ast.For):
        out += list(ast.walk(st.target))
    elif isinstance(st, ast.With):
        for i in st.items:
            if i.optional_vars is not None:
                out += list(ast.walk(i.optional_vars))
    if not isinstance(st, (ast.For, ast.While, ast.If, ast.With, ast.Try)):
        out += [x for x in ast.walk(st) if isinstance(x, ast.NamedExpr) for x in ast.walk(x.target)]
    return out


# ----------------------------------------------------------------------------- BLIP pipeline constants
IMG_UTILS = "sharepoint2text/parsing/extractors/util/image_utils.py"
BLIP_SITES = [("sharepoint2text/parsing/extractors/ms_legacy/ppt_extractor.py", "_extract_images_from_pictures_stream"),
              ("sharepoint2text/parsing/extractors/ms_legacy/xls_extractor.py", "_extract_images_from_workbook")]


def _blip_constants(notes):
    iu = fresh_import("sharepoint2text.parsing.extractors.util.image_utils")
    types = [int(x) for x in iu.BLIP_TYPES]
    # signatures in the order detect_image_type tests them (AST), values and content types from the runtime
    sigs = []
    tree = parse(IMG_UTILS)
    fn = next((n for n in ast.walk(tree) if isinstance(n, ast.FunctionDef) and n.name == "detect_image_type"), None)
    if fn is None:
        notes.append("image_utils.detect_image_type not found")
    else:
        names = []
        for n in ast.walk(fn):
            if isinstance(n, ast.Compare):
                for c in n.comparators:
                    if isinstance(c, ast.Name) and c.id.endswith("_SIGNATURE"):
                        names.append((n.lineno, n.col_offset, c.id))
        for _, _, nm in sorted(names):
            v = getattr(iu, nm, None)
            if not isinstance(v, bytes):
                notes.append(f"image_utils.{nm} is not bytes")
                continue
            got = iu.detect_image_type(v + b"\0" * 8)
            if got is None:
                notes.append(f"detect_image_type does not recognise its own {nm}")
                continue
            sigs.append((list(v), got[1]))
    # the instances with a secondary UID, as the two extractors test them
    second = None
    for rel, fname in BLIP_SITES:
        try:
            t = parse(rel)
        except Exception as e:  # noqa: BLE001
            notes.append(f"{rel}: {e}")
            continue
        f = next((n for n in ast.walk(t) if isinstance(n, ast.FunctionDef) and n.name == fname), None)
        if f is None:
            notes.append(f"{rel}: {fname} not found")
            continue
        found = None
        for n in ast.walk(f):
            if isinstance(n, ast.Compare) and len(n.ops) == 1 and isinstance(n.ops[0], ast.In) and isinstance(n.comparators[0], ast.Tuple) \
                    and all(isinstance(e, ast.Name) and e.id.startswith("BLIP_INSTANCE") for e in n.comparators[0].elts):
                found = sorted(int(getattr(iu, e.id)) for e in n.comparators[0].elts)
        if found is None:
            notes.append(f"{rel}: {fname}: secondary-UID instance test not found")
        elif second is not None and found != second:
            notes.append(f"{rel}: {fname}: secondary-UID instances differ from the other extractor")
        else:
            second = found
    return {"types": types, "emf": int(iu.BLIP_TYPE_EMF), "wmf": int(iu.BLIP_TYPE_WMF), "dib": int(iu.BLIP_TYPE_DIB),
            "second": second or [], "sigs": sigs}


# ----------------------------------------------------------------------------- process state behind the metadata
_HOST_ATTRS = {"exists", "resolve", "stat", "lstat", "is_file", "is_dir", "is_symlink", "absolute", "cwd", "getcwd", "realpath", "abspath",
               "readlink", "expanduser", "samefile", "iterdir", "glob", "rglob", "home", "listdir", "scandir", "walk", "open", "read_bytes", "read_text"}
_MUTATORS = {"append", "add", "setdefault", "update", "extend", "insert", "pop", "popitem", "clear", "remove", "discard", "__setitem__"}


def _module_level_names(tree):
    out = set()
    for n in tree.body:
        if isinstance(n, ast.Assign):
            for t in n.targets:
                if isinstance(t, ast.Name):
                    out.add(t.id)
        elif isinstance(n, ast.AnnAssign) and isinstance(n.target, ast.Name):
            out.add(n.target.id)
    return out


def _fn_index(tree):
    """module-level functions and methods: name -> [FunctionDef] (methods also under their bare name)"""
    idx = {}
    for n in tree.body:
        if isinstance(n, (ast.FunctionDef, ast.AsyncFunctionDef)):
            idx.setdefault(n.name, []).append(n)
        elif isinstance(n, ast.ClassDef):
            for m in n.body:
                if isinstance(m, (ast.FunctionDef, ast.AsyncFunctionDef)):
                    idx.setdefault(m.name, []).append(m)
    return idx


def _callees(fn, idx):
    out = set()
    for n in ast.walk(fn):
        if isinstance(n, ast.Call):
            if isinstance(n.func, ast.Name) and n.func.id in idx:
                out.add(n.func.id)
            elif isinstance(n.func, ast.Attribute) and isinstance(n.func.value, ast.Name) and n.func.value.id in ("self", "cls") and n.func.attr in idx:
                out.add(n.func.attr)
        elif isinstance(n, ast.Name) and n.id in idx and isinstance(n.ctx, ast.Load):
            out.add(n.id)  # a function passed around (decorator argument, callback)
    out.discard(fn.name)
    return out


def _closure(start, idx):
    seen, todo = [], list(start)
    while todo:
        nm = todo.pop()
        if nm in seen:
            continue
        seen.append(nm)
        for f in idx.get(nm, []):
            todo += sorted(_callees(f, idx))
    return seen


def _touches_host_direct(fn):
    for n in ast.walk(fn):
        if isinstance(n, ast.Attribute) and n.attr in _HOST_ATTRS:
            return True
        if isinstance(n, ast.Name) and n.id == "open":
            return True
    return False


def _globals_written(fn, modnames):
    out = set()
    for n in ast.walk(fn):
        if isinstance(n, ast.Global):        # (`nonlocal` is state of one call, not of the process)
            out |= set(n.names)
        elif isinstance(n, ast.Call) and isinstance(n.func, ast.Attribute) and n.func.attr in _MUTATORS \
                and isinstance(n.func.value, ast.Name) and n.func.value.id in modnames:
            out.add(n.func.value.id)
        elif isinstance(n, (ast.Subscript, ast.Attribute)) and isinstance(n.ctx, (ast.Store, ast.Del)) \
                and isinstance(n.value, ast.Name) and n.value.id in modnames:
            out.add(n.value.id)
    return sorted(out)


def _state_sites(notes):
    """functions reachable from FileMetadataInterface.populate_from_path (inside data_types), every memoised function
    and every function of the package that writes module-level state (`global`, or a module-level container it
    mutates): decorators, module state written, whether the file system / cwd is consulted"""
    rows = []
    for rel in _py_files():
        try:
            tree = parse(rel)
        except SyntaxError as e:
            notes.append(f"{rel}: {e}")
            continue
        idx = _fn_index(tree)
        modnames = _module_level_names(tree)
        on_path = set(_closure(["populate_from_path"], idx)) if rel == DT else set()
        if rel == DT and "populate_from_path" not in idx:
            notes.append("data_types: populate_from_path not found")
        for nm, fns in sorted(idx.items()):
            for f in fns:
                decs = [ast.unparse(d) for d in f.decorator_list]
                memo = any("cache" in d.lower() or "memo" in d.lower() for d in decs)
                gw = _globals_written(f, modnames)
                if not (memo or nm in on_path or gw):
                    continue
                clo = _closure([nm], idx)
                touches = any(_touches_host_direct(g) for c in clo for g in idx.get(c, []))
                rows.append((os.path.basename(rel), nm, decs, gw, touches, nm in on_path))
    return rows



# ----------------------------------------------------------------------------- stream identity / get_bytes forms
def _is_bytesio_call(e):
    return (isinstance(e, ast.Call) and ((isinstance(e.func, ast.Attribute) and e.func.attr == "BytesIO")
                                         or (isinstance(e.func, ast.Name) and e.func.id == "BytesIO")))


def _stream_origin(pk, pv):
    """origin of the payload object a constructor site stores (pk = payload kind of the class, pv = the expression or None)"""
    if pv is None or (isinstance(pv, ast.Constant) and pv.value is None):
        return "noPayload"
    if pk == "bytes":
        return "immutable"
    if _is_bytesio_call(pv):
        # a new object — but WHAT it holds must not depend on where a stored stream happens to stand: `io.BytesIO(x.read())`
        # with x a name / attribute (a stream that lives on, e.g. `image.data`) copies only what lies behind x's current
        # position and moves x (C04_Copies.copy_read_counterexample); `x.getvalue()`, a bytes value, `zf.read(member)` and
        # `<call>().read()` (a handle opened at the site) do not
        for a in list(pv.args) + [k.value for k in pv.keywords]:
            for n in ast.walk(a):
                if (isinstance(n, ast.Call) and isinstance(n.func, ast.Attribute) and n.func.attr in ("read", "read1", "readall", "readline", "readlines", "readinto")
                        and isinstance(n.func.value, (ast.Name, ast.Attribute, ast.Subscript)) and not n.args and not n.keywords):
                    return "other:positional-read:" + ast.unparse(n)[:40]
        return "freshObject"
    if isinstance(pv, ast.IfExp):      # `io.BytesIO(x) if … else None`
        a, b = _stream_origin(pk, pv.body), _stream_origin(pk, pv.orelse)
        if {a, b} <= {"freshObject", "noPayload"}:
            return "freshObject" if "freshObject" in (a, b) else "noPayload"
    return "other:" + type(pv).__name__ + ":" + ast.unparse(pv)[:40]


def _get_bytes_form(cd, pf):
    fn = _method(cd, "get_bytes")
    if fn is None:
        return "other:no-get_bytes"
    rets = [n for n in ast.walk(fn) if isinstance(n, ast.Return)]
    if not rets:
        return "other:no-return"
    local_fresh = set()     # locals bound (once) to io.BytesIO(..)
    for n in ast.walk(fn):
        if isinstance(n, ast.Assign) and len(n.targets) == 1 and isinstance(n.targets[0], ast.Name):
            if _is_bytesio_call(n.value):
                local_fresh.add(n.targets[0].id)
            elif n.targets[0].id in local_fresh:
                return "other:local-rebound"
        if isinstance(n, (ast.Attribute, ast.Subscript)) and isinstance(n.ctx, ast.Store):
            return "other:get_bytes-stores-state"      # e.g. a stream remembered on self / in a module table
    kinds = set()
    for r in rets:
        v = r.value
        if _is_bytesio_call(v) or (isinstance(v, ast.Name) and v.id in local_fresh):
            kinds.add("fresh")
        elif _self_attr(v) == pf:
            kinds.add("stored")
        else:
            kinds.add("other")
    if kinds == {"fresh"}:
        return "wrapBytes"
    if kinds == {"fresh", "stored"} or kinds == {"stored"}:
        seeks = [n for n in ast.walk(fn) if isinstance(n, ast.Call) and isinstance(n.func, ast.Attribute) and n.func.attr == "seek"
                 and _self_attr(n.func.value) == pf and len(n.args) == 1 and isinstance(n.args[0], ast.Constant) and n.args[0].value == 0]
        return "rewindStored" if seeks else "other:stored-stream-not-rewound"
    return "other:returns-" + "+".join(sorted(kinds))


# ----------------------------------------------------------------------------- `.text` reads
_ELEMENT_SOURCES = {"find", "iter", "findall", "iterfind", "getroot", "fromstring", "getchildren", "getparent"}


def _conjuncts(test):
    if isinstance(test, ast.BoolOp) and isinstance(test.op, ast.And):
        out = []
        for v in test.values:
            out += _conjuncts(v)
        return out
    return [ast.dump(test)]


def _is_element_name(mod, fn, name, depth=0):
    """is the local `name` bound to an ElementTree element (or element | None) in `fn`?"""
    if fn is None or depth > 2:
        return False
    a = fn.args
    for p in a.posonlyargs + a.args + a.kwonlyargs:
        if p.arg == name and p.annotation is not None and "Element" in ast.unparse(p.annotation):
            return True

    def from_source(v):
        if isinstance(v, ast.NamedExpr):
            v = v.value
        if isinstance(v, ast.Call) and isinstance(v.func, ast.Attribute) and v.func.attr in _ELEMENT_SOURCES:
            return True
        if isinstance(v, ast.Subscript):       # children[0], root[1]
            return isinstance(v.value, ast.Name) and _is_element_name(mod, fn, v.value.id, depth + 1)
        return False

    for n in ast.walk(fn):
        if isinstance(n, ast.Assign) and any(isinstance(t, ast.Name) and t.id == name for t in n.targets) and from_source(n.value):
            return True
        if isinstance(n, ast.NamedExpr) and isinstance(n.target, ast.Name) and n.target.id == name and from_source(n.value):
            return True
        if isinstance(n, (ast.For, ast.comprehension)) and isinstance(n.target, ast.Name) and n.target.id == name:
            it = n.iter
            if from_source(it):
                return True
            if isinstance(it, ast.Name) and _is_element_name(mod, fn, it.id, depth + 1):
                return True          # `for child in para:` iterates the children of an element
    return False


def _in_test_position(mod, node):
    """only the truth value of `node` is used"""
    cur = node
    while cur in mod.parent:
        p = mod.parent[cur]
        if isinstance(p, ast.BoolOp) or (isinstance(p, ast.UnaryOp) and isinstance(p.op, ast.Not)):
            # `X.text and Y` as a VALUE still hands X.text on when it is falsy — only accept when the BoolOp itself is a test
            cur = p
            continue
        if isinstance(p, (ast.If, ast.IfExp, ast.While, ast.Assert)) and p.test is cur:
            return True
        if isinstance(p, ast.comprehension) and cur in p.ifs:
            return True
        return False
    return False


def _guarded_by(mod, node, dump):
    """an enclosing `if` / conditional expression / comprehension filter tested `dump` truthy for the branch `node` is in"""
    cur = node
    while cur in mod.parent:
        p = mod.parent[cur]
        if isinstance(p, ast.IfExp) and cur is p.body and dump in _conjuncts(p.test):
            return True
        if isinstance(p, ast.If) and cur in p.body and dump in _conjuncts(p.test):
            return True
        if isinstance(p, (ast.ListComp, ast.GeneratorExp, ast.SetComp)) and cur is p.elt:
            if any(dump in _conjuncts(c) for g in p.generators for c in g.ifs):
                return True
        if isinstance(p, ast.BoolOp) and isinstance(p.op, ast.And) and cur in p.values:
            i = p.values.index(cur)
            if any(dump in _conjuncts(v) for v in p.values[:i]):
                return True
        if isinstance(p, (ast.FunctionDef, ast.AsyncFunctionDef)):
            return False
        cur = p
    return False


def _read_kind(mod, node):
    fn = mod.enclosing_fn(node)
    recv = node.value
    if not (isinstance(recv, ast.Name) and _is_element_name(mod, fn, recv.id)):
        return "notElement"
    d = ast.dump(node)
    p = mod.parent.get(node)
    if isinstance(p, ast.BoolOp) and isinstance(p.op, ast.Or) and node in p.values[:-1]:
        return "orDefault"
    if _in_test_position(mod, node):
        return "testOnly"
    if _guarded_by(mod, node, d):
        return "guarded"
    if isinstance(p, ast.Assign) and p.value is node and len(p.targets) == 1 and isinstance(p.targets[0], ast.Name) and fn is not None:
        nm = p.targets[0].id
        nd = ast.dump(ast.Name(id=nm, ctx=ast.Load()))
        uses = [x for x in ast.walk(fn) if isinstance(x, ast.Name) and x.id == nm and isinstance(x.ctx, ast.Load)]
        ok = True
        for u in uses:
            up = mod.parent.get(u)
            if isinstance(up, ast.BoolOp) and isinstance(up.op, ast.Or) and u in up.values[:-1]:
                continue
            if _in_test_position(mod, u) or _guarded_by(mod, u, nd):
                continue
            ok = False
        return "nameGuarded" if ok and uses else "unguarded"
    return "unguarded"


def _text_reads(notes):
    rows = []
    for rel in _py_files():
        try:
            mod = _Module(rel)
        except SyntaxError as e:
            notes.append(f"{rel}: {e}")
            continue
        for n in ast.walk(mod.tree):
            if isinstance(n, ast.Attribute) and n.attr == "text" and isinstance(n.ctx, ast.Load):
                fn = mod.enclosing_fn(n)
                recv = n.value.id if isinstance(n.value, ast.Name) else ast.unparse(n.value)[:30]
                rows.append((os.path.basename(rel), fn.name if fn is not None else "<module>", recv, n.lineno, _read_kind(mod, n)))
    rows.sort(key=lambda r: (r[0], r[3], r[2]))
    return rows


# ----------------------------------------------------------------------------- the generator
@generator("Iface")
def gen_iface() -> str:
    dt, cls = _classes()
    cds = _classdefs()
    notes = []

    # ---- accessor inventory
    acc_rows = []
    for role, names in (("result", RESULT_ACC), ("unit", UNIT_ACC), ("image", IMAGE_ACC), ("table", TABLE_ACC)):
        for c in cls[role]:
            acc_rows.append((role, c.__name__, _defined(c, names)))

    # ---- what the accessors report
    image_rows = []   # (class, imageNumberField, unitNumber reported, hasSize, payloadField, payloadKind)
    number_fields = {}  # class -> {field: role}
    for c in cls["image"]:
        cd = cds[c.__name__]
        gm = _method(cd, "get_metadata")
        inum = _reported(_meta_call_kw(gm, "image_number")) if gm else ("other",)
        unum = _reported(_meta_call_kw(gm, "unit_number")) if gm else ("other",)
        flds = {f.name: f for f in dataclasses.fields(c)}
        payload = "data" if "data" in flds else ("blob" if "blob" in flds else "")
        ptype = str(flds[payload].type) if payload else ""
        pkind = "stream" if "BytesIO" in ptype else ("bytes" if "bytes" in ptype else "other")
        has_size = "size_bytes" in flds
        image_rows.append((c.__name__, inum, unum, has_size, payload, pkind))
        nf = {}
        if inum[0] in ("field", "fieldpos"):
            nf[inum[1]] = "image"
        if unum[0] in ("field", "fieldpos"):
            nf[unum[1]] = "unitOpt" if unum[0] == "field" else "unitOptPos"
        number_fields[c.__name__] = nf
        # runtime cross-check on a probe instance
        try:
            kw = {}
            if inum[0] in ("field", "fieldpos"):
                kw[inum[1]] = 7
            if unum[0] in ("field", "fieldpos"):
                kw[unum[1]] = 5
            req = {f.name: (0 if "int" in str(f.type) else "") for f in dataclasses.fields(c)
                   if f.default is dataclasses.MISSING and f.default_factory is dataclasses.MISSING}
            req.update(kw)
            md = c(**req).get_metadata()
            if inum[0] in ("field", "fieldpos") and md.image_number != 7:
                notes.append(f"{c.__name__}.get_metadata: image_number is not the field the AST shows")
            if unum[0] in ("field", "fieldpos") and md.unit_number != 5:
                notes.append(f"{c.__name__}.get_metadata: unit_number is not the field the AST shows")
        except Exception as e:  # noqa: BLE001
            notes.append(f"{c.__name__}: probe instance failed: {type(e).__name__}")
    unit_rows = []
    for c in cls["unit"]:
        cd = cds[c.__name__]
        gm = _method(cd, "get_metadata")
        un = _reported(_meta_call_kw(gm, "unit_number")) if gm else ("other",)
        unit_rows.append((c.__name__, un))
        number_fields[c.__name__] = {un[1]: "unit"} if un[0] == "field" else {}
    # intermediate carriers whose number field is copied into a unit/image (slide/page/chapter objects)
    carriers = {}
    for name, c in sorted(vars(dt).items()):
        if isinstance(c, type) and dataclasses.is_dataclass(c) and c.__module__ == dt.__name__ and name not in number_fields:
            nf = {f.name: "unit" for f in dataclasses.fields(c) if f.name in ("slide_number", "page_number", "chapter_number", "sheet_number", "unit_number")
                  and "Metadata" not in name and not name.endswith("Meta")}
            if nf and name not in ("RtfTable", "RtfParagraph", "RtfFootnote", "RtfAnnotation", "RtfBookmark", "RtfField", "RtfHyperlink", "RtfHeaderFooter"):
                carriers[name] = nf
    number_fields.update(carriers)

    # ---- constructor call sites over the whole package
    num_sites = []   # (file, line, class, field, role, kind)
    size_sites = []  # (file, line, class, kind)
    size_classes = {r[0]: (r[4], r[5]) for r in image_rows if r[3]}
    payload_of = {r[0]: (r[4], r[5]) for r in image_rows}
    stream_sites = []  # (file, line, class, origin)
    for rel in _py_files():
        try:
            mod = _Module(rel)
        except SyntaxError as e:
            notes.append(f"{rel}: {e}")
            continue
        for n in ast.walk(mod.tree):
            if not isinstance(n, ast.Call):
                continue
            fname = n.func.id if isinstance(n.func, ast.Name) else (n.func.attr if isinstance(n.func, ast.Attribute) else None)
            target = fname
            kws = {k.arg: k.value for k in n.keywords if k.arg}
            if fname == "replace" and n.args:
                # dataclasses.replace(obj, field=...) : only the given fields are (re)set
                for c_name, nf in number_fields.items():
                    pass
                # a copy of an image object: classes that have all the given fields; if one of them stores a stream
                # and the copy is not given a payload of its own, copy and original hold the SAME stream object
                cands = [r for r in image_rows if kws and all(k in {f.name for f in dataclasses.fields(getattr(dt, r[0]))} for k in kws)]
                for r in cands:
                    pf0, pk0 = r[4], r[5]
                    if pk0 == "bytes":
                        continue
                    if pf0 in kws:
                        stream_sites.append((rel, n.lineno, r[0], _stream_origin(pk0, kws[pf0])))
                    else:
                        stream_sites.append((rel, n.lineno, r[0], "other:replace-copy-shares-the-stored-stream"))
                for fld, val in kws.items():
                    roles = {nf[fld] for nf in number_fields.values() if fld in nf}
                    if roles:
                        num_sites.append((rel, n.lineno, "replace", fld, sorted(roles)[0], classify(mod, val, n)))
                continue
            if target not in number_fields and target not in size_classes:
                continue
            if any(k.arg is None for k in n.keywords):
                num_sites.append((rel, n.lineno, target, "**", "unit", "other:star-kwargs"))
                if target in {r[0] for r in image_rows}:
                    stream_sites.append((rel, n.lineno, target, "other:star-kwargs"))
                continue
            c = getattr(dt, target)
            order = [f.name for f in dataclasses.fields(c)]
            given = dict(kws)
            for i, a in enumerate(n.args):
                if i < len(order):
                    given[order[i]] = a
            for fld, role in number_fields.get(target, {}).items():
                if fld in given:
                    kind = classify(mod, given[fld], n)
                else:
                    f = next(f for f in dataclasses.fields(c) if f.name == fld)
                    kind = "default:" + (repr(f.default) if f.default is not dataclasses.MISSING else "MISSING")
                num_sites.append((rel, n.lineno, target, fld, role, kind))
            if target in payload_of:
                pf0, pk0 = payload_of[target]
                stream_sites.append((rel, n.lineno, target, _stream_origin(pk0, given.get(pf0))))
            if target in size_classes:
                pf, pk = size_classes[target]
                sz, pv = given.get("size_bytes"), given.get(pf)
                if sz is None and pv is None:
                    kind = "absent"
                elif (isinstance(sz, ast.Attribute) and isinstance(pv, ast.Attribute) and sz.attr == "size_bytes" and pv.attr == pf
                      and ast.dump(sz.value) == ast.dump(pv.value)):
                    kind = "copy"  # both copied from one image object of a size-reporting class
                elif sz is not None and pv is not None and isinstance(sz, ast.Call) and isinstance(sz.func, ast.Name) and sz.func.id == "len" and len(sz.args) == 1:
                    inner = pv
                    if isinstance(pv, ast.Call) and isinstance(pv.func, ast.Attribute) and pv.func.attr == "BytesIO" and len(pv.args) == 1:
                        inner = pv.args[0]
                    kind = "lenOfPayload" if ast.dump(inner) == ast.dump(sz.args[0]) else "other:len-of-something-else"
                elif sz is not None and pv is not None and isinstance(sz, ast.Name):
                    kind = _size_through_name(mod, sz, pv, n)
                else:
                    kind = "other:" + ("size-without-payload" if pv is None else "payload-without-size" if sz is None else "size-not-len")
                size_sites.append((rel, n.lineno, target, kind))

    # ---- RTF constants that reach the text
    rtf = fresh_import("sharepoint2text.parsing.extractors.ms_legacy.rtf_extractor")
    special = sorted(rtf._RtfParser.SPECIAL_CHARS.items())
    special_cps = sorted({ord(ch) for _, v in special for ch in v})

    # ---- metadata readers: field <- tag maps (AST of `metadata.<f> = <reader>(root, TAG)` / `= elem.text`)
    md_rows = _metadata_maps(notes)

    L = [HEADER.format(src="sharepoint2text/parsing/extractors/data_types.py + every constructor call site of the package")]
    L.append("import S2T.Model.Iface\nimport S2T.Model.IfaceStreams\nimport S2T.Model.IfaceOptText\nnamespace S2T.Gen.Iface\nopen S2T.Iface\n")
    L.append("/-- (role, class, protocol accessors the class defines) -/")
    L.append("def accessors : List (Role × String × List String) := " + lean_list(
        f"(.{r}, {lean_str(c)}, [{', '.join(lean_str(a) for a in acc)}])" for r, c, acc in acc_rows) + "\n")

    def rep(t):
        if t[0] == "field":
            return f".field {lean_str(t[1])}"
        if t[0] == "fieldpos":
            return f".fieldIfPos {lean_str(t[1])}"
        if t[0] == "const":
            return f".const {t[1]}" if t[1] >= 0 else ".other"
        if t[0] == "none":
            return ".none"
        return ".other"
    L.append("/-- image classes: what get_metadata() reports as image_number / unit_number, size field, payload field and kind -/")
    L.append("def imageClasses : List ImageClass := " + lean_list(
        "{ name := %s, imageNumber := %s, unitNumber := %s, hasSize := %s, payload := %s, payloadKind := .%s }" % (
            lean_str(n), rep(i), rep(u), "true" if hs else "false", lean_str(pf), pk if pk in ("stream", "bytes") else "otherKind")
        for n, i, u, hs, pf, pk in image_rows) + "\n")
    L.append("def unitClasses : List (String × Reported) := " + lean_list(f"({lean_str(n)}, {rep(u)})" for n, u in unit_rows) + "\n")
    L.append("/-- every constructor / dataclasses.replace call site that sets (or leaves at its default) a field reported as a unit or image number -/")
    L.append("def numberSites : List NumberSite := " + lean_list(
        "{ file := %s, line := %d, cls := %s, field := %s, role := .%s, kinds := %s }" % (
            lean_str(os.path.basename(f)), ln, lean_str(c), lean_str(fld), role, _kind_lean(kind))
        for f, ln, c, fld, role, kind in num_sites) + "\n")
    L.append("/-- constructor call sites of the image classes that report a size -/")
    L.append("def sizeSites : List SizeSite := " + lean_list(
        "{ file := %s, line := %d, cls := %s, kind := %s }" % (
            lean_str(os.path.basename(f)), ln, lean_str(c),
            ".absent" if k == "absent" else ".lenOfPayload" if k == "lenOfPayload" else ".copyOfImage" if k == "copy" else f".other {lean_str(k)}")
        for f, ln, c, k in size_sites) + "\n")
    def origin(k):
        return "." + k if k in ("noPayload", "freshObject", "immutable") else f".other {lean_str(k)}"
    L.append("/-- every constructor call site of an image class: where the payload object it stores comes from -/")
    L.append("def streamSites : List StreamSite := " + lean_list(
        "{ file := %s, line := %d, cls := %s, origin := %s }" % (lean_str(os.path.basename(f)), ln, lean_str(c), origin(k))
        for f, ln, c, k in stream_sites) + "\n")
    L.append("/-- (image class, payload kind, form of its get_bytes()) -/")
    L.append("def getBytesForms : List (String × PayloadKind × GetBytesForm) := " + lean_list(
        "(%s, .%s, %s)" % (lean_str(n), pk if pk in ("stream", "bytes") else "otherKind",
                           (lambda k: "." + k if k in ("wrapBytes", "rewindStored") else f".other {lean_str(k)}")(_get_bytes_form(cds[n], pf)))
        for n, i, u, hs, pf, pk in image_rows) + "\n")
    L.append("/-- every read of an attribute `.text` in the package (tests excluded) and how its value is protected against None -/")
    L.append("def textReads : List TextRead := " + lean_list(
        "{ file := %s, fn := %s, recv := %s, line := %d, kind := .%s }" % (lean_str(f), lean_str(fn), lean_str(rv), ln, k)
        for f, fn, rv, ln, k in _text_reads(notes)) + "\n")
    L.append("/-- code points of the RTF SPECIAL_CHARS replacement strings -/")
    L.append("def rtfSpecialCodePoints : List Nat := [" + ", ".join(str(c) for c in special_cps) + "]\n")
    L.append("def rtfSpecial : List (String × List Nat) := " + lean_list(
        f"({lean_str(k)}, [{', '.join(str(ord(ch)) for ch in v)}])" for k, v in special) + "\n")
    L.append("/-- document-property readers: (format, metadata field, source tag/key, post-processing) -/")
    L.append("def metadataMaps : List MdRow := " + lean_list(
        "{ fmt := %s, field := %s, tag := %s, post := .%s }" % (lean_str(a), lean_str(b), lean_str(c), d) for a, b, c, d in md_rows) + "\n")
    bc = _blip_constants(notes)
    L.append("/-- OfficeArt BLIP pipeline constants of the legacy PPT / XLS picture extractors (image_utils, runtime values) -/")
    L.append("def blipTypes : List Nat := [" + ", ".join(str(x) for x in bc["types"]) + "]")
    L.append(f"def blipEmf : Nat := {bc['emf']}\ndef blipWmf : Nat := {bc['wmf']}\ndef blipDib : Nat := {bc['dib']}")
    L.append("def blipSecondUid : List Nat := [" + ", ".join(str(x) for x in bc["second"]) + "]")
    L.append("def imageSignatures : List (List Nat × String) := " + lean_list(
        f"([{', '.join(str(b) for b in sig)}], {lean_str(ct)})" for sig, ct in bc["sigs"]) + "\n")
    L.append("/-- functions reachable from populate_from_path, every memoised function and every writer of module-level state of the package -/")
    L.append("def stateSites : List FnState := " + lean_list(
        "{ file := %s, name := %s, decorators := [%s], globalsWritten := [%s], touchesHost := %s, onMetadataPath := %s }" % (
            lean_str(f), lean_str(nm), ", ".join(lean_str(d) for d in decs), ", ".join(lean_str(g) for g in gw),
            "true" if th else "false", "true" if op else "false")
        for f, nm, decs, gw, th, op in _state_sites(notes)) + "\n")
    L.append("/-- translator cross-check notes; must be empty -/")
    L.append("def notes : List String := " + lean_list(lean_str(n) for n in notes) + "\n")
    L.append("end S2T.Gen.Iface\n")
    return "\n".join(L)


# ----------------------------------------------------------------------------- metadata reader maps
_MD_READERS = [
    ("docx", "sharepoint2text/parsing/extractors/ms_modern/docx_extractor.py", "_extract_metadata_from_context"),
    ("pptx", "sharepoint2text/parsing/extractors/ms_modern/pptx_extractor.py", "_extract_metadata_from_context"),
    ("xlsx", "sharepoint2text/parsing/extractors/ms_modern/xlsx_extractor.py", "_extract_metadata_from_workbook"),
    ("odf", "sharepoint2text/parsing/extractors/open_office/_shared.py", "extract_odf_metadata"),
]
TEXT_PROPS = ("title", "author", "creator", "subject", "keywords", "description")


def _const_value(mod_tree, name):
    for n in mod_tree.body:
        if isinstance(n, ast.Assign) and len(n.targets) == 1 and isinstance(n.targets[0], ast.Name) and n.targets[0].id == name:
            try:
                return ast.literal_eval(n.value)
            except Exception:
                return _fold(mod_tree, n.value)
    return None


def _fold(mod_tree, e):
    """fold simple string constants: f-strings / concatenations of module constants"""
    if isinstance(e, ast.Constant) and isinstance(e.value, str):
        return e.value
    if isinstance(e, ast.Name):
        return _const_value(mod_tree, e.id)
    if isinstance(e, ast.BinOp) and isinstance(e.op, ast.Add):
        a, b = _fold(mod_tree, e.left), _fold(mod_tree, e.right)
        return a + b if isinstance(a, str) and isinstance(b, str) else None
    if isinstance(e, ast.JoinedStr):
        parts = []
        for v in e.values:
            if isinstance(v, ast.Constant):
                parts.append(str(v.value))
            elif isinstance(v, ast.FormattedValue):
                s = _fold(mod_tree, v.value)
                if not isinstance(s, str):
                    return None
                parts.append(s)
        return "".join(parts)
    return None


def _metadata_maps(notes):
    """rows (format, field, tag, post) with post in {ident, strip, identOrEmpty, other}: how the reader turns the
    element text into the metadata field, as the AST of the assignment shows"""
    rows = []
    for fmt, rel, fname in _MD_READERS:
        try:
            tree = parse(rel)
        except Exception as e:  # noqa: BLE001
            notes.append(f"{rel}: {e}")
            continue
        fn = next((n for n in ast.walk(tree) if isinstance(n, ast.FunctionDef) and n.name == fname), None)
        if fn is None:
            notes.append(f"{rel}: reader {fname} not found")
            continue
        walrus = {}
        for n in ast.walk(fn):
            if isinstance(n, ast.If) and isinstance(n.test, ast.NamedExpr) and isinstance(n.test.target, ast.Name):
                for st in n.body:
                    walrus[st] = (n.test.target.id, n.test.value)
        for n in ast.walk(fn):
            # docx: field_mappings = [(TAG, "attr"), ...] consumed by `if text := helper(root, tag): setattr(metadata, attr, text)`
            if isinstance(n, ast.Assign) and isinstance(n.value, ast.List) and n.value.elts and all(
                    isinstance(x, ast.Tuple) and len(x.elts) == 2 and isinstance(x.elts[1], ast.Constant) for x in n.value.elts):
                uses_setattr = any(isinstance(c, ast.Call) and isinstance(c.func, ast.Name) and c.func.id == "setattr" and len(c.args) == 3
                                   and isinstance(c.args[2], ast.Name) for c in ast.walk(fn))
                for x in n.value.elts:
                    fld = x.elts[1].value
                    if fld in TEXT_PROPS or fld == "comments":
                        tag = _fold(tree, x.elts[0])
                        rows.append((fmt, fld, tag if isinstance(tag, str) else "?", "ident" if uses_setattr else "other"))
                continue
            if not (isinstance(n, ast.Assign) and len(n.targets) == 1 and isinstance(n.targets[0], ast.Attribute)):
                continue
            fld = n.targets[0].attr
            if fld not in TEXT_PROPS and fld != "comments":
                continue
            val = n.value
            if isinstance(val, ast.Name) and n in walrus and walrus[n][0] == val.id:
                val = walrus[n][1]
            tag, post = _reader_expr(tree, fn, val)
            rows.append((fmt, fld, tag if isinstance(tag, str) else "?", post))
    return rows


def _reader_expr(tree, fn, v):
    """(tag, post) of the right-hand side of `metadata.f = ...`"""
    post = "ident"
    # `X or ""`
    if isinstance(v, ast.BoolOp) and isinstance(v.op, ast.Or) and len(v.values) == 2 and isinstance(v.values[1], ast.Constant) and v.values[1].value == "":
        v = v.values[0]
        post = "identOrEmpty"
    if isinstance(v, ast.Call) and isinstance(v.func, ast.Attribute) and v.func.attr == "strip" and not v.args:
        v = v.func.value
        post = "strip"
    # helper(root, TAG)   e.g. _get_element_text(root, DC_TITLE) / get_text(meta, "dc:title")
    if isinstance(v, ast.Call) and len(v.args) >= 1:
        tagarg = v.args[-1]
        tag = _fold(tree, tagarg)
        helper = v.func.id if isinstance(v.func, ast.Name) else getattr(v.func, "attr", "?")
        return (tag if tag is not None else f"<{ast.unparse(tagarg)}>"), post if helper else "other"
    # elem.text where elem = root.find(TAG) earlier in the function
    if isinstance(v, ast.Attribute) and v.attr == "text" and isinstance(v.value, ast.Name):
        var = v.value.id
        for n in ast.walk(fn):
            if isinstance(n, ast.Assign) and len(n.targets) == 1 and isinstance(n.targets[0], ast.Name) and n.targets[0].id == var \
                    and isinstance(n.value, ast.Call) and n.value.args:
                tag = _fold(tree, n.value.args[0])
                return (tag if tag is not None else f"<{ast.unparse(n.value.args[0])}>"), post
        return "?", "other"
    return "?", "other"
