"""C02 (part 'mail'): what the body path of the mbox extractor reads of a message -> S2T/Gen/C02Mail.lean

The Lean model `S2T.C02.Mail.fullText` makes the plain body the decoded payload of the text/plain part, unchanged but
for `strip()`: no Content-Type parameter other than the charset, no other header, takes part in it.  This generator
re-derives from the CURRENT source what that rests on:

* bodyCallees: `get_body_content` and every module-level function reachable from it by calls (sorted names);
* bodyReads: every method call `<x>.<method>(<first string literal or ''>)` in those functions (sorted, distinct): the
  header / parameter reads (`get`, `get_param`, `get_content_charset`, …) and the string operations applied on the way;
* postInit: the attributes `EmailContent.__post_init__` assigns, with the method applied.
"""
import ast

from translate import HEADER, generator, lean_list, lean_str, parse

SRC = "sharepoint2text/parsing/extractors/mail/mbox_email_extractor.py"
TYPES = "sharepoint2text/parsing/extractors/data_types.py"


@generator("C02Mail")
def gen_c02_mail() -> str:
    notes = []
    tree = parse(SRC)
    funcs = {n.name: n for n in tree.body if isinstance(n, ast.FunctionDef)}
    reach, todo = [], ["get_body_content"]
    if "get_body_content" not in funcs:
        notes.append("mbox_email_extractor.py: get_body_content not found")
        todo = []
    while todo:
        f = todo.pop()
        if f in reach:
            continue
        reach.append(f)
        for n in ast.walk(funcs[f]):
            if isinstance(n, ast.Call) and isinstance(n.func, ast.Name) and n.func.id in funcs:
                todo.append(n.func.id)
    reads = set()
    for f in reach:
        for n in ast.walk(funcs[f]):
            if isinstance(n, ast.Call) and isinstance(n.func, ast.Attribute):
                lit = ""
                if n.args and isinstance(n.args[0], ast.Constant) and isinstance(n.args[0].value, str):
                    lit = n.args[0].value
                reads.add((n.func.attr, lit))
    post = []
    for n in parse(TYPES).body:
        if isinstance(n, ast.ClassDef) and n.name == "EmailContent":
            for m in n.body:
                if isinstance(m, ast.FunctionDef) and m.name == "__post_init__":
                    for s in m.body:
                        if (isinstance(s, ast.Assign) and len(s.targets) == 1 and isinstance(s.targets[0], ast.Attribute)
                                and isinstance(s.value, ast.Call) and isinstance(s.value.func, ast.Attribute)
                                and isinstance(s.value.func.value, ast.Attribute) and s.value.func.value.attr == s.targets[0].attr
                                and not s.value.args):
                            post.append((s.targets[0].attr, s.value.func.attr))
                        elif not (isinstance(s, ast.Expr) and isinstance(s.value, ast.Constant)):
                            post.append(("?", ast.unparse(s)))
    L = [HEADER.format(src=SRC)]
    L.append("namespace S2T.Gen.C02Mail\n")
    L.append("def bodyCallees : List String := " + lean_list([lean_str(x) for x in sorted(reach)], 4) + "\n")
    L.append("def bodyReads : List (String × String) := " + lean_list(["(%s, %s)" % (lean_str(a), lean_str(b)) for a, b in sorted(reads)], 3) + "\n")
    L.append("def postInit : List (String × String) := " + lean_list(["(%s, %s)" % (lean_str(a), lean_str(b)) for a, b in post], 3) + "\n")
    L.append("def notes : List String := " + lean_list([lean_str(x) for x in notes]) + "\n")
    L.append("end S2T.Gen.C02Mail\n")
    return "\n".join(L)
