"""C06: closed-world inventories that the purity/determinism theorems rest on -> S2T/Gen/Effects.lean

1. setToOrdered   every place a set/frozenset-typed expression is turned into ordered output
                  (list()/tuple()/join()/for-iteration/comprehension/pop/next(iter()), and
                  sorted/min/max WITH a key function: ties keep the iteration order); plain
                  `sorted(a_set)` and membership tests are order-free and not listed.
2. observerEffects every write to shared state inside an observer method of a result / unit /
                  image / table class in data_types.py (attribute or subscript stores and mutating
                  method calls on objects reachable from `self`).
3. inputMethods   every method called on the caller's stream parameter (`file_like`) in the package.
4. idHashUses     every call of id() / hash() (address- or seed-dependent values).
"""
import ast
import os

from translate import HEADER, REPO, generator, lean_list, lean_str, parse

MUTATORS = {"append", "extend", "insert", "pop", "remove", "clear", "update", "add", "sort", "reverse",
            "setdefault", "discard", "popitem", "write", "truncate", "seek", "writelines", "close"}
NON_OBSERVERS = {"__init__", "__post_init__", "populate_from_path", "from_json"}


def py_files():
    pkg = os.path.join(REPO, "sharepoint2text")
    for root, dirs, files in os.walk(pkg):
        dirs[:] = sorted(d for d in dirs if d not in ("tests", "__pycache__"))
        for fn in sorted(files):
            if fn.endswith(".py"):
                yield os.path.relpath(os.path.join(root, fn), REPO)


def is_set_expr(e, setnames):
    if isinstance(e, (ast.Set, ast.SetComp)):
        return True
    if isinstance(e, ast.Call) and isinstance(e.func, ast.Name) and e.func.id in ("set", "frozenset"):
        return True
    if isinstance(e, ast.Name) and e.id in setnames:
        return True
    if isinstance(e, ast.BinOp) and isinstance(e.op, (ast.BitOr, ast.BitAnd, ast.Sub, ast.BitXor)):
        return is_set_expr(e.left, setnames) or is_set_expr(e.right, setnames)
    if isinstance(e, ast.Call) and isinstance(e.func, ast.Attribute) and e.func.attr in ("union", "intersection", "difference", "copy") \
            and is_set_expr(e.func.value, setnames):
        return True
    if isinstance(e, ast.Call) and isinstance(e.func, ast.Attribute) and e.func.attr == "get" and len(e.args) == 2 \
            and is_set_expr(e.args[1], setnames):
        return True
    return False


def set_names(scope, inherited=()):
    """names bound to set-typed values in a scope (flow-insensitive)"""
    names = set(inherited)
    changed = True
    while changed:
        changed = False
        for n in ast.walk(scope):
            tgt = val = ann = None
            if isinstance(n, ast.Assign) and len(n.targets) == 1 and isinstance(n.targets[0], ast.Name):
                tgt, val = n.targets[0].id, n.value
            elif isinstance(n, ast.AnnAssign) and isinstance(n.target, ast.Name):
                tgt, val, ann = n.target.id, n.value, n.annotation
            if tgt is None or tgt in names:
                continue
            ann_s = ast.unparse(ann) if ann is not None else ""
            if (val is not None and is_set_expr(val, names)) or ann_s.lower().startswith(("set[", "frozenset[", "set", "typing.set")):
                names.add(tgt)
                changed = True
    return names


def gen_set_sites():
    sites = []
    for rel in py_files():
        tree = parse(rel)
        mod_sets = set_names(ast.Module(body=[n for n in tree.body if not isinstance(n, (ast.FunctionDef, ast.ClassDef))], type_ignores=[]))

        def scan(scope, qual, inherited):
            names = set_names(scope, inherited)
            for n in ast.walk(scope):
                kind = None
                if isinstance(n, ast.Call) and isinstance(n.func, ast.Name) and n.func.id in ("list", "tuple", "enumerate", "iter", "next", "zip", "map", "filter") \
                        and n.args and is_set_expr(n.args[0], names):
                    kind = n.func.id
                elif isinstance(n, ast.Call) and isinstance(n.func, ast.Attribute) and n.func.attr == "join" and n.args and is_set_expr(n.args[0], names):
                    kind = "join"
                elif isinstance(n, ast.Call) and isinstance(n.func, ast.Name) and n.func.id in ("sorted", "min", "max") and n.args \
                        and is_set_expr(n.args[0], names) and any(k.arg == "key" for k in n.keywords):
                    # sorted(a_set) is order free; sorted(a_set, key=f) is only if f is injective (ties keep iteration order)
                    kind = n.func.id + "-key"
                elif isinstance(n, ast.Call) and isinstance(n.func, ast.Attribute) and n.func.attr == "pop" and not n.args and is_set_expr(n.func.value, names):
                    kind = "set.pop"
                elif isinstance(n, (ast.For, ast.comprehension)) and is_set_expr(n.iter, names):
                    # a comprehension that builds another set / is consumed by sorted/any/all/sum/min/max/len is order-free
                    kind = "for"
                if kind:
                    sites.append((rel, qual, kind, ast.unparse(n if not isinstance(n, (ast.For, ast.comprehension)) else n.iter)[:80].replace("\n", " ")))
        for node in ast.walk(tree):
            if isinstance(node, (ast.FunctionDef, ast.AsyncFunctionDef)):
                scan(node, node.name, mod_sets)
        scan(ast.Module(body=[n for n in tree.body if not isinstance(n, (ast.FunctionDef, ast.ClassDef))], type_ignores=[]), "<module>", set())
    # order-free consumers: drop `for` sites that sit directly inside sorted()/set()/any()/all()/sum()/min()/max()/len()/frozenset() or a SetComp
    return sorted(set(sites))


def order_free_for(rel, site_src):
    return False


ELEMENT_CALLS = {"get", "setdefault", "pop", "popitem", "__getitem__", "copy_reference"}


def gen_observer_effects():
    """Aliases of shared state are followed through locals, loop variables AND calls: `x = self.m(...)` makes x shared when
    some method named m (of any class of data_types.py) returns an expression rooted in its `self` (fixpoint over the
    methods), and `x = shared.get(...)` / `.setdefault(...)` / `getattr(self, …)` / `vars(self)` hand out elements of
    shared containers — so a cache kept in the instance `__dict__` and mutated through the name it was fetched under is
    an effect, not a local matter."""
    rel = "sharepoint2text/parsing/extractors/data_types.py"
    tree = parse(rel)
    methods = [(cls, fn) for cls in [n for n in tree.body if isinstance(n, ast.ClassDef)]
               for fn in [n for n in cls.body if isinstance(n, (ast.FunctionDef, ast.AsyncFunctionDef))]]
    returns_shared = set()

    def analyse(fn):
        shared = {"self"}

        def rooted(e):
            while isinstance(e, (ast.Attribute, ast.Subscript)):
                e = e.value
            if isinstance(e, ast.Call):  # e.g. (matched_unit or units[-1]).tables  / self.get_x().y  -> treat by function root
                return rooted(e.func)
            if isinstance(e, ast.BoolOp):
                return any(rooted(v) for v in e.values)
            if isinstance(e, ast.IfExp):
                return rooted(e.body) or rooted(e.orelse)
            return isinstance(e, ast.Name) and e.id in shared

        def shares(e):
            """does the VALUE of e alias shared state (for `x = e`)"""
            if isinstance(e, (ast.Attribute, ast.Subscript, ast.Name)):
                return rooted(e)
            if isinstance(e, (ast.BoolOp,)):
                return any(shares(v) for v in e.values)
            if isinstance(e, ast.IfExp):
                return shares(e.body) or shares(e.orelse)
            if isinstance(e, ast.NamedExpr):
                return shares(e.value)
            if isinstance(e, ast.Call):
                f = e.func
                if isinstance(f, ast.Attribute) and f.attr in ELEMENT_CALLS and rooted(f.value):
                    return True
                if isinstance(f, ast.Attribute) and f.attr in returns_shared and rooted(f.value):
                    return True
                if isinstance(f, ast.Name) and f.id in ("getattr", "vars") and e.args and rooted(e.args[0]):
                    return True
            return False
        changed = True
        while changed:
            changed = False
            for n in ast.walk(fn):
                if isinstance(n, (ast.For, ast.comprehension)) and rooted(n.iter):
                    for t in ast.walk(n.target):
                        if isinstance(t, ast.Name) and t.id not in shared:
                            shared.add(t.id)
                            changed = True
                elif isinstance(n, (ast.Assign, ast.AnnAssign, ast.NamedExpr)) and getattr(n, "value", None) is not None and shares(n.value):
                    tgts = n.targets if isinstance(n, ast.Assign) else [n.target]
                    for t in tgts:
                        if isinstance(t, ast.Name) and t.id not in shared:
                            shared.add(t.id)
                            changed = True
        ret = any(isinstance(n, ast.Return) and n.value is not None and shares(n.value) for n in ast.walk(fn))
        return shared, rooted, ret

    changed = True
    while changed:
        changed = False
        for cls, fn in methods:
            if fn.name in returns_shared:
                continue
            if analyse(fn)[2]:
                returns_shared.add(fn.name)
                changed = True
    eff = []
    for cls, fn in methods:
        if fn.name in NON_OBSERVERS:
            continue
        shared, rooted, _ = analyse(fn)
        for n in ast.walk(fn):
            if isinstance(n, (ast.Assign, ast.AugAssign, ast.AnnAssign)):
                tgts = n.targets if isinstance(n, ast.Assign) else [n.target]
                for t in tgts:
                    if isinstance(t, (ast.Attribute, ast.Subscript)) and rooted(t):
                        eff.append((cls.name, fn.name, "store", ast.unparse(t)[:60]))
                    elif isinstance(n, ast.AugAssign) and isinstance(t, ast.Name) and t.id in shared and t.id != "self":
                        eff.append((cls.name, fn.name, "augassign", ast.unparse(t)[:60]))     # `parts += […]` extends a list in place
            elif isinstance(n, ast.Call) and isinstance(n.func, ast.Attribute) and n.func.attr in MUTATORS and rooted(n.func.value):
                eff.append((cls.name, fn.name, "call", ast.unparse(n.func)[:60]))
            elif isinstance(n, ast.Call) and ast.unparse(n.func) in ("setattr", "delattr", "object.__setattr__", "object.__delattr__") \
                    and n.args and rooted(n.args[0]):
                eff.append((cls.name, fn.name, "call", ast.unparse(n.func) + "(" + ast.unparse(n.args[0])[:30] + ")"))
            elif isinstance(n, ast.Delete):
                for t in n.targets:
                    if isinstance(t, (ast.Attribute, ast.Subscript)) and rooted(t):
                        eff.append((cls.name, fn.name, "del", ast.unparse(t)[:60]))
    return sorted(set(eff))


STREAM_SEEDS = ("file_like", "file")


def gen_input_methods():
    """methods called on the caller's stream and callees it is handed to.  The stream is followed through the
    package: parameters named file_like/file, local names and `self.<attr>` assigned from it, and the parameters
    of package functions / constructors / methods it is passed to (fixpoint, callee matched by simple name).
    Methods are reported as `file_like.<method>` whatever the alias is called."""
    trees = {rel: parse(rel) for rel in py_files()}
    funcs = {}          # key -> [(FunctionDef, owning ClassDef | None)];  key = top-level function / class name,
    owner = {}          #        or (class name, method name)
    classes = {}
    for rel, tree in trees.items():
        for cls in [n for n in ast.walk(tree) if isinstance(n, ast.ClassDef)]:
            classes.setdefault(cls.name, []).append(cls)
            for fn in cls.body:
                if isinstance(fn, (ast.FunctionDef, ast.AsyncFunctionDef)):
                    owner[fn] = cls
        for fn in ast.walk(tree):
            if isinstance(fn, (ast.FunctionDef, ast.AsyncFunctionDef)):
                cls = owner.get(fn)
                if cls is None:
                    funcs.setdefault(fn.name, []).append((fn, None))
                else:
                    funcs.setdefault((cls.name, fn.name), []).append((fn, cls))
                    if fn.name == "__init__":
                        funcs.setdefault(cls.name, []).append((fn, cls))

    def mro_names(cls, seen=None):
        seen = seen if seen is not None else set()
        if cls.name in seen:
            return seen
        seen.add(cls.name)
        for b in cls.bases:
            bn = b.id if isinstance(b, ast.Name) else (b.attr if isinstance(b, ast.Attribute) else None)
            for c in classes.get(bn, []):
                mro_names(c, seen)
        return seen

    def callees(call, fn):
        """package definitions a call may reach (constructor -> __init__, self.m -> methods of the class and its
        package bases / subclasses, super().m -> bases, mod.f / f -> top-level f)"""
        f = call.func
        if isinstance(f, ast.Name):
            return funcs.get(f.id, [])
        if isinstance(f, ast.Attribute):
            recv = f.value
            cls = owner.get(fn)
            if isinstance(recv, ast.Name) and recv.id in ("self", "cls") and cls is not None:
                fam = mro_names(cls) | {c for c, lst in classes.items() for k in lst if cls.name in mro_names(k)}
                return [x for c in fam for x in funcs.get((c, f.attr), [])]
            if isinstance(recv, ast.Call) and isinstance(recv.func, ast.Name) and recv.func.id == "super" and cls is not None:
                return [x for c in mro_names(cls) - {cls.name} for x in funcs.get((c, f.attr), [])]
            if isinstance(recv, ast.Name) and recv.id in classes:
                return funcs.get((recv.id, f.attr), [])
            if isinstance(recv, ast.Name):          # module alias . function / class
                return funcs.get(f.attr, [])
        return []

    names = {}          # FunctionDef -> set of local names bound to the stream
    attrs = {}          # ClassDef -> set of attribute names of self bound to the stream
    for lst in funcs.values():
        for fn, cls in lst:
            ps = [a.arg for a in fn.args.posonlyargs + fn.args.args + fn.args.kwonlyargs]
            names.setdefault(fn, set()).update(p for p in ps if p in STREAM_SEEDS)

    def is_stream(e, fn):
        if isinstance(e, ast.Name):
            return e.id in names.get(fn, ()) or e.id in STREAM_SEEDS
        if isinstance(e, ast.Attribute) and isinstance(e.value, ast.Name) and e.value.id == "self":
            return e.attr in attrs.get(owner.get(fn), ())
        if isinstance(e, (ast.IfExp,)):
            return is_stream(e.body, fn) or is_stream(e.orelse, fn)
        if isinstance(e, ast.BoolOp):
            return any(is_stream(v, fn) for v in e.values)
        if isinstance(e, ast.NamedExpr):
            return is_stream(e.value, fn)
        return False

    def outer_functions():
        for lst in funcs.values():
            for fn, cls in lst:
                yield fn

    changed = True
    rounds = 0
    while changed and rounds < 20:
        changed = False
        rounds += 1
        for fn in set(outer_functions()):
            for n in ast.walk(fn):
                if isinstance(n, (ast.Assign, ast.AnnAssign, ast.NamedExpr)) and getattr(n, "value", None) is not None and is_stream(n.value, fn):
                    tgts = n.targets if isinstance(n, ast.Assign) else [n.target]
                    for t in tgts:
                        if isinstance(t, ast.Name) and t.id not in names[fn]:
                            names[fn].add(t.id)
                            changed = True
                        elif isinstance(t, ast.Attribute) and isinstance(t.value, ast.Name) and t.value.id == "self" and owner.get(fn) is not None:
                            if t.attr not in attrs.setdefault(owner[fn], set()):
                                attrs[owner[fn]].add(t.attr)
                                changed = True
                elif isinstance(n, (ast.With, ast.AsyncWith)):
                    for it in n.items:
                        if is_stream(it.context_expr, fn) and isinstance(it.optional_vars, ast.Name) and it.optional_vars.id not in names[fn]:
                            names[fn].add(it.optional_vars.id)
                            changed = True
                elif isinstance(n, ast.Call):
                    for g, gcls in callees(n, fn):
                        ps = [a.arg for a in g.args.posonlyargs + g.args.args]
                        bound = gcls is not None and ps[:1] in (["self"], ["cls"])
                        off = 1 if bound else 0
                        for i, a in enumerate(n.args):
                            if is_stream(a, fn) and i + off < len(ps) and ps[i + off] not in names[g]:
                                names[g].add(ps[i + off])
                                changed = True
                        allp = set(ps) | {a.arg for a in g.args.kwonlyargs}
                        for k in n.keywords:
                            if k.arg and k.arg in allp and is_stream(k.value, fn) and k.arg not in names[g]:
                                names[g].add(k.arg)
                                changed = True
    meths = set()
    passed = set()
    encl = {}
    for rel, tree in trees.items():
        # innermost enclosing function of every node
        def mark(node, cur):
            for ch in ast.iter_child_nodes(node):
                c2 = ch if isinstance(ch, (ast.FunctionDef, ast.AsyncFunctionDef)) else cur
                encl[ch] = c2
                mark(ch, c2)
        mark(tree, None)
        for n in ast.walk(tree):
            if not isinstance(n, ast.Call):
                continue
            fn = encl.get(n)
            if isinstance(n.func, ast.Attribute) and is_stream(n.func.value, fn):
                meths.add((rel, "file_like." + n.func.attr))
            for a in list(n.args) + [k.value for k in n.keywords]:
                if is_stream(a, fn):
                    passed.add((rel, ast.unparse(n.func)[:50]))
        for n in ast.walk(tree):        # writes through the alias that are not calls
            if isinstance(n, (ast.Assign, ast.AugAssign, ast.Delete)):
                tg = n.targets if not isinstance(n, ast.AugAssign) else [n.target]
                for t in tg:
                    if isinstance(t, (ast.Attribute, ast.Subscript)) and is_stream(t.value, encl.get(n)):
                        meths.add((rel, "file_like.<store " + (t.attr if isinstance(t, ast.Attribute) else "[]") + ">"))
    return sorted(meths), sorted(passed)


def gen_id_hash():
    uses = []
    for rel in py_files():
        for n in ast.walk(parse(rel)):
            if isinstance(n, ast.Call) and isinstance(n.func, ast.Name) and n.func.id in ("id", "hash"):
                uses.append((rel, ast.unparse(n)[:60]))
    return sorted(set(uses))


@generator("Effects")
def gen_effects():
    L = [HEADER.format(src="AST of every module under sharepoint2text/ (tests excluded)")]
    L.append("namespace S2T.Gen.Effects\n")
    L.append("/-- (file, function, kind, expression): a set-typed value consumed in iteration order -/")
    L.append("def setToOrdered : List (String × String × String × String) := " + lean_list(
        f"({lean_str(a)}, {lean_str(b)}, {lean_str(c)}, {lean_str(d)})" for a, b, c, d in gen_set_sites()) + "\n")
    L.append("/-- (class, method, kind, target): writes to state reachable from `self` inside observer methods of data_types.py -/")
    L.append("def observerEffects : List (String × String × String × String) := " + lean_list(
        f"({lean_str(a)}, {lean_str(b)}, {lean_str(c)}, {lean_str(d)})" for a, b, c, d in gen_observer_effects()) + "\n")
    meths, passed = gen_input_methods()
    L.append("/-- distinct methods called on the caller's stream parameter -/")
    L.append("def inputMethods : List String := " + lean_list((lean_str(m) for m in sorted({m for _, m in meths})), per_line=6) + "\n")
    L.append("/-- callees that receive the caller's stream as an argument (file, callee) -/")
    L.append("def inputPassedTo : List String := " + lean_list((lean_str(c) for c in sorted({c for _, c in passed})), per_line=4) + "\n")
    L.append("def idHashUses : List (String × String) := " + lean_list(f"({lean_str(a)}, {lean_str(b)})" for a, b in gen_id_hash()) + "\n")
    L.append("end S2T.Gen.Effects\n")
    return "\n".join(L)
