"""C02 (part 'sheets'): constants behind the ODP slide-text assembly, the ODS sheet formatter and the XLSX sheet
formatter -> S2T/Gen/C02Sheets.lean

Everything the hand models of S2T/Model/C02Sheets*.lean take as a parameter is read here from the CURRENT source:

* tag / attribute names: runtime value of the module constant, cross-checked with the value of the assignment's AST
  evaluated against the module's literal `NS` dict (helper `_Consts` of the 'odf' part's generator, imported read-only);
* the literals written *inside* function bodies (no runtime value exists for them) are taken from the AST of the named
  function, identified by their ROLE and SOURCE ORDER, never by the names of local variables (a renamed local leaves the
  output unchanged): the two `name > <int>` caps of `_extract_sheet` (cell cap, then row cap), the `value_type` kinds
  and the attribute each kind reads, the `"x" in name` / `name == "x"` style tests of `_extract_slide`, the
  `"sep".join(...)` separators (cells of a row then lines; rows then cells for XLSX), the `f"Unnamed: {i}"` format
  string, the `name + "\n" + text.strip()` unit texts of data_types.py, `_join_unit_text`;
* `findall("prefix:local", NS)` / `find(...)` paths: the prefixed literal resolved through the module's NS dict;
* html_extractor.REMOVE_TAGS / _VOID_TAGS (runtime, cross-checked with the literal) for the removed-element stream.
A construct that is not found where the model expects it is a `notes` entry; `gen_notes_empty` in Props then fails.
"""
import ast

from translate import HEADER, ast_literal_assign, chars, fresh_import, generator, lean_list, lean_str, parse
from gen.c02_odf import _Consts

OO = "sharepoint2text/parsing/extractors/open_office/"
XLSX = "sharepoint2text/parsing/extractors/ms_modern/xlsx_extractor.py"
DT = "sharepoint2text/parsing/extractors/data_types.py"
HTML = "sharepoint2text/parsing/extractors/html_extractor.py"


def _func(tree, name, cls=None):
    for n in ast.walk(tree):
        if cls is not None:
            if isinstance(n, ast.ClassDef) and n.name == cls:
                for m in n.body:
                    if isinstance(m, ast.FunctionDef) and m.name == name:
                        return m
        elif isinstance(n, ast.FunctionDef) and n.name == name:
            return n
    return None


def _ordered(fn):
    return sorted((n for n in ast.walk(fn) if hasattr(n, "lineno")), key=lambda n: (n.lineno, n.col_offset))


def _joins(fn):
    """the separators of every `"sep".join(...)` in the function, in source order (local names do not matter)"""
    return [n.func.value.value for n in _ordered(fn)
            if isinstance(n, ast.Call) and isinstance(n.func, ast.Attribute) and n.func.attr == "join"
            and isinstance(n.func.value, ast.Constant) and isinstance(n.func.value.value, str) and n.args]


def _compares(fn, kinds=(str, int)):
    """[(op class name, constant)] for every comparison of a NAME with a literal, in source order"""
    out = []
    for n in _ordered(fn):
        if isinstance(n, ast.Compare) and len(n.ops) == 1:
            l, r = n.left, n.comparators[0]
            for a, b in ((l, r), (r, l)):
                if isinstance(a, ast.Name) and isinstance(b, ast.Constant) and isinstance(b.value, kinds) and not isinstance(b.value, bool):
                    out.append((type(n.ops[0]).__name__, b.value))
    return out


def _one(notes, what, vals):
    vals = list(vals)
    if len(vals) != 1:
        notes.append(f"{what}: expected exactly one occurrence, found {vals!r}")
        return vals[0] if vals else None
    return vals[0]


def _findall_paths(fn, ns):
    """the `x.findall("p:l", NS)` / `x.find("p:l", NS)` literals of a function, resolved to Clark names"""
    out = []
    for n in ast.walk(fn):
        if (isinstance(n, ast.Call) and isinstance(n.func, ast.Attribute) and n.func.attr in ("findall", "find")
                and n.args and isinstance(n.args[0], ast.Constant) and isinstance(n.args[0].value, str)
                and len(n.args) == 2 and isinstance(n.args[1], ast.Name) and n.args[1].id == "NS"):
            lit = n.args[0].value
            if "/" in lit or ":" not in lit:
                out.append((n.func.attr, lit, None))
            else:
                p, l = lit.split(":", 1)
                out.append((n.func.attr, lit, "{%s}%s" % (ns[p], l)))
    return out


def _unit_text_parts(tree, cls, notes):
    """`text=<name> + "sep" + <text>.strip()` (optionally wrapped in (...).strip()) in <cls>.iterate_units:
    returns (separator, outer_strip: bool)"""
    fn = _func(tree, "iterate_units", cls)
    if fn is None:
        notes.append(f"data_types.py: {cls}.iterate_units not found")
        return "\n", False
    for n in ast.walk(fn):
        if isinstance(n, ast.keyword) and n.arg == "text":
            v = n.value
            outer = False
            if isinstance(v, ast.Call) and isinstance(v.func, ast.Attribute) and v.func.attr == "strip" and not v.args:
                outer, v = True, v.func.value
            if (isinstance(v, ast.BinOp) and isinstance(v.op, ast.Add) and isinstance(v.left, ast.BinOp)
                    and isinstance(v.left.op, ast.Add) and isinstance(v.left.right, ast.Constant)
                    and isinstance(v.left.left, ast.Attribute) and v.left.left.attr == "name"
                    and isinstance(v.right, ast.Call) and isinstance(v.right.func, ast.Attribute) and v.right.func.attr == "strip"):
                return v.left.right.value, outer
            notes.append(f"data_types.py: {cls}.iterate_units text= has an unexpected shape: {ast.unparse(n.value)}")
    return "\n", False


@generator("C02Sheets")
def gen_c02_sheets() -> str:
    notes = []
    odp = _Consts(OO + "odp_extractor.py", "sharepoint2text.parsing.extractors.open_office.odp_extractor", notes)
    ods = _Consts(OO + "ods_extractor.py", "sharepoint2text.parsing.extractors.open_office.ods_extractor", notes)
    odp_tree, ods_tree, x_tree, dt_tree = parse(OO + "odp_extractor.py"), parse(OO + "ods_extractor.py"), parse(XLSX), parse(DT)

    def fmt(c):
        skip = sorted(c.get("_TEXT_SKIP_TAGS"))
        return ("{ space := (%s), tab := (%s), lb := (%s), attrC := (%s), skip := %s }" % (
            chars(c.get("_TEXT_SPACE_TAG")), chars(c.get("_TEXT_TAB_TAG")), chars(c.get("_TEXT_LINE_BREAK_TAG")),
            chars(c.get("_ATTR_TEXT_C")), "[" + ", ".join(chars(s) for s in skip) + "]"))

    ws = [c for c in range(0x110000) if chr(c).isspace()]

    # ------------------------------------------------------------------ ODP
    es = _func(odp_tree, "_extract_slide")
    style_cmp = _compares(es, (str,)) if es else []
    ins = [v for op, v in style_cmp if op == "In"]          # "Title" in style_name, "Body" in style_name
    eqs = [v for op, v in style_cmp if op == "Eq"]          # == "TitleText", == "BodyText"
    if len(ins) != 2 or len(eqs) != 2:
        notes.append(f"odp _extract_slide: expected two `in` and two `==` tests on style_name, found {style_cmp!r}")
        ins, eqs = (ins + ["Title", "Body"])[:2], (eqs + ["TitleText", "BodyText"])[:2]
    paths = _findall_paths(es, odp.mod.NS) if es else []
    frame_path = _one(notes, "odp _extract_slide findall(frame)", [c for k, l, c in paths if k == "findall"])
    notes_path = _one(notes, "odp _extract_slide find(notes)", [c for k, l, c in paths if k == "find" and "notes" in l])
    rd = _func(odp_tree, "read_odp")
    page_path = _one(notes, "odp read_odp findall(page)", [c for k, l, c in (_findall_paths(rd, odp.mod.NS) if rd else []) if k == "findall"])
    tc = _func(dt_tree, "text_combined", "OdpSlide")
    slide_sep = _one(notes, "OdpSlide.text_combined join", _joins(tc) if tc else [])
    iu = _func(dt_tree, "iterate_units", "OdpContent")
    odp_unit_sep = _one(notes, "OdpContent.iterate_units join", _joins(iu) if iu else [])
    ju = _func(dt_tree, "_join_unit_text")
    join_sep = _one(notes, "_join_unit_text join", _joins(ju) if ju else [])
    if ju is None or ast.unparse(ju.body[-1]) != "return '\\n'.join((unit.get_text() for unit in units)).strip()":
        notes.append("_join_unit_text is not `return (sep.join(unit.get_text() for unit in units)).strip()`")

    # ------------------------------------------------------------------ ODS
    sh = _func(ods_tree, "_extract_sheet")
    caps = [v for op, v in (_compares(sh, (int,)) if sh else []) if op == "Gt"]   # source order: the cell cap, then the row cap
    if len(caps) != 2:
        notes.append(f"ods _extract_sheet: expected two `name > <int>` caps, found {caps!r}")
        caps = (caps + [100, 100])[:2]
    cell_cap, row_cap = caps
    sj = _joins(sh) if sh else []                                                  # source order: cells of a row, then the lines
    if len(sj) != 2:
        notes.append(f"ods _extract_sheet: expected two joins, found {sj!r}")
        sj = (sj + ["\t", "\n"])[:2]
    cell_sep, line_sep = sj
    spaths = _findall_paths(sh, ods.mod.NS) if sh else []
    row_path = _one(notes, "ods findall(row)", [c for k, l, c in spaths if l.endswith("table-row")])
    cellp = _one(notes, "ods findall(cell)", [c for k, l, c in spaths if l.endswith("table-cell")])
    rdo = _func(ods_tree, "read_ods")
    table_path = _one(notes, "ods read_ods findall(table)", [c for k, l, c in (_findall_paths(rdo, ods.mod.NS) if rdo else []) if k == "findall"])
    cv = _func(ods_tree, "_extract_cell_value")
    para_sep = _one(notes, "ods _extract_cell_value join", _joins(cv) if cv else [])
    # typed kinds: `if value_type in (...)` / `== "kind"` followed by `value = cell.get(ATTR, "")`
    kinds = []
    if cv:
        for st in cv.body:
            if isinstance(st, ast.If) and isinstance(st.test, ast.Compare) and isinstance(st.test.left, ast.Name) and st.test.left.id == "value_type":
                try:
                    lit = ast.literal_eval(st.test.comparators[0])
                except Exception:
                    notes.append("ods _extract_cell_value: value_type test is not a literal")
                    continue
                names = list(lit) if isinstance(lit, (tuple, list, set)) else [lit]
                attr_name = None
                for a in st.body:
                    if (isinstance(a, ast.Assign) and isinstance(a.value, ast.Call) and isinstance(a.value.func, ast.Attribute)
                            and a.value.func.attr == "get" and isinstance(a.value.args[0], ast.Name)):
                        attr_name = a.value.args[0].id
                if attr_name is None:
                    notes.append(f"ods _extract_cell_value: no cell.get(ATTR) in the branch for {names}")
                    continue
                kinds.append((names, ods.get(attr_name)))
    if [k for k, _ in kinds] != [["float", "currency", "percentage"], ["date"], ["time"], ["boolean"]]:
        notes.append(f"ods _extract_cell_value: typed branches are {[k for k, _ in kinds]!r}")
    ods_unit_sep, ods_unit_strip = _unit_text_parts(dt_tree, "OdsContent", notes)

    # ------------------------------------------------------------------ XLSX
    rs = _func(x_tree, "_read_sheet_data")
    unnamed = []
    if rs:
        for n in ast.walk(rs):
            if isinstance(n, ast.JoinedStr) and len(n.values) == 2 and isinstance(n.values[0], ast.Constant) \
                    and isinstance(n.values[1], ast.FormattedValue) and isinstance(n.values[1].value, ast.Name):
                unnamed.append(n.values[0].value)
    unnamed_prefix = _one(notes, "xlsx header f-string", unnamed)
    fs = _func(x_tree, "_format_sheet_as_text")
    fj = _joins(fs) if fs else []                                                  # source order: rows (outer), then cells (inner)
    if len(fj) != 2:
        notes.append(f"xlsx _format_sheet_as_text: expected two joins, found {fj!r}")
        fj = (fj + ["\n", " "])[:2]
    rj = [n for n in ast.walk(fs) if isinstance(n, ast.Call) and isinstance(n.func, ast.Attribute) and n.func.attr in ("rjust", "ljust", "center")] if fs else []
    if len(rj) != 1 or rj[0].func.attr != "rjust" or len(rj[0].args) != 1:
        notes.append("xlsx _format_sheet_as_text: expected exactly one val.rjust(width)")
    xlsx_unit_sep, xlsx_unit_strip = _unit_text_parts(dt_tree, "XlsxContent", notes)
    xmod = fresh_import("sharepoint2text.parsing.extractors.ms_modern.xlsx_extractor")
    for v, want in ((None, ""), (1.0, "1"), (2.5, "2.5"), ("a b", "a b"), (True, "True"), (7, "7")):
        if xmod._format_value_for_display(v) != want:
            notes.append(f"xlsx _format_value_for_display({v!r}) is not {want!r}")

    # ------------------------------------------------------------------ HTML removed elements
    hmod = fresh_import("sharepoint2text.parsing.extractors.html_extractor")
    remove = sorted(hmod.REMOVE_TAGS)
    if set(ast_literal_assign(HTML, "REMOVE_TAGS") or []) != set(remove):
        notes.append("html: REMOVE_TAGS runtime value differs from the literal")
    void = sorted(hmod._VOID_TAGS)

    def s_(x):
        return chars(x if x is not None else "")

    L = [HEADER.format(src="open_office/odp_extractor.py, open_office/ods_extractor.py, ms_modern/xlsx_extractor.py, data_types.py, html_extractor.py")]
    L.append("import S2T.Model.C02SheetsTables\nnamespace S2T.Gen.C02Sheets\nopen S2T.OdfText S2T.C02.Sheets\n")
    odp_fields = [
        ("fmt", fmt(odp)), ("pTag", chars(odp.get("_TEXT_P_TAG"))), ("frameTag", s_(frame_path)), ("textBoxTag", chars(odp.get("_DRAW_TEXT_BOX_TAG"))),
        ("notesTag", s_(notes_path)), ("pageTag", s_(page_path)), ("styleName", chars(odp.get("_ATTR_TEXT_STYLE_NAME"))),
        ("svgX", chars(odp.get("_ATTR_SVG_X"))), ("svgY", chars(odp.get("_ATTR_SVG_Y"))),
        ("titleSub", chars(ins[0])), ("titleExact", chars(eqs[0])), ("bodySub", chars(ins[1])), ("bodyExact", chars(eqs[1])),
        ("slideSep", s_(slide_sep)), ("unitSep", s_(odp_unit_sep)), ("joinSep", s_(join_sep)),
    ]
    ods_fields = [
        ("fmt", fmt(ods)), ("pTag", chars(ods.get("_TEXT_P_TAG"))), ("tableTag", s_(table_path)), ("rowTag", s_(row_path)), ("cellTag", s_(cellp)),
        ("nameAttr", chars(ods.get("_ATTR_TABLE_NAME"))), ("repRows", chars(ods.get("_ATTR_TABLE_REPEAT_ROWS"))),
        ("repCols", chars(ods.get("_ATTR_TABLE_REPEAT_COLS"))), ("valueType", chars(ods.get("_ATTR_OFFICE_VALUE_TYPE"))),
        ("kinds", "[" + ", ".join("(%s, %s)" % (lean_list([chars(k) for k in ks], per_line=8, indent="").replace("\n", ""), chars(a)) for ks, a in kinds) + "]"),
        ("cellCap", str(int(cell_cap if cell_cap is not None else 100))), ("rowCap", str(int(row_cap if row_cap is not None else 100))),
        ("paraSep", s_(para_sep)), ("cellSep", s_(cell_sep)), ("lineSep", s_(line_sep)),
        ("unitSep", s_(ods_unit_sep)), ("unitStrip", "true" if ods_unit_strip else "false"), ("joinSep", s_(join_sep)),
    ]
    xlsx_fields = [
        ("unnamed", s_(unnamed_prefix)), ("colSep", s_(fj[1])), ("rowSep", s_(fj[0])),
        ("unitSep", s_(xlsx_unit_sep)), ("unitStrip", "true" if xlsx_unit_strip else "false"), ("joinSep", s_(join_sep)),
    ]
    L.append("def ws : List Nat := " + lean_list([str(c) for c in ws], per_line=16) + "\n")
    L.append("def odp : OdpT := {\n  ws := ws,\n" + ",\n".join(f"  {k} := {v}" for k, v in odp_fields) + "\n}\n")
    L.append("def ods : OdsT := {\n  ws := ws,\n" + ",\n".join(f"  {k} := {v}" for k, v in ods_fields) + "\n}\n")
    L.append("def xlsx : XlsxT := {\n  ws := ws,\n" + ",\n".join(f"  {k} := {v}" for k, v in xlsx_fields) + "\n}\n")
    L.append("/-- html_extractor.REMOVE_TAGS (sorted) and the void ones among them -/")
    L.append("def htmlRemove : List (List Char) := " + lean_list([chars(t) for t in remove], per_line=8) + "\n")
    L.append("def htmlVoid : List (List Char) := " + lean_list([chars(t) for t in void], per_line=8) + "\n")
    L.append("/-- translator cross-check notes (constructs not found where the model expects them); must be empty -/")
    L.append("def notes : List String := " + lean_list(lean_str(n) for n in notes) + "\n")
    L.append("end S2T.Gen.C02Sheets\n")
    return "\n".join(L)
