"""Function-level translator: a subset of Python -> Lean 4 `do` notation.

One generator per whitelisted source module -> S2T/Gen/Py<Module>.lean with one Lean `def` per
whitelisted Python function, obtained from the function's AST only, construct by construct.
Primitive operations are the TRUSTED definitions of lean/S2T/Py/Prelude.lean (reached through the
name maps below).  The equivalence `translated function = hand model` is a theorem of
Props/Cxx_Src.lean, re-checked on every run.

Anything the translator does not understand is NOT approximated: it appends a line to
`notes : List String` of the generated file (theorem `gen_py_notes_empty` then fails) and emits a
placeholder.  Dropped on purpose (documented): exception constructor arguments (messages, `cause=`,
`from e`), logging calls, docstrings, `lru_cache` decorators, annotations on locals.
"""
from __future__ import annotations

import ast
import builtins

from translate import HEADER, chars, fresh_import, generator, lean_list, lean_str, parse

# ----------------------------------------------------------------------------- types
INT, BOOL, STR, NONE, FLOATV, RATIO, MODULE, EXTR, UNK = (
    ("int",), ("bool",), ("str",), ("none",), ("floatv",), ("ratio",), ("module",), ("extractor",), ("?",))


# non-negative int (Lean `Nat`) and bytes-like values (`List Nat`, elements < 256 by construction): see
# tools/gen/pyfun_aes.py and lean/S2T/Py/Bytes.lean
NAT, BYTES = ("nat",), ("bytes",)


def Opt(t): return ("opt", t)
def Tup(*ts): return ("tuple", tuple(ts))
def Lst(t): return ("list", t)
def Dict(k, v): return ("dict", k, v)
def SetT(t): return ("set", t)
def Rec(n): return ("rec", n)
def Fn(args, ret, eff): return ("fn", tuple(args), ret, eff)


def lt(t) -> str:
    """Lean type"""
    k = t[0]
    if k == "int": return "Int"
    if k == "bool": return "Bool"
    if k == "str": return "S2T.Py.Str"
    if k == "none": return "Unit"
    if k == "nat": return "Nat"
    if k == "bytes": return "(List Nat)"
    if k == "floatv": return "S2T.Py.FloatV"
    if k == "ratio": return "S2T.ZipBomb.Ratio"
    if k == "module": return "S2T.Py.Module"
    if k == "extractor": return "S2T.Py.Extractor"
    if k == "opt": return f"(Option {lt(t[1])})"
    if k == "tuple": return "(" + " × ".join(lt(x) for x in t[1]) + ")" if t[1] else "Unit"
    if k in ("list", "set"): return f"(List {lt(t[1])})"
    if k == "dict": return f"(List ({lt(t[1])} × {lt(t[2])}))"
    if k == "rec": return RECORDS[t[1]]["lean"]
    if k == "fn":
        r = lt(t[2])
        if t[3]: r = f"(S2T.Py.M {r})"
        args = [lt(a) for a in t[1]] or ["Unit"]
        return "(" + " → ".join(args + [r]) + ")"
    return "Unit"   # placeholder type of an unsupported expression (a note has been recorded)


# records of third-party / library classes: python attribute -> (lean field, type of the read, nat?)
RECORDS = {
    "ZipInfo": dict(lean="S2T.Py.ZipInfo",
                    attrs={"filename": ("filename", STR, False), "file_size": ("fileSize", INT, True),
                           "compress_size": ("compressSize", INT, True)},
                    methods={"is_dir": ("isDir", (), BOOL, False)}),
    "ZipFile": dict(lean="S2T.Py.ZipFile", attrs={},
                    methods={"infolist": ("infolist", (), Lst(Rec("ZipInfo")), True)}),
    "ZipBombLimits": dict(lean="S2T.ZipBomb.Limits",
                          attrs={"max_entries": ("maxEntries", INT, True),
                                 "max_total_uncompressed_bytes": ("maxTotal", INT, True),
                                 "max_single_uncompressed_bytes": ("maxSingle", INT, True),
                                 "max_total_compression_ratio": ("totalRatio", RATIO, False),
                                 "max_entry_compression_ratio": ("entryRatio", RATIO, False)},
                          methods={}),
}
# annotation text -> type
ANNOT = {"int": INT, "str": STR, "bool": BOOL, "None": NONE, "zipfile.ZipInfo": Rec("ZipInfo"),
         "zipfile.ZipFile": Rec("ZipFile"), "ZipBombLimits": Rec("ZipBombLimits"),
         "str | None": Opt(STR), "Optional[str]": Opt(STR)}

# dotted stdlib names -> (lean, arg types, result type, raises?, needs Env?)
DOTTED_CALLS = {
    "os.path.splitext": ("S2T.Py.splitext", [STR], Tup(STR, STR), False, False),
    "os.path.splitdrive": ("S2T.Py.splitdrive", [STR], Tup(STR, STR), False, False),
    "os.path.isabs": ("S2T.Py.isabs", [STR], BOOL, False, False),
    "os.path.join": ("S2T.Py.join", [STR, STR], STR, False, False),
    "os.path.basename": ("S2T.Py.basename", [STR], STR, False, False),
    "os.path.dirname": ("S2T.Py.dirname", [STR], STR, False, False),
    "os.path.abspath": ("S2T.Py.abspath", [STR], STR, False, True),
    "mimetypes.guess_type": ("S2T.Py.Env.guessType", [STR], Tup(Opt(STR), Opt(STR)), False, True),
    "importlib.import_module": ("S2T.Py.importModule", [STR], MODULE, False, False),
}
DOTTED_CONSTS = {"os.sep": ("S2T.Py.sep", STR)}
ALLOWED_IMPORTS = {"importlib"}
IGNORED_DECORATORS = {"lru_cache"}
LEAN_KEYWORDS = {"at", "end", "from", "fun", "in", "do", "then", "else", "if", "let", "have", "show", "open", "by",
                 "with", "match", "for", "where", "def", "theorem", "instance", "structure", "class", "import",
                 "namespace", "section", "variable", "universe", "mut", "return", "try", "catch", "finally",
                 "unless", "break", "continue", "Type", "Prop", "Sort", "using", "from", "nomatch", "deriving",
                 "extends", "local", "private", "protected", "macro", "syntax", "notation", "infix", "prefix",
                 "postfix", "set_option", "calc", "suffices", "obtain", "env", "default", "some", "none", "pure",
                 "true", "false", "id", "throw"}


def ident(name: str) -> str:
    return f"«py_{name}»" if name in LEAN_KEYWORDS else name


def unify(a, b):
    if a == b: return a
    if a == UNK or b == UNK: return UNK
    if a == NONE: return b if b[0] == "opt" else Opt(b)
    if b == NONE: return a if a[0] == "opt" else Opt(a)
    if a[0] == "opt" and a[1] == b: return a
    if b[0] == "opt" and b[1] == a: return b
    return None


def dotted(node):
    parts = []
    while isinstance(node, ast.Attribute):
        parts.append(node.attr)
        node = node.value
    if isinstance(node, ast.Name):
        parts.append(node.id)
        return ".".join(reversed(parts))
    return None


# ----------------------------------------------------------------------------- module configuration
# MODULES[Name] = src, pymod, imports (Lean), uses (other Py modules), consts, funcs [(name, options)]
MODULES = {
    "PyZipBomb": dict(
        src="sharepoint2text/parsing/extractors/util/zip_bomb.py",
        pymod="sharepoint2text.parsing.extractors.util.zip_bomb",
        imports=["S2T.Gen.ZipBomb"], uses=[],
        consts={"DEFAULT_ZIP_BOMB_LIMITS": ("S2T.Gen.ZipBomb.defaultLimits", Rec("ZipBombLimits"))},
        funcs=[("_is_directory", {}),
               # the model's hypothesis: a ratio limit is a finite number, given by its exact fraction
               ("_ratio_exceeds", {"types": {"limit": RATIO}}),
               ("validate_zipfile", {})]),
    "PyRouter": dict(
        src="sharepoint2text/parsing/router.py", pymod="sharepoint2text.parsing.router",
        imports=["S2T.Gen.Router"], uses=[], loggers={"logger"},
        consts={"_EXTRACTOR_REGISTRY": ("S2T.Gen.Router.registry", Dict(STR, Tup(STR, STR))),
                "_EXTENSION_ALIASES": ("S2T.Gen.Router.aliases", Dict(STR, STR)),
                "_COMPOUND_EXTENSIONS": ("S2T.Gen.Router.compound", Dict(STR, STR)),
                "_SUPPORTED_EXTENSIONS": ("S2T.Gen.Router.supported", SetT(STR)),
                "MIME_TYPE_MAPPING": ("S2T.Gen.Router.mimeMap", Dict(STR, STR))},
        funcs=[("_get_extractor", {"ret": EXTR}), ("_file_type_from_extension", {}),
               ("is_supported_file", {}), ("get_extractor", {"ret": EXTR})]),
    "PySevenZip": dict(
        src="sharepoint2text/parsing/extractors/util/sevenzip.py",
        pymod="sharepoint2text.parsing.extractors.util.sevenzip",
        imports=[], uses=[], consts={}, funcs=[("_safe_join", {})]),
    "PyArchive": dict(
        src="sharepoint2text/parsing/extractors/archive_extractor.py",
        pymod="sharepoint2text.parsing.extractors.archive_extractor",
        imports=["S2T.Gen.Archive"], uses=["PyRouter"], loggers={"logger"},
        consts={"NESTED_ARCHIVE_EXTENSIONS": ("S2T.Gen.Archive.nested", SetT(STR))},
        funcrefs=["read_archive"],   # module-level functions used as values (`is` comparison)
        funcs=[("_get_router_functions", {"ret": None}), ("_is_supported_file_cached", {}),
               ("_get_file_extractor_cached", {"ret": EXTR}), ("_should_skip_file", {})]),
}

_DONE: dict = {}   # module name -> dict(text=..., sigs={py name: Sig})


class Sig:
    def __init__(self, lean, params, ret, eff, env, defaults):
        self.lean, self.params, self.ret, self.eff, self.env, self.defaults = lean, params, ret, eff, env, defaults
        # params: [(python name, type)], defaults: {python name: lean code}

    def fn_type(self):
        return Fn([t for _, t in self.params], self.ret, self.eff)


class Unsupported(Exception):
    pass


# ----------------------------------------------------------------------------- one function
class FuncTr:
    def __init__(self, mod: "ModTr", node: ast.FunctionDef, opts: dict):
        self.mod, self.node, self.opts = mod, node, opts
        self.name = node.name
        self.vars: dict = {}          # python local -> type
        self.mut: set = set()
        self.declared: set = set()
        self.narrow: list = [set()]   # stack of sets of names known non-None
        self.localfns: dict = {}      # local name -> Sig (from `from X import f` inside the function)
        self.eff = False
        self.env = False
        self.site = 0
        self.remarks: list = []
        self.ret = None
        self.tmp = 0
        self.out_of_scope: set = set()

    # ---- diagnostics
    def note(self, node, msg):
        ln = getattr(node, "lineno", "?")
        self.mod.notes.append(f"{self.mod.cfg['src']}:{self.name}:{ln}: {msg}")

    def bad(self, node, msg):
        """unsupported expression: note + placeholder"""
        self.note(node, msg)
        return "()", UNK, False

    # ---- types
    def annot(self, node):
        if node is None:
            return None
        txt = ast.unparse(node)
        if txt in ANNOT:
            return ANNOT[txt]
        return None

    # ---- analysis of assignments
    def _targets(self, t):
        if isinstance(t, ast.Name):
            return [t.id]
        if isinstance(t, (ast.Tuple, ast.List)):
            return [n for e in t.elts for n in self._targets(e)]
        return []

    def analyse(self):
        counts, nested = {}, {}

        def walk(stmts, depth, block):
            for st in stmts:
                names = []
                if isinstance(st, ast.Assign):
                    for t in st.targets:
                        names += self._targets(t)
                elif isinstance(st, ast.AnnAssign) and st.value is not None:
                    names += self._targets(st.target)
                elif isinstance(st, ast.AugAssign):
                    names += self._targets(st.target)
                    for n in self._targets(st.target):
                        self.mut.add(n)
                for n in names:
                    if n == "_":
                        continue
                    counts[n] = counts.get(n, 0) + 1
                    nested.setdefault(n, []).append((depth, id(block)))
                for fld in ("body", "orelse", "finalbody"):
                    sub = getattr(st, fld, None)
                    if isinstance(sub, list) and sub and isinstance(sub[0], ast.stmt):
                        walk(sub, depth + 1, sub)
                for h in getattr(st, "handlers", []) or []:
                    walk(h.body, depth + 1, h.body)

        walk(self.node.body, 0, self.node.body)
        for n, c in counts.items():
            if c > 1:
                self.mut.add(n)

    # ---- narrowing facts: names that are not None when `e` evaluates to `sense`
    def facts(self, e, sense: bool) -> set:
        if isinstance(e, ast.Name):
            return {e.id} if sense and self.vars.get(e.id, UNK)[0] == "opt" else set()
        if isinstance(e, ast.UnaryOp) and isinstance(e.op, ast.Not):
            return self.facts(e.operand, not sense)
        if isinstance(e, ast.Compare) and len(e.ops) == 1 and isinstance(e.left, ast.Name) \
                and isinstance(e.comparators[0], ast.Constant) and e.comparators[0].value is None:
            if isinstance(e.ops[0], ast.IsNot):
                return {e.left.id} if sense else set()
            if isinstance(e.ops[0], ast.Is):
                return {e.left.id} if not sense else set()
        if isinstance(e, ast.BoolOp):
            if isinstance(e.op, ast.And) and sense or isinstance(e.op, ast.Or) and not sense:
                out = set()
                for v in e.values:
                    out |= self.facts(v, sense)
                return out
        return set()

    def narrowed(self, name):
        return any(name in s for s in self.narrow)

    def kill(self, name):
        for s in self.narrow:
            s.discard(name)

    # ---- coercions
    def coerce(self, code, t, want, node):
        if want is None or t == want or want == UNK or t == UNK:
            return code
        if t == NONE and want[0] == "opt":
            return "none"
        if want[0] == "opt" and want[1] == t:
            return f"(some {code})"
        if t[0] == "opt" and t[1] == want:
            self.note(node, f"a possibly-None value of type {lt(t)} is used where {lt(want)} is needed and no "
                            f"`is not None` / truthiness test dominates the use")
            return "(default)"
        self.note(node, f"type mismatch: have {lt(t)}, need {lt(want)}")
        return "(default)"

    # ---- expressions ----------------------------------------------------------------------
    def lit_str_tuple(self, node):
        if isinstance(node, ast.Tuple) and all(isinstance(e, ast.Constant) and isinstance(e.value, str) for e in node.elts):
            return "[" + ", ".join(chars(e.value) for e in node.elts) + "]"
        return None

    def expr(self, e):
        """-> (lean term, type, eff); an effectful term contains `(← …)` and must sit in a strict position"""
        try:
            return self._expr(e)
        except Unsupported as u:
            return self.bad(e, str(u))

    def _expr(self, e):
        if isinstance(e, ast.Constant):
            v = e.value
            if v is None: return "()", NONE, False
            if isinstance(v, bool): return ("true" if v else "false"), BOOL, False
            if isinstance(v, int): return f"({v} : Int)", INT, False
            if isinstance(v, str): return chars(v), STR, False
            raise Unsupported(f"constant {v!r}")
        if isinstance(e, ast.Name):
            return self.name_load(e)
        if isinstance(e, ast.Tuple):
            parts = [self.expr(x) for x in e.elts]
            return "(" + ", ".join(p[0] for p in parts) + ")", Tup(*[p[1] for p in parts]), any(p[2] for p in parts)
        if isinstance(e, ast.Attribute):
            d = dotted(e)
            if d in DOTTED_CONSTS:
                return DOTTED_CONSTS[d][0], DOTTED_CONSTS[d][1], False
            c, t, eff = self.expr(e.value)
            if t[0] == "rec":
                r = RECORDS[t[1]]
                if e.attr in r["attrs"]:
                    fld, ft, nat = r["attrs"][e.attr]
                    return (f"({c}.{fld} : Int)" if nat else f"{c}.{fld}"), ft, eff
                if e.attr in r["methods"]:
                    fld, args, rt, meff = r["methods"][e.attr]
                    if not args:
                        return f"(fun (_ : Unit) => {c}.{fld})", Fn([], rt, meff), eff
            raise Unsupported(f"attribute .{e.attr} on {lt(t)}")
        if isinstance(e, ast.BoolOp) or (isinstance(e, ast.UnaryOp) and isinstance(e.op, ast.Not)) or isinstance(e, ast.Compare):
            if isinstance(e, ast.BoolOp):
                # value context: operands of one type -> orV / andV ; otherwise only usable as a condition
                parts = []
                self.narrow.append(set())
                for i, v in enumerate(e.values):
                    parts.append(self.expr(v))
                    if isinstance(e.op, ast.And):
                        self.narrow[-1] |= self.facts(v, True)
                    else:
                        self.narrow[-1] |= self.facts(v, False)
                self.narrow.pop()
                ts = {p[1] for p in parts}
                if len(ts) == 1 and BOOL not in ts and not any(p[2] for p in parts[1:]):
                    fn = "S2T.Py.orV" if isinstance(e.op, ast.Or) else "S2T.Py.andV"
                    code = parts[0][0]
                    for p in parts[1:]:
                        code = f"({fn} {code} {p[0]})"
                    return code, parts[0][1], parts[0][2]
                if ts != {BOOL}:
                    raise Unsupported("`and`/`or` on operands of different types used as a value")
            c, eff = self.cond(e)
            return c, BOOL, eff
        if isinstance(e, ast.UnaryOp) and isinstance(e.op, ast.USub):
            c, t, eff = self.expr(e.operand)
            if t == INT: return f"(-{c})", INT, eff
            raise Unsupported("unary minus on a non-int")
        if isinstance(e, ast.BinOp):
            a, ta, ea = self.expr(e.left)
            b, tb, eb = self.expr(e.right)
            if ta == INT and tb == INT:
                for k, sym in ((ast.Add, "+"), (ast.Sub, "-"), (ast.Mult, "*")):
                    if isinstance(e.op, k):
                        return f"({a} {sym} {b})", INT, ea or eb
                if isinstance(e.op, ast.Div):
                    self.eff = True
                    return f"(← S2T.Py.truediv {a} {b})", FLOATV, True
            if ta == STR and tb == STR and isinstance(e.op, ast.Add):
                return f"({a} ++ {b})", STR, ea or eb
            raise Unsupported(f"binary operator {type(e.op).__name__} on {lt(ta)}, {lt(tb)}")
        if isinstance(e, ast.IfExp):
            c, ec = self.cond(e.test)
            self.narrow.append(self.facts(e.test, True)); a, ta, ea = self.expr(e.body); self.narrow.pop()
            self.narrow.append(self.facts(e.test, False)); b, tb, eb = self.expr(e.orelse); self.narrow.pop()
            t = unify(ta, tb)
            if t is None:
                raise Unsupported(f"conditional expression with branches of types {lt(ta)} / {lt(tb)}")
            a, b = self.coerce(a, ta, t, e), self.coerce(b, tb, t, e)
            if ea or eb:
                return f"(← (do if {c} then pure {a} else pure {b} : S2T.Py.M {lt(t)}))", t, True
            return f"(if {c} then {a} else {b})", t, ec
        if isinstance(e, ast.Subscript):
            c, t, eff = self.expr(e.value)
            s = e.slice
            if t[0] == "tuple" and isinstance(s, ast.Constant) and isinstance(s.value, int) and 0 <= s.value < len(t[1]):
                n, i = len(t[1]), s.value
                proj = ".2" * i + (".1" if i < n - 1 else "")
                return f"{c}{proj}", t[1][i], eff
            if t[0] == "dict":
                k, tk, ek = self.expr(s)
                k = self.coerce(k, tk, t[1], e)
                self.eff = True
                return f"(← S2T.Py.dictGetItem {c} {k})", t[2], True
            if t in (STR,) and isinstance(s, ast.Slice) and s.upper is None and s.step is None \
                    and isinstance(s.lower, ast.Constant) and isinstance(s.lower.value, int) and s.lower.value >= 0:
                return f"(S2T.Py.sliceFrom {c} {s.lower.value})", t, eff
            raise Unsupported(f"subscript {ast.unparse(s)} on {lt(t)}")
        if isinstance(e, ast.Call):
            return self.call(e)
        raise Unsupported(f"expression {type(e).__name__}")

    def name_load(self, e):
        n = e.id
        if n in self.vars:
            t = self.vars[n]
            if t[0] == "opt" and self.narrowed(n):
                self.eff = True
                return f"(← S2T.Py.unwrap {ident(n)})", t[1], True
            return ident(n), t, False
        if n in self.localfns:
            s = self.localfns[n]
            return self.fn_value(s), s.fn_type(), False
        if n in self.mod.cfg["consts"]:
            c, t = self.mod.cfg["consts"][n]
            return c, t, False
        if n in self.mod.funcrefs:
            return self.mod.funcrefs[n], EXTR, False
        if n in self.mod.sigs:
            s = self.mod.sigs[n]
            return self.fn_value(s), s.fn_type(), False
        if n in self.out_of_scope:
            raise Unsupported(f"local `{n}` is first assigned inside a nested block and used outside it")
        raise Unsupported(f"name `{n}` is neither a local, a mapped module constant nor a translated function")

    def fn_value(self, s: Sig):
        if s.env:
            self.env = True
            return f"({s.lean} env)"
        return s.lean

    # condition context -> (Bool term, eff)
    def cond(self, e):
        if isinstance(e, ast.BoolOp):
            is_and = isinstance(e.op, ast.And)
            parts = []
            self.narrow.append(set())
            for v in e.values:
                parts.append(self.cond(v))
                self.narrow[-1] |= self.facts(v, is_and)
            self.narrow.pop()
            if not any(p[1] for p in parts[1:]):
                return "(" + (" && " if is_and else " || ").join(p[0] for p in parts) + ")", parts[0][1]
            # an operand that may raise must only be evaluated when reached: nested `do`
            code = f"pure {parts[-1][0]}"
            for p in reversed(parts[:-1]):
                code = f"if {p[0]} then {code} else pure false" if is_and else f"if {p[0]} then pure true else {code}"
            return f"(← (do {code} : S2T.Py.M Bool))", True
        if isinstance(e, ast.UnaryOp) and isinstance(e.op, ast.Not):
            c, eff = self.cond(e.operand)
            return f"(!{c})", eff
        if isinstance(e, ast.Compare):
            return self.compare(e)
        if isinstance(e, ast.Call) and isinstance(e.func, ast.Name) and e.func.id == "bool" and len(e.args) == 1 \
                and not e.keywords and "bool" not in self.vars:
            return self.cond(e.args[0])
        c, t, eff = self.expr(e)
        if t == BOOL:
            return c, eff
        if t in (INT, STR) or t[0] in ("opt", "list"):
            return f"(S2T.Py.truthy {c})", eff
        if t != UNK:
            self.note(e, f"truthiness of a value of type {lt(t)}")
        return "(default)", eff

    def compare(self, e):
        operands = [e.left] + list(e.comparators)
        vals = [self.expr(x) for x in operands]
        outs = []
        for i, op in enumerate(e.ops):
            (a, ta, _), (b, tb, _) = vals[i], vals[i + 1]
            rn = operands[i + 1]
            if isinstance(op, (ast.Is, ast.IsNot)):
                if isinstance(rn, ast.Constant) and rn.value is None:
                    # test on the un-narrowed variable
                    ln = operands[i]
                    if isinstance(ln, ast.Name) and self.vars.get(ln.id, UNK)[0] == "opt":
                        outs.append(f"{ident(ln.id)}.isNone" if isinstance(op, ast.Is) else f"{ident(ln.id)}.isSome")
                        continue
                    if ta[0] == "opt":
                        outs.append(f"{a}.isNone" if isinstance(op, ast.Is) else f"{a}.isSome")
                        continue
                    raise Unsupported(f"`is None` on a value of type {lt(ta)}")
                if ta == EXTR and tb == EXTR:
                    outs.append(f"({a} == {b})" if isinstance(op, ast.Is) else f"({a} != {b})")
                    continue
                raise Unsupported(f"`is` between {lt(ta)} and {lt(tb)}")
            if isinstance(op, (ast.In, ast.NotIn)):
                if tb[0] == "dict" and ta == tb[1]:
                    c = f"(S2T.Py.dictContains {b} {a})"
                elif tb[0] in ("set", "list") and ta == tb[1] == STR:
                    c = f"(S2T.Py.setContains {b} {a})"
                else:
                    raise Unsupported(f"`in` with {lt(ta)} in {lt(tb)}")
                outs.append(c if isinstance(op, ast.In) else f"(!{c})")
                continue
            if ta != tb:
                raise Unsupported(f"comparison between {lt(ta)} and {lt(tb)}")
            if isinstance(op, (ast.Eq, ast.NotEq)) and ta in (INT, STR, BOOL, EXTR, Opt(STR), Tup(STR, STR)):
                outs.append(f"({a} == {b})" if isinstance(op, ast.Eq) else f"({a} != {b})")
                continue
            sym = {ast.Lt: "<", ast.LtE: "≤", ast.Gt: ">", ast.GtE: "≥"}.get(type(op))
            if sym and ta == INT:
                outs.append(f"decide ({a} {sym} {b})")
                continue
            raise Unsupported(f"comparison {type(op).__name__} on {lt(ta)}")
        if len(outs) > 1 and any(v[2] for v in vals[1:-1]):
            raise Unsupported("comparison chain whose middle operand may raise")
        eff = any(v[2] for v in vals)
        return ("(" + " && ".join(outs) + ")" if len(outs) > 1 else outs[0]), eff

    # ---- calls
    def args_for(self, sig: Sig, call: ast.Call):
        given = {}
        for i, a in enumerate(call.args):
            if isinstance(a, ast.Starred) or i >= len(sig.params):
                raise Unsupported("call arguments do not match the translated signature")
            given[sig.params[i][0]] = a
        for kw in call.keywords:
            if kw.arg is None or kw.arg not in dict(sig.params):
                raise Unsupported(f"keyword argument {kw.arg!r} in a call of {sig.lean}")
            given[kw.arg] = kw.value
        out, eff = [], False
        for pn, pt in sig.params:
            if pn in given:
                c, t, ef = self.expr(given[pn])
                out.append(self.coerce(c, t, pt, call))
                eff = eff or ef
            elif pn in sig.defaults:
                out.append(sig.defaults[pn])
            else:
                raise Unsupported(f"missing argument `{pn}` in a call of {sig.lean}")
        return out, eff

    def apply_sig(self, sig: Sig, head: str, call: ast.Call):
        args, eff = self.args_for(sig, call)
        code = "(" + " ".join([head] + [f"({a})" if " " in a and not a.startswith("(") else a for a in args]) + ")" if args else head
        if sig.eff:
            self.eff = True
            return f"(← {code})", sig.ret, True
        return code, sig.ret, eff

    def call(self, e: ast.Call):
        f = e.func
        if isinstance(f, ast.Name) and f.id not in self.vars:
            n = f.id
            if n in self.localfns or n in self.mod.sigs:
                s = self.localfns.get(n) or self.mod.sigs[n]
                return self.apply_sig(s, self.fn_value(s), e)
            if e.keywords:
                raise Unsupported(f"keyword arguments in a call of builtin {n}")
            if n == "len" and len(e.args) == 1:
                c, t, eff = self.expr(e.args[0])
                if t[0] in ("list", "str", "dict", "set"):
                    return f"(S2T.Py.len {c})", INT, eff
                raise Unsupported(f"len of {lt(t)}")
            if n == "int" and len(e.args) == 1:
                c, t, eff = self.expr(e.args[0])
                if t == INT:
                    return f"(S2T.Py.intOfInt {c})", INT, eff
                raise Unsupported(f"int() of {lt(t)}")
            if n == "bool" and len(e.args) == 1:
                c, eff = self.cond(e.args[0])
                return c, BOOL, eff
            if n == "callable" and len(e.args) == 1:
                c, t, eff = self.expr(e.args[0])
                if t[0] == "fn":
                    return "true", BOOL, eff
                raise Unsupported(f"callable() of {lt(t)}")
            if n == "getattr":
                return self.getattr_call(e)
            if n in ("any", "all") and len(e.args) == 1 and isinstance(e.args[0], ast.GeneratorExp):
                return self.any_all(n, e.args[0])
            raise Unsupported(f"call of `{n}`")
        if isinstance(f, ast.Name):  # local variable holding a function
            t = self.vars[f.id]
            if t[0] == "fn" and not e.keywords and len(e.args) == len(t[1]):
                args, eff = [], False
                for a, pt in zip(e.args, t[1]):
                    c, ta, ef = self.expr(a)
                    args.append(self.coerce(c, ta, pt, e)); eff = eff or ef
                code = "(" + " ".join([ident(f.id)] + (args or ["()"])) + ")"
                if t[3]:
                    self.eff = True
                    return f"(← {code})", t[2], True
                return code, t[2], eff
            raise Unsupported(f"call of local `{f.id}` of type {lt(t)}")
        d = dotted(f)
        if d in DOTTED_CALLS and d.split(".")[0] not in self.vars:
            ln, pts, rt, raises, env = DOTTED_CALLS[d]
            if e.keywords or len(e.args) != len(pts):
                raise Unsupported(f"call of {d} with {len(e.args)} arguments / keywords")
            args, eff = [], False
            for a, pt in zip(e.args, pts):
                c, ta, ef = self.expr(a)
                args.append(self.coerce(c, ta, pt, e)); eff = eff or ef
            if env:
                self.env = True
                head = f"{ln} env"
            else:
                head = ln
            return "(" + " ".join([head] + args) + ")", rt, eff
        if isinstance(f, ast.Attribute):
            return self.method_call(e)
        raise Unsupported(f"call of {ast.unparse(f)}")

    def getattr_call(self, e):
        if len(e.args) == 3 and isinstance(e.args[1], ast.Constant) and isinstance(e.args[1].value, str):
            c, t, eff = self.expr(e.args[0])
            if t[0] == "rec":
                attr = e.args[1].value
                r = RECORDS[t[1]]
                if attr in r["attrs"] or attr in r["methods"]:
                    # the attribute exists on this (closed) record type: the default is never used
                    return self._expr(ast.copy_location(ast.Attribute(value=e.args[0], attr=attr, ctx=ast.Load()), e))
                return self.expr(e.args[2])
        if len(e.args) == 2:
            c, t, eff = self.expr(e.args[0])
            n, tn, en = self.expr(e.args[1])
            if t == MODULE and tn == STR:
                return f"(S2T.Py.moduleGetattr {c} {n})", EXTR, eff or en
        raise Unsupported("getattr form")

    def any_all(self, which, g: ast.GeneratorExp):
        if len(g.generators) != 1 or g.generators[0].is_async or not isinstance(g.generators[0].target, ast.Name):
            raise Unsupported("generator expression shape")
        gen = g.generators[0]
        it, tit, eff = self.iterable(gen.iter)
        v = gen.target.id
        if v in self.vars:
            raise Unsupported("generator variable shadows a local")
        self.vars[v] = tit
        try:
            body, eb = self.cond(g.elt)
            for c in gen.ifs:
                cc, ec = self.cond(c)
                eb = eb or ec
                body = f"(!{cc} || {body})" if which == "all" else f"({cc} && {body})"
        finally:
            del self.vars[v]
        if eb:
            raise Unsupported("generator expression whose body may raise")
        return f"(List.{which} {it} (fun {ident(v)} => {body}))", BOOL, eff

    def iterable(self, node):
        """-> (lean list term, element type, eff)"""
        if isinstance(node, ast.Call) and isinstance(node.func, ast.Attribute) and not node.args and not node.keywords:
            c, t, eff = self.expr(node.func.value)
            if t[0] == "dict" and node.func.attr == "items":
                return c, Tup(t[1], t[2]), eff
            if t[0] == "dict" and node.func.attr == "keys":
                return f"(S2T.Py.dictKeys {c})", t[1], eff
        c, t, eff = self.expr(node)
        if t[0] == "dict":
            return f"(S2T.Py.dictKeys {c})", t[1], eff
        if t[0] in ("list", "set"):
            return c, t[1], eff
        raise Unsupported(f"iteration over {lt(t)}")

    def method_call(self, e):
        f = e.func
        c, t, eff = self.expr(f.value)
        m = f.attr
        if e.keywords:
            raise Unsupported(f"keyword arguments in a call of .{m}")
        args = [self.expr(a) for a in e.args]
        eff = eff or any(a[2] for a in args)
        if t[0] == "rec" and m in RECORDS[t[1]]["methods"]:
            fld, pts, rt, meff = RECORDS[t[1]]["methods"][m]
            if len(args) != len(pts):
                raise Unsupported(f".{m} arity")
            if meff:
                self.eff = True
                return f"(← {c}.{fld})", rt, True
            return f"{c}.{fld}", rt, eff
        if t == STR:
            if m == "lower" and not args:
                self.env = True
                return f"(env.lower {c})", STR, eff
            if m in ("endswith", "startswith") and len(args) == 1:
                if args[0][1] == STR:
                    return f"(S2T.Py.{m} {c} {args[0][0]})", BOOL, eff
                lst = self.lit_str_tuple(e.args[0])
                if lst:
                    return f"(S2T.Py.{m}Any {c} {lst})", BOOL, eff
        if t[0] == "dict":
            if m == "get" and len(args) == 2:
                k = self.coerce(args[0][0], args[0][1], t[1], e)
                d = self.coerce(args[1][0], args[1][1], t[2], e)
                return f"(S2T.Py.dictGetD {c} {k} {d})", t[2], eff
            if m == "get" and len(args) == 1:
                k = self.coerce(args[0][0], args[0][1], t[1], e)
                return f"(S2T.Py.dictGet? {c} {k})", Opt(t[2]), eff
        if t == RATIO and m == "as_integer_ratio" and not args:
            return f"(S2T.Py.asIntegerRatio {c})", Tup(INT, INT), eff
        raise Unsupported(f"method .{m} on {lt(t)}")

    # ---- statements -----------------------------------------------------------------------
    def assign_to(self, target, code, t, node, out, ind, monadic_rhs=False):
        """emit `let` / `let mut` / `:=` for one target"""
        arrow = "←" if monadic_rhs else ":="
        if isinstance(target, ast.Name):
            n = target.id
            if n == "_":
                if monadic_rhs:
                    out.append(f"{ind}let _ ← {code}")
                return
            if n in self.declared:
                want = self.vars[n]
                c2 = self.coerce(code, t, want, node) if not monadic_rhs else code
                out.append(f"{ind}{ident(n)} {arrow} {c2}")
                self.kill(n)
                if t != NONE and want[0] == "opt" and want[1] == t:
                    self.narrow[-1].add(n)
            else:
                if n in self.out_of_scope:
                    self.note(node, f"local `{n}` is first assigned inside a nested block and assigned again outside it")
                self.vars[n] = t
                self.declared.add(n)
                kw = "let mut" if n in self.mut else "let"
                out.append(f"{ind}{kw} {ident(n)} : {lt(t)} {arrow} {code}")
            return
        if isinstance(target, (ast.Tuple, ast.List)) and t[0] == "tuple" and len(target.elts) == len(t[1]) \
                and all(isinstance(x, ast.Name) for x in target.elts):
            names = [x.id for x in target.elts]
            if any(n in self.declared or n in self.mut for n in names if n != "_"):
                # re-assignment through a tuple pattern: go through a temporary
                self.tmp += 1
                tmp = f"py_t{self.tmp}"
                out.append(f"{ind}let {tmp} : {lt(t)} {arrow} {code}")
                n_el = len(names)
                for i, x in enumerate(target.elts):
                    proj = ".2" * i + (".1" if i < n_el - 1 else "")
                    self.assign_to(x, f"{tmp}{proj}", t[1][i], node, out, ind)
                return
            pats = []
            for n, tt in zip(names, t[1]):
                if n == "_":
                    pats.append("_")
                else:
                    self.vars[n] = tt
                    self.declared.add(n)
                    pats.append(ident(n))
            out.append(f"{ind}let ({', '.join(pats)}) : {lt(t)} {arrow} {code}")
            return
        self.note(node, f"assignment target {ast.unparse(target)} with a value of type {lt(t)}")

    def is_logging(self, st):
        return (isinstance(st, ast.Expr) and isinstance(st.value, ast.Call) and isinstance(st.value.func, ast.Attribute)
                and isinstance(st.value.func.value, ast.Name) and st.value.func.value.id in self.mod.cfg.get("loggers", ())
                and st.value.func.value.id not in self.vars)

    def terminal(self, stmts):
        if not stmts:
            return False
        s = stmts[-1]
        if isinstance(s, (ast.Return, ast.Raise, ast.Continue, ast.Break)):
            return True
        if isinstance(s, ast.If):
            return bool(s.orelse) and self.terminal(s.body) and self.terminal(s.orelse)
        return False

    def block(self, stmts, ind, in_loop, in_try=False, keep=False):
        out = []
        self.narrow.append(set())
        before = set(self.declared)
        for st in stmts:
            self.stmt(st, out, ind, in_loop, in_try)
            # `if c: return/raise/continue` narrows the rest of the block by the negation of c
            if isinstance(st, ast.If) and not st.orelse and self.terminal(st.body):
                self.narrow[-1] |= self.facts(st.test, False)
        self.narrow.pop()
        if not keep:
            # a Lean `let` ends with its block; a Python local does not: a later use of such a name finds no
            # binding here and is reported as unsupported (never silently re-bound)
            for n in self.declared - before:
                self.declared.discard(n)
                self.vars.pop(n, None)
                self.out_of_scope.add(n)
        if not out:
            out.append(f"{ind}pure ()")
        return out

    def raise_code(self, st):
        exc = st.exc
        if isinstance(exc, ast.Call):
            exc = exc.func   # constructor arguments (message, cause=…) are dropped, not evaluated
        if not isinstance(exc, ast.Name):
            raise Unsupported(f"raise of {ast.unparse(st.exc) if st.exc else 'the current exception'}")
        cls = self.mod.exc_class(exc.id)
        k = self.site
        self.site += 1
        self.eff = True
        return f"throw ({cls} {lean_str(self.name)} {k})"

    def stmt(self, st, out, ind, in_loop, in_try):
        try:
            self._stmt(st, out, ind, in_loop, in_try)
        except Unsupported as u:
            self.note(st, str(u))
            out.append(f"{ind}let _ := (default : Unit)  -- UNSUPPORTED: {str(u)[:80]}")

    def _stmt(self, st, out, ind, in_loop, in_try):
        if isinstance(st, ast.Expr) and isinstance(st.value, ast.Constant) and isinstance(st.value.value, str):
            return  # docstring
        if self.is_logging(st):
            return
        if isinstance(st, ast.Pass):
            return
        if isinstance(st, ast.Import):
            for a in st.names:
                if a.name not in ALLOWED_IMPORTS or a.asname:
                    raise Unsupported(f"import {a.name} inside a function")
            return
        if isinstance(st, ast.ImportFrom):
            src_mod = next((m for m, cfg in MODULES.items() if cfg["pymod"] == st.module and st.level == 0), None)
            if src_mod is None or src_mod not in self.mod.cfg["uses"]:
                raise Unsupported(f"from {st.module} import … (not a translated module listed in `uses`)")
            sigs = translate_module(src_mod)["sigs"]
            for a in st.names:
                if a.name not in sigs:
                    raise Unsupported(f"{st.module}.{a.name} is not a translated function")
                self.localfns[a.asname or a.name] = sigs[a.name]
            return
        if isinstance(st, (ast.Assign, ast.AnnAssign)):
            if st.value is None:
                return
            targets = st.targets if isinstance(st, ast.Assign) else [st.target]
            if len(targets) != 1:
                raise Unsupported("chained assignment")
            c, t, eff = self.expr(st.value)
            if t == UNK:
                # keep going with a placeholder (a note has been recorded)
                pass
            self.assign_to(targets[0], c, t, st, out, ind)
            return
        if isinstance(st, ast.AugAssign):
            if not isinstance(st.target, ast.Name) or st.target.id not in self.declared:
                raise Unsupported("augmented assignment to something that is not an assigned local")
            e = ast.copy_location(ast.BinOp(left=ast.Name(id=st.target.id, ctx=ast.Load()), op=st.op, right=st.value), st)
            ast.fix_missing_locations(e)
            c, t, eff = self.expr(e)
            self.assign_to(st.target, c, t, st, out, ind)
            return
        if isinstance(st, ast.Return):
            if in_try:
                raise Unsupported("return inside try/except")
            if st.value is None:
                c, t = "()", NONE
            else:
                c, t, _ = self.expr(st.value)
            if self.ret is None:
                self.ret = t
            c = self.coerce(c, t, self.ret, st)
            out.append(f"{ind}return {c}")
            return
        if isinstance(st, ast.Raise):
            out.append(f"{ind}{self.raise_code(st)}")
            return
        if isinstance(st, (ast.Continue, ast.Break)):
            if not in_loop or in_try:
                raise Unsupported("continue/break outside a loop or inside try/except")
            out.append(f"{ind}{'continue' if isinstance(st, ast.Continue) else 'break'}")
            return
        if isinstance(st, ast.If):
            c, _ = self.cond(st.test)
            out.append(f"{ind}if {c} then")
            self.narrow.append(self.facts(st.test, True))
            out += self.block(st.body, ind + "  ", in_loop, in_try)
            self.narrow.pop()
            if st.orelse:
                self.narrow.append(self.facts(st.test, False))
                if len(st.orelse) == 1 and isinstance(st.orelse[0], ast.If):
                    sub = self.block(st.orelse, ind, in_loop, in_try)
                    sub[0] = f"{ind}else " + sub[0].lstrip()
                    out += sub
                else:
                    out.append(f"{ind}else")
                    out += self.block(st.orelse, ind + "  ", in_loop, in_try)
                self.narrow.pop()
            return
        if isinstance(st, ast.For):
            if st.orelse:
                raise Unsupported("for … else")
            it, tel, _ = self.iterable(st.iter)
            names = self._targets(st.target)
            if any(n in self.declared for n in names if n != "_"):
                raise Unsupported("loop variable re-uses an assigned local")
            if isinstance(st.target, ast.Name):
                pat = ident(st.target.id)
                self.vars[st.target.id] = tel
            elif isinstance(st.target, ast.Tuple) and tel[0] == "tuple" and len(tel[1]) == len(st.target.elts) \
                    and all(isinstance(x, ast.Name) for x in st.target.elts):
                for x, tt in zip(st.target.elts, tel[1]):
                    self.vars[x.id] = tt
                pat = "(" + ", ".join("_" if x.id == "_" else ident(x.id) for x in st.target.elts) + ")"
            else:
                raise Unsupported("loop target shape")
            # a loop variable read after the loop would need Python's leak semantics
            after = False
            for other in ast.walk(self.node):
                if isinstance(other, ast.Name) and other.id in names and isinstance(other.ctx, ast.Load) \
                        and other.lineno > st.end_lineno:
                    after = True
            if after:
                raise Unsupported("loop variable is read after the loop")
            out.append(f"{ind}for {pat} in {it} do")
            out += self.block(st.body, ind + "  ", True, in_try)
            return
        if isinstance(st, ast.Try):
            return self.try_stmt(st, out, ind, in_loop)
        if isinstance(st, ast.While):
            raise Unsupported("while loop (no fuel-free translation implemented)")
        raise Unsupported(f"statement {type(st).__name__}")

    def try_stmt(self, st: ast.Try, out, ind, in_loop):
        if st.finalbody or st.orelse:
            raise Unsupported("try … finally / else")
        # names assigned in the body that are read after the try statement
        assigned = []
        for s in st.body:
            for n in ast.walk(s):
                if isinstance(n, ast.Name) and isinstance(n.ctx, ast.Store) and n.id != "_" and n.id not in assigned:
                    assigned.append(n.id)
        later = {n.id for n in ast.walk(self.node) if isinstance(n, ast.Name) and isinstance(n.ctx, ast.Load)
                 and n.lineno > st.end_lineno}
        export = [n for n in assigned if n in later]
        if any(n in self.declared for n in assigned):
            raise Unsupported("try body re-assigns a local declared before it")
        eff0 = self.eff
        self.eff = False
        saved = (dict(self.vars), set(self.declared))
        body = self.block(st.body, ind + "    ", in_loop, in_try=True, keep=True)
        body_eff = self.eff
        self.eff = eff0 or body_eff
        if not body_eff:
            # nothing in the body can raise in the model: handlers are unreachable, body inlined
            self.vars, self.declared = saved
            self.remarks.append(f"try at line {st.lineno - self.node.lineno + 1} of the function: no operation of its "
                                "body can raise in the model (prelude semantics); the except handlers are unreachable "
                                "and were not translated")
            out += self.block(st.body, ind, in_loop, in_try=False, keep=True)
            return
        types = [self.vars[n] for n in export]
        tup = "(" + ", ".join(ident(n) for n in export) + ")" if export else "()"
        tty = Tup(*types) if len(types) != 1 else types[0]
        tup = tup if len(export) != 1 else ident(export[0])
        inner_decl = set(self.declared)
        self.vars, self.declared = saved
        # handlers
        hl = []
        evar = None
        for h in st.handlers:
            if h.name:
                evar = evar or h.name
        evar = evar or "py_exc"
        first = True
        for h in st.handlers:
            if h.type is None:
                test = "true"
            else:
                tys = h.type.elts if isinstance(h.type, ast.Tuple) else [h.type]
                names = []
                for ty in tys:
                    if not isinstance(ty, ast.Name):
                        raise Unsupported("except clause with a non-name class")
                    names.append(self.mod.exc_name(ty.id))
                test = "(" + " || ".join(f"{ident(evar)}.isa {lean_str(n)}" for n in names) + ")"
            if h.name and h.name != evar:
                raise Unsupported("handlers binding different names")
            hv = dict(self.vars), set(self.declared)
            self.vars[evar] = ("exc",)
            hb = self.block(h.body, ind + "      ", in_loop, in_try=True)
            if not self.terminal(h.body):
                if export:
                    raise Unsupported("except handler falls through but the try body defines names used later")
                hb.append(f"{ind}      pure ()")
            self.vars, self.declared = hv
            hl.append(f"{ind}    {'if' if first else 'else if'} {test} then")
            hl += hb
            first = False
        hl.append(f"{ind}    else throw {ident(evar)}")
        # export the names
        for n, t in zip(export, types):
            self.vars[n] = t
            self.declared.add(n)
        pat = ("let " + (tup if len(export) != 1 else f"{tup} : {lt(tty)}") + " ←") if export else "let _ ←"
        if len(export) > 1:
            pat = f"let {tup} : {lt(tty)} ←"
        out.append(f"{ind}{pat} (do")
        out.append(f"{ind}  try")
        out += body
        out.append(f"{ind}    pure {tup}")
        out.append(f"{ind}  catch {ident(evar)} =>")
        out += hl
        out.append(f"{ind}  : S2T.Py.M {lt(tty) if export else 'Unit'})")

    # ---- the function
    def translate(self):
        node = self.node
        for d in node.decorator_list:
            dn = d.func if isinstance(d, ast.Call) else d
            if not (isinstance(dn, ast.Name) and dn.id in IGNORED_DECORATORS):
                self.note(node, f"decorator {ast.unparse(d)}")
        a = node.args
        if a.vararg or a.kwarg or a.posonlyargs:
            self.note(node, "*args / **kwargs / positional-only parameters")
        params, defaults = [], {}
        allargs = list(a.args) + list(a.kwonlyargs)
        dvals = [None] * (len(a.args) - len(a.defaults)) + list(a.defaults) + list(a.kw_defaults)
        for arg, dv in zip(allargs, dvals):
            t = self.opts.get("types", {}).get(arg.arg) or self.annot(arg.annotation)
            if t is None:
                self.note(arg, f"parameter `{arg.arg}` has no mapped annotation ({ast.unparse(arg.annotation) if arg.annotation else 'none'})")
                t = UNK
            params.append((arg.arg, t))
            self.vars[arg.arg] = t
            self.declared.add(arg.arg)
        self.analyse()
        for arg, dv in zip(allargs, dvals):
            if dv is not None:
                c, t, eff = self.expr(dv)
                if eff:
                    self.note(dv, "default value that may raise")
                defaults[arg.arg] = self.coerce(c, t, self.vars[arg.arg], dv)
        if any(p in self.mut for p, _ in params):
            self.note(node, "assignment to a parameter")
        if "ret" in self.opts:
            self.ret = self.opts["ret"]
        else:
            self.ret = self.annot(node.returns)
            if self.ret is None and node.returns is not None:
                self.note(node, f"return annotation {ast.unparse(node.returns)} is not mapped")
        body = self.block(node.body, "  ", False, keep=True)
        if self.ret is None:
            self.ret = NONE
        if not self.terminal(node.body):
            if self.ret == NONE:
                pass
            elif self.ret[0] == "opt":
                body.append("  return none")
            else:
                self.note(node, "control can reach the end of a function whose result type is not None-able")
        sig = Sig(f"S2T.Gen.{self.mod.name}.{ident(self.name)}", params, self.ret, self.eff, self.env, defaults)
        ps = "".join(f" ({ident(p)} : {lt(t)})" for p, t in params)
        envp = " (env : S2T.Py.Env)" if self.env else ""
        rt = lt(self.ret)
        L = [f"/-- `{self.name}` of {self.mod.cfg['src']}" + "".join("\n    " + r for r in self.remarks) + " -/"]
        if self.eff:
            L.append(f"def {ident(self.name)}{envp}{ps} : S2T.Py.M {rt} := do")
        else:
            L.append(f"def {ident(self.name)}{envp}{ps} : {rt} := Id.run do")
        L += body
        return "\n".join(L) + "\n", sig


# ----------------------------------------------------------------------------- one module
class ModTr:
    def __init__(self, name):
        self.name = name
        self.cfg = MODULES[name]
        self.notes: list = []
        self.sigs: dict = {}
        self.excs: dict = {}     # class name -> mro names
        self.funcrefs: dict = {}
        self.pymod = fresh_import(self.cfg["pymod"])

    def exc_name(self, n):
        cls = getattr(self.pymod, n, None) or getattr(builtins, n, None)
        if not (isinstance(cls, type) and issubclass(cls, BaseException)):
            raise Unsupported(f"`{n}` is not an exception class of the module / builtins")
        return cls.__name__

    def exc_class(self, n):
        cls = getattr(self.pymod, n, None) or getattr(builtins, n, None)
        if not (isinstance(cls, type) and issubclass(cls, BaseException)):
            raise Unsupported(f"`{n}` is not an exception class of the module / builtins")
        self.excs[cls.__name__] = [c.__name__ for c in cls.__mro__ if c is not object]
        return f"exc_{cls.__name__}"

    def run(self):
        tree = parse(self.cfg["src"])
        fdefs = {n.name: n for n in tree.body if isinstance(n, ast.FunctionDef)}
        for u in self.cfg["uses"]:
            translate_module(u)
        for fr in self.cfg.get("funcrefs", []):
            obj = getattr(self.pymod, fr, None)
            if obj is None or not callable(obj) or fr not in fdefs:
                self.notes.append(f"{self.cfg['src']}: `{fr}` is not a module-level function")
                continue
            self.funcrefs[fr] = f"ref_{fr}"
        defs = []
        for fname, opts in self.cfg["funcs"]:
            if fname not in fdefs:
                self.notes.append(f"{self.cfg['src']}: function `{fname}` not found at module level")
                continue
            # the runtime object must be the function of this source text (not re-bound elsewhere)
            obj = getattr(self.pymod, fname, None)
            obj = getattr(obj, "__wrapped__", obj)
            if getattr(getattr(obj, "__code__", None), "co_firstlineno", None) not in (
                    fdefs[fname].lineno, *(d.lineno for d in fdefs[fname].decorator_list)):
                self.notes.append(f"{self.cfg['src']}: runtime `{fname}` is not the function defined in the source text")
            ft = self.cfg.get("functr", FuncTr)(self, fdefs[fname], opts)   # "functr": a subclass (pyfun_aes.py)
            text, sig = ft.translate()
            self.sigs[fname] = sig
            defs.append(text)
        L = [HEADER.format(src=self.cfg["src"])]
        L.append("import S2T.Py.Prelude")
        for i in self.cfg["imports"]:
            L.append(f"import {i}")
        for u in self.cfg["uses"]:
            L.append(f"import S2T.Gen.{u}")
        L.append("set_option linter.unusedVariables false")
        L.append(f"namespace S2T.Gen.{self.name}\n")
        for cn, mro in sorted(self.excs.items()):
            L.append(f"/-- `raise {cn}(…)` at the `site`-th raise statement of `func` (message dropped) -/")
            L.append(f"def exc_{cn} (func : String) (site : Nat) : S2T.Py.Exc :=\n  ⟨{lean_str(cn)}, ["
                     + ", ".join(lean_str(m) for m in mro) + "], func, site⟩\n")
        for fr, ln in sorted(self.funcrefs.items()):
            obj = getattr(self.pymod, fr)
            L.append(f"/-- the module-level function `{fr}` as a value -/")
            L.append(f"def {ln} : S2T.Py.Extractor := ({chars(obj.__module__)}, {chars(obj.__name__)})\n")
        L += defs
        L.append("/-- names of the translated functions, source order of the whitelist -/")
        L.append("def translated : List String := " + lean_list((lean_str(f) for f, _ in self.cfg["funcs"]), per_line=4) + "\n")
        L.append("/-- constructs the translator did not understand (must be empty) -/")
        L.append("def notes : List String := " + lean_list(lean_str(n) for n in self.notes) + "\n")
        L.append(f"end S2T.Gen.{self.name}\n")
        return "\n".join(L)


def translate_module(name):
    if name not in _DONE:
        m = ModTr(name)
        text = m.run()
        _DONE[name] = {"text": text, "sigs": m.sigs, "notes": m.notes}
    return _DONE[name]


def _mk(name):
    def gen():
        return translate_module(name)["text"]
    gen.__name__ = "gen_" + name
    return gen


for _name in MODULES:
    generator(_name)(_mk(_name))
