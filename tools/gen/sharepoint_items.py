"""C18: what the listing code READS from Graph answers and what it does with escape look-alikes in start folders
-> S2T/Gen/SharePointItems.lean

* `itemReads`: inventory (function, key) of every string key with which a function reachable from the listing entry
  points reads a dict (`x.get("k")`, `x["k"]`, `"k" in x`) — AST, cross-checked with a RUNTIME recording of the keys
  really looked up while a small library is walked (runtime keys must show in the AST inventory).
* `classifyProbes`: the real `_walk_drive_items` run over a one-item page for EVERY shape of the lattice
  {folder facet absent / {} / childCount / other members} x {file facet absent / {} / members} x {name missing / present}
  x {id missing / "" / string} x {optional members: none / all / size 0 / parentReference + fileSystemInfo} (+ non-dict
  entries): what it did with the item (descended into it under which name and id / handed it out as a file / nothing).
  `Props/C18_Items.lean` re-decides on every run that this is what `classify` says.
* `pctProbes`: the request path of the real `_get_folder_by_path` for start folders whose NAME contains `%` followed by
  two hex digits (all 22 x 22 digit pairs) and for the other look-alike families (double escapes, `+`, NFC / NFD, …).
"""
import ast
import io
import json
import unicodedata
from urllib.error import HTTPError

from translate import HEADER, fresh_import, generator, lean_list, lean_str, parse

REL = "sharepoint2text/sharepoint_io/client.py"
SITE_URL = "https://contoso.sharepoint.com/sites/Verif"
TENANT = "tenant-0001"
ROOTS = ["list_all_files", "list_files_filtered", "list_files_modified_since", "list_files_created_since"]


def chars(s: str) -> str:
    """Lean term of type List Char, spelled as a list of code points: `"…".toList` makes the kernel decode the
    string's UTF-8 bytes when the probes are re-decided (`decide +kernel`), which is ~100x slower"""
    return "[" + ", ".join(f"Char.ofNat {ord(c)}" for c in s) + "]"


class _Resp:
    def __init__(self, status, body):
        self.status, self._b = status, body

    def read(self):
        return self._b

    def close(self):
        pass


def _client(mod, func):
    cl = mod.SharePointRestClient(SITE_URL, mod.EntraIDAppCredentials(TENANT, "cid", "secret"), request_func=func)
    cl._access_token = "t"
    return cl


# ----------------------------------------------------------------------------- AST inventory of key reads
def _functions(tree):
    """name -> FunctionDef for the methods of SharePointRestClient and the module-level functions"""
    fns = {}
    for node in tree.body:
        if isinstance(node, ast.FunctionDef):
            fns[node.name] = node
        elif isinstance(node, ast.ClassDef) and node.name == "SharePointRestClient":
            for f in node.body:
                if isinstance(f, ast.FunctionDef):
                    fns[f.name] = f
    return fns


def _reachable(fns):
    seen, todo = [], list(ROOTS)
    while todo:
        nm = todo.pop(0)
        if nm in seen or nm not in fns:
            continue
        seen.append(nm)
        for sub in ast.walk(fns[nm]):
            if isinstance(sub, ast.Call):
                f = sub.func
                callee = f.attr if isinstance(f, ast.Attribute) else f.id if isinstance(f, ast.Name) else None
                if callee in fns and callee not in seen:
                    todo.append(callee)
    return seen


def _key_reads(fn, notes):
    reads = []
    for sub in ast.walk(fn):
        if isinstance(sub, ast.Call) and isinstance(sub.func, ast.Attribute) and sub.func.attr in ("get", "pop", "setdefault") and sub.args:
            a = sub.args[0]
            if isinstance(a, ast.Constant) and isinstance(a.value, str):
                reads.append(a.value)
            else:
                notes.append(f"{fn.name}:{sub.lineno}: .{sub.func.attr}() with a computed key")
        elif isinstance(sub, ast.Subscript) and isinstance(sub.ctx, ast.Load):
            a = sub.slice
            if isinstance(a, ast.Constant) and isinstance(a.value, str):
                reads.append(a.value)
        elif isinstance(sub, ast.Compare) and any(isinstance(op, (ast.In, ast.NotIn)) for op in sub.ops):
            if isinstance(sub.left, ast.Constant) and isinstance(sub.left.value, str):
                reads.append(sub.left.value)
    out = []
    for k in reads:
        if k not in out:
            out.append(k)
    return out


# ----------------------------------------------------------------------------- runtime recording of key reads
class _Rec(dict):
    log = set()

    def get(self, k, d=None):
        _Rec.log.add(k)
        return super().get(k, d)

    def __getitem__(self, k):
        _Rec.log.add(k)
        return super().__getitem__(k)

    def __contains__(self, k):
        _Rec.log.add(k)
        return super().__contains__(k)


def _wrap(x):
    if isinstance(x, dict):
        return _Rec({k: _wrap(v) for k, v in x.items()})
    if isinstance(x, list):
        return [_wrap(v) for v in x]
    return x


_ALL_OPT = {"size": 5, "webUrl": "https://contoso.sharepoint.com/x", "@microsoft.graph.downloadUrl": "https://dl/x",
            "parentReference": {"driveId": "b!d", "id": "PARENT", "path": "/drive/root:"},
            "fileSystemInfo": {"createdDateTime": "2001-01-01T00:00:00Z", "lastModifiedDateTime": "2001-01-01T00:00:00Z"},
            "listItem": {"fields": {"Title": "t", "Custom": 1}}, "shared": {"scope": "users"}}


def _runtime_reads(mod):
    file_it = dict({"id": "F1", "name": "f.txt", "file": {"mimeType": "text/plain"}, "createdDateTime": "2024-01-15T10:00:00Z",
                    "lastModifiedDateTime": "2024-01-15T10:00:00Z"}, **_ALL_OPT)
    fold_it = dict({"id": "D1", "name": "d", "folder": {"childCount": 1}}, **_ALL_OPT)
    cl = _client(mod, lambda req, timeout=None: _Resp(200, b"{}"))
    root_url, sub_url = cl._build_children_url("S", None), cl._build_children_url("S", "D1")
    answers = {root_url: {"value": [file_it, fold_it, 5], "@odata.nextLink": None}, sub_url: {"value": [dict(file_it, id="F2")]}}
    _Rec.log = set()
    cl._get_json = lambda url: _wrap(answers.get(url, dict(fold_it)))
    n = len(list(cl._walk_drive_items("S", None)))
    cl._get_folder_by_path("S", "d")
    return set(_Rec.log), n


# ----------------------------------------------------------------------------- classify probes
def _facet_term(v):
    if v is None:
        return ".absent"
    cc = v.get("childCount")
    extra = bool(set(v) - {"childCount"})
    return f".obj {'none' if cc is None else '(some %d)' % cc} {'true' if extra else 'false'}"


def _opt_str(s):
    return "none" if s is None else f"(some {chars(s)})"


BUNDLES = [
    ("none", {}, False),
    ("all", dict(_ALL_OPT), True),
    ("size0", {"size": 0}, True),
    ("parent+fsi", {"parentReference": _ALL_OPT["parentReference"], "fileSystemInfo": _ALL_OPT["fileSystemInfo"]}, False),
]


def _optional_term(b):
    f = lambda k: "true" if k in b else "false"  # noqa: E731
    size = "none" if "size" not in b else f"(some {b['size']})"
    return ("{ size := %s, webUrl := %s, downloadUrl := %s, parentRef := %s, fileSystemInfo := %s, listItem := %s, extraFacet := %s }"
            % (size, f("webUrl"), f("@microsoft.graph.downloadUrl"), f("parentReference"), f("fileSystemInfo"), f("listItem"), f("shared")))


def _probe_walk(mod, item):
    """what the real `_walk_drive_items` does with a root page that holds `item` only"""
    inner = {"id": "IN", "name": "in.txt", "file": {}}
    asked = []

    def transport(req, timeout=None):
        asked.append(req.full_url)
        if req.full_url == root_url:
            return _Resp(200, json.dumps({"value": [item]}).encode())
        for fid, url in sub_urls.items():
            if req.full_url == url:
                return _Resp(200, json.dumps({"value": [inner]}).encode())
        raise HTTPError(req.full_url, 404, "nf", {}, io.BytesIO(b"{}"))

    cl = _client(mod, transport)
    root_url = cl._build_children_url("S", None)
    sub_urls = {fid: cl._build_children_url("S", fid) for fid in ("ID",)}
    got = [(m.name, m.id, m.created, m.last_modified, m.parent_path) for m in cl._walk_drive_items("S", None)]
    below = [g for g in got if g[1] == "IN"]
    here = [g for g in got if g[1] != "IN"]
    if below and not here and len(below) == 1 and sub_urls["ID"] in asked:
        return ("folder", below[0][4] or "", "ID")
    if here and not below and len(here) == 1:
        return ("file",) + here[0][:4]
    if not got and all(u == root_url for u in asked):
        return ("nothing",)
    return ("unexpected", repr(got), repr(asked))


def _view_term(v):
    if v[0] == "folder":
        return f".descends {chars(v[1])} {chars(v[2])}"
    if v[0] == "file":
        return f".file ⟨{chars(v[1])}, {chars(v[2])}, {_opt_str(v[3])}, {_opt_str(v[4])}⟩"
    return ".nothing"


@generator("SharePointItems")
def gen_sharepoint_items() -> str:
    mod = fresh_import("sharepoint2text.sharepoint_io.client")
    tree = parse(REL)
    notes = []

    # ---- (1) key reads
    fns = _functions(tree)
    reach = _reachable(fns)
    for r in ROOTS:
        if r not in fns:
            notes.append(f"listing entry point {r} not found")
    reads = [(nm, k) for nm in reach for k in _key_reads(fns[nm], notes)]
    try:
        runtime, n = _runtime_reads(mod)
        if n != 2:
            notes.append(f"runtime read probe: the walk over the probe library returned {n} files instead of 2")
        missing = sorted(k for k in runtime if k not in {k2 for _, k2 in reads})
        if missing:
            notes.append(f"keys looked up at run time that the AST inventory does not show: {missing}")
    except Exception as e:  # noqa: BLE001
        notes.append(f"runtime read probe raised {type(e).__name__}: {e}")

    # ---- (2) classify probes
    probes = []
    for folder in (None, {}, {"childCount": 1}, {"view": {"sortBy": "name"}}, {"childCount": 1, "view": {}}):
        for file in (None, {}, {"mimeType": "application/pdf", "hashes": {"quickXorHash": "x"}}):
            for name in (None, "n 1%"):
                for iid in (None, "", "ID"):
                    for bname, bundle, dates in BUNDLES:
                        item = dict(bundle)
                        if folder is not None:
                            item["folder"] = folder
                        if file is not None:
                            item["file"] = file
                        if name is not None:
                            item["name"] = name
                        if iid is not None:
                            item["id"] = iid
                        cr = mo = None
                        if dates:
                            cr, mo = "2024-01-15T10:00:00Z", "2024-02-15T10:00:00.5Z"
                            item["createdDateTime"], item["lastModifiedDateTime"] = cr, mo
                        try:
                            view = _probe_walk(mod, item)
                        except Exception as e:  # noqa: BLE001
                            view = ("unexpected", type(e).__name__, str(e))
                        if view[0] == "unexpected":
                            notes.append(f"classify probe {item!r}: {view[1:]}")
                            continue
                        idt = ".absent" if iid is None else ".falsy" if iid == "" else f".str {chars(iid)}"
                        raw = ("{ isDict := true, name := %s, id := %s, folder := %s, file := %s, created := %s, modified := %s, opt := %s }"
                               % (_opt_str(name), idt, _facet_term(folder), _facet_term(file), _opt_str(cr), _opt_str(mo), _optional_term(bundle)))
                        probes.append(f"({raw},\n     {_view_term(view)})")
    for junk in (None, 5, "str", [1]):
        try:
            view = _probe_walk(mod, junk)
        except Exception as e:  # noqa: BLE001
            view = ("unexpected", type(e).__name__, str(e))
        if view[0] != "nothing":
            notes.append(f"classify probe: non-dict entry {junk!r}: {view}")
    probes.append("({ isDict := false }, .nothing)")

    # ---- (2b) the by-path answer: which shapes of the `folder` member make `_get_folder_by_path` accept the item
    by_path = []
    for facet in (None, {}, {"childCount": 0}, {"childCount": 3}, {"view": {}}, {"childCount": 2, "view": {}}):
        for bname, bundle, _ in BUNDLES:
            ans = dict({"id": "X", "name": "d"}, **bundle)
            if facet is not None:
                ans["folder"] = facet
            c8 = _client(mod, lambda req, timeout=None, _a=ans: _Resp(200, json.dumps(_a).encode()))
            try:
                r = c8._get_folder_by_path("S", "d")
                ok = r is not None and r.get("id") == "X"
                if r is not None and not ok:
                    notes.append(f"_get_folder_by_path: answer {ans!r} came back altered")
            except Exception as e:  # noqa: BLE001
                notes.append(f"_get_folder_by_path: answer {ans!r} raised {type(e).__name__}")
                continue
            by_path.append(f"({_facet_term(facet)}, {'true' if ok else 'false'})")

    # ---- (3) escape look-alikes through the real _get_folder_by_path
    seen = []

    def cap(req, timeout=None):
        seen.append(req.full_url)
        return _Resp(200, b'{"id": "X", "folder": {}}')

    cl = _client(mod, cap)
    cl._get_folder_by_path("S", "MARK")
    pre = seen[-1][: -len("MARK")] if seen and seen[-1].endswith("MARK") else None
    if pre is None:
        notes.append("_get_folder_by_path: request URL does not end with the path")
        pre = ""
    hexd = "0123456789ABCDEFabcdef"
    names = ["a%" + x + y + "b" for x in hexd for y in hexd]
    names += ["Rates %2B fees", "Rates + fees", "Growth 100%25", "Growth 100%", "Q%31", "Q1", "%2F", "a%2Fb/c", "a/b/c", "%252B", "%2B", "+",
              "%", "%%", "%4", "%zz", "%25", "%2525", "x%C3%A9", "xé", "xé", "%E6%97%A5", "日", "/%2F/", "%2f%2F", "a b", "a%20b", "a+b",
              "%u00e9", "%c3%a9", "Docs/%41rchive", "Docs/Archive", "100%/50%25/%"]
    for st in ["xé", "日", "Å"]:
        names.append(unicodedata.normalize("NFD", st))
    pct = []
    for nm in names:
        del seen[:]
        try:
            cl._get_folder_by_path("S", nm)
            tail = seen[-1][len(pre):] if seen and seen[-1].startswith(pre) else None
        except Exception as e:  # noqa: BLE001
            tail = None
            notes.append(f"_get_folder_by_path({nm!r}) raised {type(e).__name__}")
        if tail is None:
            notes.append(f"_get_folder_by_path({nm!r}): no request with the expected prefix")
            continue
        pct.append(f"({chars(nm)}, {chars(tail)})")

    L = [HEADER.format(src=REL)]
    L.append("import S2T.Model.SharePointRaw\nnamespace S2T.Gen.SharePointItems\nopen S2T.SP\n")
    L.append("/-- functions reachable from the listing entry points (call graph over `self.f(...)` / `f(...)`) -/")
    L.append("def reachable : List String := " + lean_list((lean_str(x) for x in reach), per_line=6))
    L.append("/-- (function, key): every string key with which a reachable function reads a dict -/")
    L.append("def itemReads : List (String × String) := " + lean_list((f"({lean_str(a)}, {lean_str(b)})" for a, b in reads), per_line=4) + "\n")
    L.append("/-- what the real walk did with a root page holding this one item -/")
    L.append("inductive View\n  | descends (name id : Str)\n  | file (f : FileItem)\n  | nothing\n  deriving DecidableEq, Repr\n")
    L.append("def classifyProbes : List (RawItem × View) := " + lean_list(probes) + "\n")
    L.append("/-- (shape of the `folder` member of a by-path answer, accepted as a folder by the real `_get_folder_by_path`) -/")
    L.append("def byPathProbes : List (Facet × Bool) := " + lean_list(by_path, per_line=4) + "\n")
    L.append("/-- (start folder, request path of the real `_get_folder_by_path`) -/")
    L.append("def pctProbes : List (Str × Str) := " + lean_list(pct, per_line=4) + "\n")
    L.append("/-- translator cross-check notes; must be empty -/")
    L.append("def notes : List String := " + lean_list(lean_str(n) for n in notes) + "\n")
    L.append("end S2T.Gen.SharePointItems\n")
    return "\n".join(L)
