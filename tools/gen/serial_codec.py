"""C05: the binary codec of the serialiser (bytes <-> base64 text) -> S2T/Gen/SerialCodec.lean

The model encodes / decodes a payload with ONE function of the whole payload (`b64enc` / `b64dec`), and the theorems
(`b64enc_length`, `b64enc_append`, `b64dec_enc`) say that no payload size and no position inside a payload is special.
That is a statement about the source only if the source hands the WHOLE payload to `base64.b64encode` / `b64decode`
exactly once, unconditionally.  This closed-world inventory, read from the *current* tree, is what the kernel re-decides:

* `imports`        the modules serialization.py imports (a new codec - zlib, binascii, codecs, struct - shows up here)
* `codecFns`       for every function of serialization.py (nested ones included) that mentions a codec module
                   (base64 / binascii / codecs / zlib / ... or a name imported from one):
                     name, control = number of control-flow constructs in it (if / conditional expression / loops /
                     comprehensions / try / match / boolean operators / lambda / yield), slices = number of subscripts
                     and slices, ints = the integer constants in it, calls = the other serialization.py functions it calls,
                     sites = (callee, argument shape, in a loop?) for every call into a codec module, where the shape is
                       `whole`       the function's parameter, or `bytes(p)`, `p.encode(<const>)`, `p.read()`, `p.getvalue()`,
                                     `bytes(p.getbuffer())`, or a local name bound (once) to one of these
                       `other:<src>` anything else (a slice, a partial read, an expression of several things)
* `codecCallers`   (enclosing function, codec function, argument shape) for every other mention of a codec function inside
                   serialization.py: `whole` = called with the value itself (a parameter) or with the marker's item
                   (`p["<const>"]`), `ref` = not called, `other:<src>`
* `foreignMentions` (file, function) for every mention of a codec module in cli.py / data_types.py (the serialiser's
                   callers must not encode on their own)
* `lenSites`       (function, argument) of every `len(..)` in serialization.py (a size guard on the path shows up here)
"""
import ast
import os

from translate import HEADER, REPO, generator, lean_list, lean_str

SER = "sharepoint2text/parsing/extractors/serialization.py"
OTHERS = ["sharepoint2text/cli.py", "sharepoint2text/parsing/extractors/data_types.py"]
CODEC_MODULES = {"base64", "binascii", "codecs", "zlib", "gzip", "bz2", "lzma", "struct", "quopri", "uu", "pickle", "marshal",
                 "hashlib", "array", "mmap", "encodings"}
CONTROL = (ast.If, ast.IfExp, ast.For, ast.AsyncFor, ast.While, ast.ListComp, ast.SetComp, ast.DictComp, ast.GeneratorExp,
           ast.Try, ast.BoolOp, ast.Lambda, ast.Yield, ast.YieldFrom, ast.With, ast.Assert, ast.Raise) + \
    ((ast.Match,) if hasattr(ast, "Match") else ()) + ((ast.TryStar,) if hasattr(ast, "TryStar") else ())
LOOPS = (ast.For, ast.AsyncFor, ast.While, ast.ListComp, ast.SetComp, ast.DictComp, ast.GeneratorExp)


def _parse(rel):
    with open(os.path.join(REPO, rel), encoding="utf-8") as fh:
        return ast.parse(fh.read(), filename=rel)


def _parents(tree):
    par = {}
    for n in ast.walk(tree):
        for ch in ast.iter_child_nodes(n):
            par[ch] = n
    return par


def _enclosing(n, par):
    while n in par:
        n = par[n]
        if isinstance(n, (ast.FunctionDef, ast.AsyncFunctionDef)):
            return n
    return None


def _codec_names(tree):
    """local names that stand for a codec module or for something imported from one"""
    mods, names, imports = set(), set(), []
    for n in ast.walk(tree):
        if isinstance(n, ast.Import):
            for a in n.names:
                imports.append(a.name)
                if a.name.split(".")[0] in CODEC_MODULES:
                    mods.add(a.asname or a.name.split(".")[0])
        elif isinstance(n, ast.ImportFrom):
            imports.append(("." * n.level) + (n.module or ""))
            if (n.module or "").split(".")[0] in CODEC_MODULES:
                for a in n.names:
                    names.add(a.asname or a.name)
    return mods, names, sorted(set(imports))


def _mentions(node, mods, names):
    """nodes inside `node` that refer to a codec module / an imported codec name"""
    out = []
    for n in ast.walk(node):
        if isinstance(n, ast.Name) and (n.id in mods or n.id in names):
            out.append(n)
    return out


def _params(f):
    a = f.args
    out = [x.arg for x in a.posonlyargs + a.args + a.kwonlyargs]
    if a.vararg:
        out.append(a.vararg.arg)
    if a.kwarg:
        out.append(a.kwarg.arg)
    return out


def _single_bindings(f):
    out = {}
    for n in ast.walk(f):
        tgts = []
        if isinstance(n, ast.Assign):
            tgts = [(t, n.value) for t in n.targets]
        elif isinstance(n, (ast.AnnAssign, ast.NamedExpr)) and n.value is not None:
            tgts = [(n.target, n.value)]
        elif isinstance(n, ast.AugAssign):
            tgts = [(n.target, None)]
        elif isinstance(n, (ast.For, ast.AsyncFor, ast.comprehension)):
            tgts = [(n.target, None)]
        for t, v in tgts:
            for x in ast.walk(t):
                if isinstance(x, ast.Name):
                    out.setdefault(x.id, []).append(v if t is x else None)
    return out


def _whole(e, f, depth=0):
    """is expression e of function f the function's whole payload?"""
    params, binds = _params(f), _single_bindings(f)
    if isinstance(e, ast.Name):
        if e.id in params and e.id not in binds:
            return True
        vs = binds.get(e.id, [])
        return len(vs) == 1 and vs[0] is not None and e.id not in params and depth < 4 and _whole(vs[0], f, depth + 1)
    if isinstance(e, ast.Call) and not e.keywords:
        fn = e.func
        if isinstance(fn, ast.Name) and fn.id in ("bytes", "memoryview") and len(e.args) == 1:
            return _whole(e.args[0], f, depth)
        if isinstance(fn, ast.Attribute):
            if fn.attr == "encode" and all(isinstance(a, ast.Constant) for a in e.args):
                return _whole(fn.value, f, depth)
            if fn.attr in ("read", "getvalue", "getbuffer", "tobytes") and not e.args:
                return _whole(fn.value, f, depth)
    return False


def scan():
    tree = _parse(SER)
    par = _parents(tree)
    mods, names, imports = _codec_names(tree)
    allfns = [n for n in ast.walk(tree) if isinstance(n, (ast.FunctionDef, ast.AsyncFunctionDef))]
    top = {n.name for n in tree.body if isinstance(n, (ast.FunctionDef, ast.AsyncFunctionDef))}
    notes = []
    codec_fns = {}
    for m in _mentions(tree, mods, names):
        f = _enclosing(m, par)
        if f is None:
            if not isinstance(par.get(m), (ast.Import, ast.ImportFrom)):
                notes.append("codec module mentioned at module level: " + ast.unparse(par.get(m, m))[:80])
            continue
        codec_fns.setdefault(f.name, f)
    if len({f.name for f in allfns}) != len(allfns):
        notes.append("two functions of serialization.py share a name")
    fns = []
    for name in sorted(codec_fns):
        f = codec_fns[name]
        sites = []
        for n in ast.walk(f):
            if not isinstance(n, ast.Call):
                continue
            head = n.func
            while isinstance(head, ast.Attribute):
                head = head.value
            if not (isinstance(head, ast.Name) and (head.id in mods or head.id in names)):
                continue
            in_loop = False
            p = n
            while p in par and p is not f:
                p = par[p]
                if isinstance(p, LOOPS):
                    in_loop = True
            if len(n.args) >= 1 and _whole(n.args[0], f) and len(n.args) == 1 and not n.keywords:
                shape = "whole"
            else:
                shape = "other:" + ast.unparse(n)[:120]
            sites.append((ast.unparse(n.func), shape, in_loop))
        called = {ast.unparse(c.func) for c in ast.walk(f) if isinstance(c, ast.Call)}
        for m in _mentions(f, mods, names):
            p = par.get(m)
            q = par.get(p)
            is_call_head = isinstance(p, ast.Attribute) and isinstance(q, ast.Call) and q.func is p or \
                (isinstance(p, ast.Call) and p.func is m)
            if not is_call_head:
                sites.append(("ref:" + ast.unparse(p if p is not None else m)[:80], "other:not a direct call", False))
        control = sum(1 for n in ast.walk(f) if isinstance(n, CONTROL))
        slices = sum(1 for n in ast.walk(f) if isinstance(n, (ast.Subscript, ast.Slice)))
        ints = sorted({n.value for n in ast.walk(f) if isinstance(n, ast.Constant) and isinstance(n.value, int)
                       and not isinstance(n.value, bool)})
        calls = sorted(c for c in called if c in top and c != name)
        if f.decorator_list:
            notes.append(f"{name}: decorated codec function")
        fns.append((name, control, slices, ints, calls, sorted(sites)))
    callers = set()
    for n in ast.walk(tree):
        if isinstance(n, ast.Name) and n.id in codec_fns and isinstance(n.ctx, ast.Load):
            f = _enclosing(n, par)
            p = par.get(n)
            where = f.name if f is not None else "<module>"
            if isinstance(p, ast.Call) and p.func is n and f is not None:
                ok = len(p.args) == 1 and not p.keywords and (
                    (isinstance(p.args[0], ast.Name) and p.args[0].id in _params(f) and p.args[0].id not in _single_bindings(f))
                    or (isinstance(p.args[0], ast.Subscript) and isinstance(p.args[0].value, ast.Name) and p.args[0].value.id in _params(f)
                        and isinstance(p.args[0].slice, ast.Constant) and isinstance(p.args[0].slice.value, str)))
                callers.add((where, n.id, "whole" if ok else "other:" + ast.unparse(p)[:120]))
            else:
                callers.add((where, n.id, "ref"))
    foreign = []
    for rel in OTHERS:
        t = _parse(rel)
        pr = _parents(t)
        m2, n2, _ = _codec_names(t)
        for m in _mentions(t, m2, n2):
            f = _enclosing(m, pr)
            foreign.append((os.path.basename(rel), f.name if f is not None else "<module>"))
    lens = set()
    for n in ast.walk(tree):
        if isinstance(n, ast.Call) and isinstance(n.func, ast.Name) and n.func.id == "len":
            f = _enclosing(n, par)
            lens.add((f.name if f is not None else "<module>", ", ".join(ast.unparse(a) for a in n.args)[:80]))
        if isinstance(n, ast.Attribute) and n.attr in ("__len__", "__sizeof__", "nbytes", "getbuffer"):
            f = _enclosing(n, par)
            lens.add((f.name if f is not None else "<module>", ast.unparse(n)[:80]))
    return {"imports": imports, "fns": fns, "callers": sorted(callers), "foreign": sorted(set(foreign)), "lens": sorted(lens),
            "notes": notes}


@generator("SerialCodec")
def gen_serial_codec() -> str:
    r = scan()
    L = [HEADER.format(src=f"{SER}, cli.py, data_types.py (binary codec call sites)")]
    L.append("namespace S2T.Gen.SerialCodec\n")
    L.append("/-- a call into a codec module: callee, shape of its argument (`whole` = the function's whole payload), inside a loop? -/")
    L.append("structure Site where\n  callee : String\n  arg : String\n  inLoop : Bool\n  deriving DecidableEq, Repr\n")
    L.append("/-- a function of serialization.py that mentions a codec module -/")
    L.append("structure CodecFn where\n  name : String\n  control : Nat\n  slices : Nat\n  ints : List Int\n  calls : List String\n"
             "  sites : List Site\n  deriving DecidableEq, Repr\n")
    L.append("def imports : List String := " + lean_list(lean_str(x) for x in r["imports"]) + "\n")
    items = []
    for name, control, slices, ints, calls, sites in r["fns"]:
        ss = "[" + ", ".join(f"⟨{lean_str(a)}, {lean_str(b)}, {'true' if c else 'false'}⟩" for a, b, c in sites) + "]"
        il = "[" + ", ".join(str(i) if i >= 0 else f"({i})" for i in ints) + "]"
        cl = "[" + ", ".join(lean_str(c) for c in calls) + "]"
        items.append(f"⟨{lean_str(name)}, {control}, {slices}, {il}, {cl}, {ss}⟩")
    L.append("def codecFns : List CodecFn := " + lean_list(items) + "\n")
    L.append("/-- (enclosing function, codec function, argument shape) of every other mention of a codec function -/")
    L.append("def codecCallers : List (String × String × String) := "
             + lean_list(f"({lean_str(a)}, {lean_str(b)}, {lean_str(c)})" for a, b, c in r["callers"]) + "\n")
    L.append("/-- (file, function) of every mention of a codec module in cli.py / data_types.py -/")
    L.append("def foreignMentions : List (String × String) := " + lean_list(f"({lean_str(a)}, {lean_str(b)})" for a, b in r["foreign"]) + "\n")
    L.append("/-- (function, argument) of every `len(..)` / size attribute in serialization.py -/")
    L.append("def lenSites : List (String × String) := " + lean_list(f"({lean_str(a)}, {lean_str(b)})" for a, b in r["lens"]) + "\n")
    L.append("/-- translator cross-check notes; must be empty -/")
    L.append("def notes : List String := " + lean_list(lean_str(x) for x in r["notes"]) + "\n")
    L.append("end S2T.Gen.SerialCodec\n")
    return "\n".join(L)
