"""C17: LIFECYCLE of the two HTML event machines (`_HtmlTreeBuilder`, `_XhtmlTextExtractor`) in the whole package
-> S2T/Gen/HtmlLife.lean

The theorems of C17 are about ONE parser object, created by `__init__` and fed ONE document.  Whether the
readers really use the classes that way is a closed-world fact about the source; this generator emits the inventory
of it, `Props/C17_Life.lean` decides on it:

* `sites`     — every mention of one of the two class names anywhere in the package (any file), classified:
                `fresh-local-fed-once` = `v = Cls()` in a function body, `v` bound exactly once there, never
                escaping (only used as `v.<attr>`; not returned, passed, stored, captured by an inner function,
                declared global / nonlocal), exactly one `v.feed(...)` which sits in the same function and the same
                loop nest as the construction, no `v.reset()` / `v.close()`; anything else is named for what it is
                (`module-level`, `stored-in-attribute`, `escapes`, `constructed-outside-the-loop-that-feeds`, …).
* `classAttrs`, `decorators`, `dunders`, `bases` — class-level state / wrapping of the two classes
                (a mutable class attribute is state shared by all parser objects).
* `initResets` — for each class, whether `__init__` reaches `HTMLParser.__init__` (which is what resets the
                tokeniser state) — tied in detail by the translated `__init__` (`C17_Src.*_init_eq`).
"""
import ast
import os

from translate import HEADER, REPO, generator, lean_list, lean_str

CLASSES = {"_HtmlTreeBuilder": "html", "_XhtmlTextExtractor": "epub"}
PKG = "sharepoint2text"
FRESH = "fresh-local-fed-once"


def _files():
    out = []
    for root, dirs, files in os.walk(os.path.join(REPO, PKG)):
        dirs[:] = sorted(d for d in dirs if d != "__pycache__")
        for fn in sorted(files):
            if fn.endswith(".py"):
                out.append(os.path.relpath(os.path.join(root, fn), REPO))
    return out


def _parents(tree):
    par = {}
    for n in ast.walk(tree):
        for c in ast.iter_child_nodes(n):
            par[c] = n
    return par


def _enclosing(node, par, kinds):
    res = []
    n = par.get(node)
    while n is not None:
        if isinstance(n, kinds):
            res.append(n)
        n = par.get(n)
    return res


_FUNCS = (ast.FunctionDef, ast.AsyncFunctionDef, ast.Lambda)
_LOOPS = (ast.For, ast.AsyncFor, ast.While, ast.ListComp, ast.SetComp, ast.DictComp, ast.GeneratorExp)


def _qual(node, par):
    names = [n.name for n in reversed(_enclosing(node, par, (ast.FunctionDef, ast.AsyncFunctionDef, ast.ClassDef)))]
    return ".".join(names) or "<module>"


def _loops_within(node, par, fn):
    """loop nest of `node` inside function `fn` (outermost first)"""
    res = []
    n = par.get(node)
    while n is not None and n is not fn:
        if isinstance(n, _LOOPS):
            res.append(id(n))
        n = par.get(n)
    return list(reversed(res))


def _classify(node, par):
    """shape of one mention `node` (ast.Name / ast.Attribute whose name is one of the classes)"""
    p = par.get(node)
    if isinstance(p, ast.ClassDef) and node in p.bases:
        return "subclassed"
    if not (isinstance(p, ast.Call) and p.func is node):
        return "class-object-used-as-value"
    if p.args or p.keywords:
        return "constructed-with-arguments"
    call = p
    fns = _enclosing(call, par, _FUNCS)
    if not fns:
        return "module-level-instance" if not _enclosing(call, par, (ast.ClassDef,)) else "class-level-instance"
    fn = fns[0]
    if isinstance(fn, ast.Lambda):
        return "constructed-in-lambda"
    for d in fn.args.defaults + [d for d in fn.args.kw_defaults if d is not None]:
        if any(x is call for x in ast.walk(d)):
            return "default-argument-instance"
    if any(any(x is call for x in ast.walk(d)) for d in fn.decorator_list):
        return "constructed-in-decorator"
    a = par.get(call)
    if isinstance(a, ast.AnnAssign) and a.value is call:
        targets = [a.target]
    elif isinstance(a, ast.Assign) and a.value is call:
        targets = a.targets
    else:
        return {"Return": "returned-from-function", "Attribute": "used-without-binding"}.get(type(a).__name__,
                                                                                            "escapes-" + type(a).__name__)
    if len(targets) != 1:
        return "bound-to-several-names"
    if isinstance(targets[0], ast.Attribute):
        return "stored-in-attribute"
    if not isinstance(targets[0], ast.Name):
        return "stored-in-container"
    v = targets[0].id
    if fn.decorator_list:
        decs = {ast.unparse(d) for d in fn.decorator_list}
        if decs - {"staticmethod", "classmethod"}:
            return "constructed-in-decorated-function"
    feeds = 0
    for n in ast.walk(fn):
        if isinstance(n, (ast.Global, ast.Nonlocal)) and v in n.names:
            return "bound-to-global-or-nonlocal"
        if isinstance(n, ast.Name) and n.id == v:
            owner = _enclosing(n, par, _FUNCS)[0]
            if owner is not fn:
                return "captured-by-inner-function"
            if isinstance(n.ctx, (ast.Store, ast.Del)):
                if n is not targets[0]:
                    return "name-bound-more-than-once"
                continue
            q = par.get(n)
            if not (isinstance(q, ast.Attribute) and q.value is n):
                return "escapes"  # returned, passed as an argument, stored, yielded, …
            if isinstance(q.ctx, ast.Store):
                continue  # v.attr = …  (configuration of the fresh object)
            qq = par.get(q)
            if isinstance(qq, ast.Call) and qq.func is q:
                if q.attr == "feed":
                    feeds += 1
                    if _loops_within(qq, par, fn) != _loops_within(call, par, fn):
                        return "constructed-outside-the-loop-that-feeds"
                elif q.attr in ("reset", "close", "goahead", "__init__"):
                    return "calls-" + q.attr
            elif q.attr in ("feed", "reset", "close", "goahead"):
                return "bound-method-escapes"
        elif isinstance(n, ast.arg) and n.arg == v:
            return "name-bound-more-than-once"
    if feeds != 1:
        return f"fed-{feeds}-times"
    return FRESH


def _class_inventory(rel, tree, par):
    out = {}
    for n in ast.walk(tree):
        if isinstance(n, ast.ClassDef) and n.name in CLASSES:
            attrs, decs, dunders, inits = [], [ast.unparse(d) for d in n.decorator_list], [], []
            for kw in n.keywords:
                decs.append("keyword:" + (kw.arg or "**"))
            for st in n.body:
                if isinstance(st, (ast.FunctionDef, ast.AsyncFunctionDef)):
                    if st.name.startswith("__") and st.name.endswith("__"):
                        dunders.append(st.name)
                    for d in st.decorator_list:
                        if ast.unparse(d) != "staticmethod":
                            decs.append(f"{st.name}:{ast.unparse(d)}")
                    if st.name == "__init__":
                        src = [ast.unparse(x) for x in ast.walk(st) if isinstance(x, ast.Call)]
                        inits = [s for s in src if s.startswith(("super().__init__(", "HTMLParser.__init__("))]
                elif isinstance(st, ast.Expr) and isinstance(st.value, ast.Constant) and isinstance(st.value.value, str):
                    continue  # docstring
                elif isinstance(st, ast.Pass):
                    continue
                else:
                    names = [t.id for t in ast.walk(st) if isinstance(t, ast.Name) and isinstance(t.ctx, ast.Store)]
                    attrs.append(",".join(names) or type(st).__name__)
            out[n.name] = {"attrs": attrs, "decs": decs, "dunders": sorted(dunders), "inits": inits,
                           "bases": [ast.unparse(b) for b in n.bases], "where": rel}
    return out


HANDLERS = ("handle_starttag", "handle_endtag", "handle_startendtag", "handle_data", "handle_comment", "handle_decl",
            "handle_pi", "unknown_decl", "handle_entityref", "handle_charref")
_MUTATORS = ("append", "extend", "insert", "pop", "remove", "clear", "update", "setdefault", "add", "discard", "sort", "reverse",
             "popitem", "__setitem__", "__delitem__", "__setattr__")


def _handler_calls(rel, tree, par):
    """every call `<anything>.<handler>(...)` in the file: (file, enclosing function, handler).  The model's event
    sequence is what HTMLParser.feed delivers; any other caller of a handler is a second driver of the machine."""
    out = []
    for n in ast.walk(tree):
        if isinstance(n, ast.Call) and isinstance(n.func, ast.Attribute) and n.func.attr in HANDLERS:
            out.append((rel, _qual(n, par), n.func.attr))
        elif isinstance(n, ast.Attribute) and n.attr in HANDLERS and isinstance(n.ctx, ast.Load) and \
                not (isinstance(par.get(n), ast.Call) and par[n].func is n):
            out.append((rel, _qual(n, par), "ref:" + n.attr))  # a handler taken as a value (callback / alias)
        elif isinstance(n, ast.Constant) and isinstance(n.value, str) and n.value in HANDLERS and not isinstance(par.get(n), ast.Expr):
            out.append((rel, _qual(n, par), "str:" + n.value))  # getattr(p, "handle_data") …
    return out


def _state_writers(tree):
    """methods of the two classes that can change the object's state: assign / delete / augment an attribute or an item
    reached from `self`, or call a mutating method on something reached from `self`"""
    def from_self(e):
        while isinstance(e, (ast.Attribute, ast.Subscript)):
            e = e.value
        return isinstance(e, ast.Name) and e.id == "self"
    out = []
    for c in ast.walk(tree):
        if isinstance(c, ast.ClassDef) and c.name in CLASSES:
            for st in c.body:
                if not isinstance(st, (ast.FunctionDef, ast.AsyncFunctionDef)):
                    continue
                w = False
                for n in ast.walk(st):
                    if isinstance(n, (ast.Attribute, ast.Subscript)) and isinstance(n.ctx, (ast.Store, ast.Del)) and from_self(n):
                        w = True
                    if isinstance(n, ast.Call) and isinstance(n.func, ast.Attribute) and n.func.attr in _MUTATORS and from_self(n.func.value):
                        w = True
                    if isinstance(n, ast.Call) and isinstance(n.func, ast.Name) and n.func.id in ("setattr", "delattr", "vars"):
                        w = True
                    if isinstance(n, ast.Attribute) and n.attr == "__dict__":
                        w = True
                if w:
                    out.append(f"{c.name}.{st.name}")
    return out


@generator("HtmlLife")
def gen_htmllife() -> str:
    sites, notes, classes = [], [], {}
    hcalls, writers = [], []
    for rel in _files():
        with open(os.path.join(REPO, rel), encoding="utf-8") as fh:
            text = fh.read()
        if not any(c in text for c in CLASSES):
            continue
        tree = ast.parse(text, filename=rel)
        par = _parents(tree)
        hcalls += _handler_calls(rel, tree, par)
        writers += _state_writers(tree)
        for name, inv in _class_inventory(rel, tree, par).items():
            if name in classes:
                notes.append(f"{rel}: class {name} is defined more than once ({classes[name]['where']})")
            classes[name] = inv
        for n in ast.walk(tree):
            if isinstance(n, (ast.Import, ast.ImportFrom)):
                for al in n.names:
                    if al.name in CLASSES and al.asname not in (None, al.name):
                        notes.append(f"{rel}: {al.name} imported under another name {al.asname}")
                    if al.name in CLASSES and _enclosing(n, par, _FUNCS):
                        notes.append(f"{rel}: {al.name} imported inside a function")
                continue
            nm = n.id if isinstance(n, ast.Name) else n.attr if isinstance(n, ast.Attribute) else None
            if nm in CLASSES and isinstance(getattr(n, "ctx", None), ast.Load):
                sites.append((rel, _qual(n, par), nm, _classify(n, par)))
            elif nm in CLASSES:
                notes.append(f"{rel}: {nm} is assigned / deleted in {_qual(n, par)}")
            if isinstance(n, ast.Constant) and isinstance(n.value, str) and n.value in CLASSES and \
                    not isinstance(par.get(n), ast.Expr):
                p = par.get(n)
                if not (isinstance(p, ast.List) and isinstance(par.get(p), ast.Assign)
                        and any(getattr(t, "id", None) == "__all__" for t in par[p].targets)):
                    notes.append(f"{rel}: class name {n.value!r} used as a string in {_qual(n, par)} (getattr / registry?)")
    for c in CLASSES:
        if c not in classes:
            notes.append(f"class {c} not found in the package")
            classes[c] = {"attrs": [], "decs": [], "dunders": [], "inits": [], "bases": [], "where": "?"}
    sites.sort()

    L = [HEADER.format(src=f"{PKG}/**/*.py (every mention of _HtmlTreeBuilder / _XhtmlTextExtractor)")]
    L.append("namespace S2T.Gen.HtmlLife\n")
    L.append("/-- one mention of a parser class: file, enclosing function, class, how the object is used -/")
    L.append("structure Site where\n  file : String\n  func : String\n  cls : String\n  shape : String\n  deriving DecidableEq, Repr\n")
    L.append("def sites : List Site := " + lean_list(
        "{ file := %s, func := %s, cls := %s, shape := %s }" % tuple(lean_str(x) for x in s) for s in sites) + "\n")
    for c, short in CLASSES.items():
        inv = classes[c]
        L.append(f"/-- `{c}` ({inv['where']}): class-level statements other than methods / docstring -/")
        L.append(f"def {short}ClassAttrs : List String := " + lean_list(lean_str(x) for x in inv["attrs"]))
        L.append(f"def {short}Decorators : List String := " + lean_list(lean_str(x) for x in inv["decs"]))
        L.append(f"def {short}Dunders : List String := " + lean_list(lean_str(x) for x in inv["dunders"]))
        L.append(f"def {short}Bases : List String := " + lean_list(lean_str(x) for x in inv["bases"]))
        L.append(f"/-- calls of the base-class constructor inside `__init__` -/")
        L.append(f"def {short}InitResets : List String := " + lean_list(lean_str(x) for x in inv["inits"]) + "\n")
    L.append("/-- every call of (or reference to) an HTMLParser handler method in the files that mention a parser class: "
             "(file, enclosing function, handler) -/")
    L.append("def handlerCalls : List (String × String × String) := " + lean_list(
        "(%s, %s, %s)" % tuple(lean_str(x) for x in h) for h in sorted(hcalls)) + "\n")
    L.append("/-- the methods of the two classes that can change the object's state (assign / mutate something reached from `self`) -/")
    L.append("def stateWriters : List String := " + lean_list(lean_str(x) for x in sorted(writers)) + "\n")
    L.append("/-- translator cross-check notes; must be empty -/")
    L.append("def notes : List String := " + lean_list(lean_str(n) for n in notes) + "\n")
    L.append("end S2T.Gen.HtmlLife\n")
    return "\n".join(L)
