"""C01 (termination): inventory of every construct of the package that can iterate WITHOUT a syntactic bound, other than the
`while` statements and directly self-recursive functions that Gen/Loops already lists -> S2T/Gen/C01Iter.lean

kinds
  grow-for   `for x in C:` whose body mutates C (append / extend / insert / add / update / += / C[...] = / setdefault on C)
  inf-iter   a call of itertools.count / itertools.cycle / itertools.repeat (without `times`) or iter(callable, sentinel)
  mutual     a cycle of length >= 2 in the call graph of one module (functions and methods, calls resolved by simple name:
             `f(...)`, `self.f(...)`, `cls.f(...)`, `Class.f(...)`), reported as the sorted list of the functions on it
  chase      an assignment `v = M[v]` / `v = M.get(v)` / `v = f(v)`-free variant inside a `while`/`for` whose test or iterable
             does not shrink: a lookup that feeds its own key (following a reference chain).  Listed per function.
Keys are (file, enclosing function, kind, normalised text) — no line numbers, so harmless edits elsewhere keep the tie.
"""
import ast
import os

from translate import HEADER, REPO, generator, lean_list, lean_str, parse

from .wrappers import dotted

_MUT = {"append", "extend", "insert", "add", "update", "setdefault", "appendleft", "extendleft"}


def _names(node):
    return {n.id for n in ast.walk(node) if isinstance(n, ast.Name)}


def _iter_target(it):
    """the collection a for-loop walks: C, C.items(), list(C)?  (a copy is NOT the collection)"""
    if isinstance(it, (ast.Name, ast.Attribute)):
        return dotted(it)
    if isinstance(it, ast.Call) and isinstance(it.func, ast.Attribute) and it.func.attr in ("items", "keys", "values") and not it.args:
        return dotted(it.func.value)
    if isinstance(it, ast.Call) and isinstance(it.func, ast.Name) and it.func.id in ("enumerate", "reversed", "iter") and it.args:
        return _iter_target(it.args[0])
    return None


def _mutates(body, coll):
    for st in body:
        for n in ast.walk(st):
            if isinstance(n, ast.Call) and isinstance(n.func, ast.Attribute) and n.func.attr in _MUT and dotted(n.func.value) == coll:
                return ast.unparse(n.func)
            if isinstance(n, ast.AugAssign) and dotted(n.target) == coll:
                return ast.unparse(n.target) + " " + type(n.op).__name__ + "="
            if isinstance(n, (ast.Assign, ast.AugAssign)):
                tgts = n.targets if isinstance(n, ast.Assign) else [n.target]
                for t in tgts:
                    if isinstance(t, ast.Subscript) and dotted(t.value) == coll:
                        return ast.unparse(t.value) + "[...] ="
    return None


def _self_feeding(loop):
    """`v = M[v]` / `v = M.get(v, ...)` / `v = M[v].attr` inside a loop: a reference chain is followed"""
    out = []
    for n in ast.walk(loop):
        if isinstance(n, ast.Assign) and len(n.targets) == 1 and isinstance(n.targets[0], ast.Name):
            v = n.targets[0].id
            for sub in ast.walk(n.value):
                if isinstance(sub, ast.Subscript) and v in _names(sub.slice) and v not in _names(sub.value):
                    out.append(ast.unparse(n))
                    break
                if isinstance(sub, ast.Call) and isinstance(sub.func, ast.Attribute) and sub.func.attr in ("get", "find", "index", "pop") \
                        and any(v in _names(a) for a in sub.args) and v not in _names(sub.func.value):
                    out.append(ast.unparse(n))
                    break
    return sorted(set(out))


def inventory():
    pkg = os.path.join(REPO, "sharepoint2text")
    items = []
    for root, dirs, files in os.walk(pkg):
        dirs[:] = sorted(d for d in dirs if d not in ("tests", "__pycache__"))
        for fn in sorted(files):
            if not fn.endswith(".py"):
                continue
            rel = os.path.relpath(os.path.join(root, fn), REPO)
            tree = parse(rel)
            funcs = {}        # qualified name -> node
            simple = {}       # simple name -> [qualified]

            def collect(node, stack):
                for ch in ast.iter_child_nodes(node):
                    if isinstance(ch, (ast.FunctionDef, ast.AsyncFunctionDef)):
                        q = ".".join(stack + [ch.name])
                        funcs[q] = ch
                        simple.setdefault(ch.name, []).append(q)
                        collect(ch, stack + [ch.name])
                    elif isinstance(ch, ast.ClassDef):
                        collect(ch, stack + [ch.name])
                    else:
                        collect(ch, stack)

            collect(tree, [])

            def owner_walk(node, stack):
                for ch in ast.iter_child_nodes(node):
                    st = stack + [ch.name] if isinstance(ch, (ast.FunctionDef, ast.AsyncFunctionDef, ast.ClassDef)) else stack
                    where = ".".join(st) or "<module>"
                    if isinstance(ch, (ast.For, ast.AsyncFor)):
                        coll = _iter_target(ch.iter)
                        if coll:
                            how = _mutates(ch.body, coll)
                            if how:
                                items.append((rel, where, "grow-for", f"for {ast.unparse(ch.target)} in {ast.unparse(ch.iter)}: {how}"))
                    if isinstance(ch, (ast.For, ast.AsyncFor, ast.While)):
                        for txt in _self_feeding(ch):
                            items.append((rel, where, "chase", txt))
                    if isinstance(ch, ast.Call):
                        d = dotted(ch.func) or ""
                        if d in ("itertools.count", "itertools.cycle", "count", "cycle") or \
                                (d in ("itertools.repeat", "repeat") and len(ch.args) < 2 and not ch.keywords) or \
                                (d == "iter" and len(ch.args) == 2):
                            items.append((rel, where, "inf-iter", ast.unparse(ch.func)))
                    owner_walk(ch, st)

            owner_walk(tree, [])

            # call graph by simple name
            edges = {q: set() for q in funcs}
            for q, node in funcs.items():
                for n in ast.walk(node):
                    if isinstance(n, ast.Call):
                        d = dotted(n.func)
                        if not d:
                            continue
                        nm = d.split(".")[-1]
                        if d == nm or d.split(".")[0] in ("self", "cls") or d.split(".")[0][:1].isupper():
                            for tgt in simple.get(nm, []):
                                if tgt != q:
                                    edges[q].add(tgt)
            # nested function definitions are part of their parent's body for ast.walk: drop parent -> nested-callee duplicates is fine
            # Tarjan SCC
            index, low, onst, stack, sccs, counter = {}, {}, set(), [], [], [0]

            def strong(v):
                work = [(v, iter(sorted(edges[v])))]
                index[v] = low[v] = counter[0]
                counter[0] += 1
                stack.append(v)
                onst.add(v)
                while work:
                    node, it = work[-1]
                    adv = False
                    for w in it:
                        if w not in index:
                            index[w] = low[w] = counter[0]
                            counter[0] += 1
                            stack.append(w)
                            onst.add(w)
                            work.append((w, iter(sorted(edges[w]))))
                            adv = True
                            break
                        elif w in onst:
                            low[node] = min(low[node], index[w])
                    if adv:
                        continue
                    work.pop()
                    if work:
                        low[work[-1][0]] = min(low[work[-1][0]], low[node])
                    if low[node] == index[node]:
                        comp = []
                        while True:
                            w = stack.pop()
                            onst.discard(w)
                            comp.append(w)
                            if w == node:
                                break
                        if len(comp) > 1:
                            sccs.append(sorted(comp))

            for v in sorted(funcs):
                if v not in index:
                    strong(v)
            for comp in sorted(sccs):
                # a function nested in another one forms a trivial "cycle" with its parent through ast.walk: keep only real ones
                real = [c for c in comp if not any(c != o and c.startswith(o + ".") for o in comp)]
                if len(real) > 1 or any(not c.startswith(real[0] + ".") for c in comp if c != real[0]):
                    items.append((rel, comp[0], "mutual", " <-> ".join(comp)))
    return sorted(set(items))


@generator("C01Iter")
def gen_c01_iter():
    items = inventory()
    L = [HEADER.format(src="every for-loop over a collection its body grows, every unbounded iterator, every reference-chasing "
                           "assignment inside a loop and every mutual recursion under sharepoint2text/ (AST)")]
    L.append("namespace S2T.Gen.C01Iter\n")
    L.append("/-- (file, enclosing function, kind, normalised text) -/")
    L.append("def items : List (String × String × String × String) := " + lean_list(
        f"({lean_str(a)}, {lean_str(b)}, {lean_str(c)}, {lean_str(d)})" for a, b, c, d in items) + "\n")
    L.append("end S2T.Gen.C01Iter\n")
    return "\n".join(L)
