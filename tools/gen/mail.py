"""C16: constants of the mail extractors -> S2T/Gen/Mail.lean

Everything the hand model of `mbox_email_extractor.py` / `eml_email_extractor.py` /
`EmailContent.iterate_supported_attachments` hard-codes is read here from the *current* source
(runtime value cross-checked against the AST literal) so that `Props/C16.lean` re-decides, on
every run, that the model still talks about the code that exists:

* the separator pattern and its flags, the byte set of the `rstrip` in `_split_mbox_messages`;
* the string literals that steer body selection / attachment detection / defaults;
* the headers `parse_email_message` reads, the `EmailContent(...)` keywords both extractors fill;
* the literal pieces of the fallback path name in `iterate_supported_attachments`.
"""
import ast
import re

from translate import HEADER, fresh_import, generator, lean_list, lean_str, parse

MBOX = "sharepoint2text/parsing/extractors/mail/mbox_email_extractor.py"
EML = "sharepoint2text/parsing/extractors/mail/eml_email_extractor.py"
DT = "sharepoint2text/parsing/extractors/data_types.py"

# canonical Date headers the running parse_email_message is probed with (theorem gen_date re-computes them with the model)
DATE_PROBES = ["Fri, 05 Jan 2024 10:00:00 -0000", "Fri, 05 Jan 2024 10:00:00 +0000", "Thu, 29 Feb 2024 23:59:59 -0330",
               "Sat, 31 Dec 1999 00:00:07 +0545", "Mon, 01 Jan 1900 00:00:00 -2359", "Wed, 01 Jan 0069 01:02:03 +0100", "Sun, 01 Jan 0068 01:02:03 -0000", "Tue, 30 Nov 9999 12:34:56 +1400"]


def _func(mod: ast.Module, name: str, cls: str | None = None):
    body = mod.body
    if cls:
        for n in body:
            if isinstance(n, ast.ClassDef) and n.name == cls:
                body = n.body
                break
        else:
            return None
    for n in body:
        if isinstance(n, (ast.FunctionDef, ast.AsyncFunctionDef)) and n.name == name:
            return n
    return None


def _strip_doc(fn):
    """function body without its docstring"""
    if fn is None:
        return []
    b = list(fn.body)
    if b and isinstance(b[0], ast.Expr) and isinstance(getattr(b[0], "value", None), ast.Constant) and isinstance(b[0].value.value, str):
        b = b[1:]
    return b


def _str_consts(fn):
    out = []
    for stmt in _strip_doc(fn):
        for n in ast.walk(stmt):
            if isinstance(n, ast.Constant) and isinstance(n.value, str):
                out.append(n.value)
    return out


def _compared_consts(fn, var_names):
    """string constants that take part in a comparison (==, in); var_names=None: with anything"""
    out = []
    for stmt in _strip_doc(fn):
        for n in ast.walk(stmt):
            if isinstance(n, ast.Compare):
                sides = [n.left, *n.comparators]
                names = {s.id for s in sides if isinstance(s, ast.Name)}
                if var_names is None or names & set(var_names):
                    out += [s.value for s in sides if isinstance(s, ast.Constant) and isinstance(s.value, str)]
    return out


def _get_calls(fn, recv: str):
    """first string argument of every `<recv>.get("X", ...)` call, in source order"""
    out = []
    for stmt in _strip_doc(fn):
        for n in ast.walk(stmt):
            if (isinstance(n, ast.Call) and isinstance(n.func, ast.Attribute) and n.func.attr == "get"
                    and isinstance(n.func.value, ast.Name) and n.func.value.id == recv and n.args
                    and isinstance(n.args[0], ast.Constant) and isinstance(n.args[0].value, str)):
                out.append((n.lineno, n.col_offset, n.args[0].value))
    return [v for _, _, v in sorted(out)]


def _ctor_keywords(fn, ctor: str):
    for stmt in _strip_doc(fn):
        for n in ast.walk(stmt):
            if isinstance(n, ast.Call) and isinstance(n.func, ast.Name) and n.func.id == ctor:
                return [k.arg for k in n.keywords if k.arg]
    return []


def _calls(fn):
    out = []
    for stmt in _strip_doc(fn):
        for n in ast.walk(stmt):
            if isinstance(n, ast.Call):
                f = n.func
                out.append(f.id if isinstance(f, ast.Name) else f.attr if isinstance(f, ast.Attribute) else "?")
    return out


def _or_defaults(fn):
    """constants c of `<expr> or c` (BoolOp Or with a trailing constant)"""
    out = []
    for stmt in _strip_doc(fn):
        for n in ast.walk(stmt):
            if isinstance(n, ast.BoolOp) and isinstance(n.op, ast.Or) and isinstance(n.values[-1], ast.Constant):
                v = n.values[-1].value
                if isinstance(v, str):
                    out.append(v)
    return out


@generator("Mail")
def gen_mail() -> str:
    mbox = fresh_import("sharepoint2text.parsing.extractors.mail.mbox_email_extractor")
    m_ast, e_ast, d_ast = parse(MBOX), parse(EML), parse(DT)
    notes = []

    # --- separator pattern: runtime value vs. AST literal
    pat = mbox.MBOX_FROM_PATTERN
    pattern = pat.pattern.decode("latin-1") if isinstance(pat.pattern, bytes) else "STR:" + pat.pattern
    flags = int(pat.flags)
    lit = None
    for n in m_ast.body:
        if isinstance(n, ast.Assign) and any(isinstance(t, ast.Name) and t.id == "MBOX_FROM_PATTERN" for t in n.targets):
            c = n.value
            if isinstance(c, ast.Call) and c.args and isinstance(c.args[0], ast.Constant):
                lit = c.args[0].value
    if lit is None:
        notes.append("MBOX_FROM_PATTERN: not a re.compile(<literal>) in the source")
    elif lit != pat.pattern:
        notes.append("MBOX_FROM_PATTERN: runtime pattern differs from the source literal")

    # --- _split_mbox_messages: rstrip byte set, and the shape of the slicing
    split = _func(m_ast, "_split_mbox_messages")
    strip_sets = []
    for stmt in _strip_doc(split):
        for n in ast.walk(stmt):
            if isinstance(n, ast.Call) and isinstance(n.func, ast.Attribute) and n.func.attr in ("rstrip", "strip", "lstrip"):
                arg = n.args[0].value if n.args and isinstance(n.args[0], ast.Constant) else None
                strip_sets.append((n.func.attr, list(arg) if isinstance(arg, bytes) else None))
    # behavioural cross-check of the literal (what the running function strips)
    probe = mbox._split_mbox_messages(b"From a 2024\n\r\n \t x \t \r\n\n\r")
    strip_runtime = list(probe[0]) if probe else []

    # --- literals steering the MIME walk
    body = _func(m_ast, "get_body_content")
    is_att = _func(m_ast, "_is_attachment_part")
    get_att = _func(m_ast, "get_attachments")
    pem = _func(m_ast, "parse_email_message")
    body_types = _compared_consts(body, None)
    att_marks = _compared_consts(is_att, None)
    att_defaults = _or_defaults(get_att)
    headers_read = _get_calls(pem, "message")
    mbox_fields = _ctor_keywords(pem, "EmailContent")
    mbox_att_fields = _ctor_keywords(get_att, "EmailAttachment")

    # --- eml
    reml = _func(e_ast, "_read_eml_format")
    eml_fields = _ctor_keywords(reml, "EmailContent")
    eml_att_fields = _ctor_keywords(reml, "EmailAttachment")
    eml_defaults = _or_defaults(reml)
    eml_att_keys = _get_calls(reml, "attachment")

    # --- iterate_supported_attachments: literal pieces of the f-string
    isa = _func(d_ast, "iterate_supported_attachments", cls="EmailContent")
    fpieces = []
    for stmt in _strip_doc(isa):
        for n in ast.walk(stmt):
            if isinstance(n, ast.JoinedStr):
                fpieces.append([v.value if isinstance(v, ast.Constant) else "{" + ast.unparse(v.value) + "}" for v in n.values])

    # --- text steps: __post_init__, header unfolding, decode sites, white space set, single-byte codec tables
    eml = fresh_import("sharepoint2text.parsing.extractors.mail.eml_email_extractor")
    post = _func(d_ast, "__post_init__", cls="EmailContent")
    post_init = [ast.unparse(st) for st in _strip_doc(post)]
    py_ws = [c for c in range(0x110000) if chr(c).isspace()]
    folding = []
    for tag, mod in (("mbox", mbox), ("eml", eml)):
        pat_f = getattr(mod, "HEADER_FOLDING_PATTERN", None)
        folding.append((tag, pat_f.pattern if pat_f is not None and isinstance(pat_f.pattern, str) else "MISSING",
                        int(pat_f.flags) if pat_f is not None else 0))

    def _subject_expr(fn):
        for stmt in _strip_doc(fn):
            for n in ast.walk(stmt):
                if isinstance(n, ast.Call) and isinstance(n.func, ast.Name) and n.func.id == "EmailContent":
                    for k in n.keywords:
                        if k.arg == "subject":
                            return ast.unparse(k.value)
        return "MISSING"

    subject_exprs = [("mbox", _subject_expr(pem)), ("eml", _subject_expr(reml))]
    unf = getattr(mbox, "_unfold_header_value", None)
    unfold_probe = [ord(c) for c in unf("a\n b\r\n\tc\nd\r\n e \r \n")] if unf else []
    decode_sites, charset_bindings = [], []
    for fn in m_ast.body:
        if not isinstance(fn, (ast.FunctionDef, ast.AsyncFunctionDef)):
            continue
        found = []
        for stmt in _strip_doc(fn):
            for n in ast.walk(stmt):
                if isinstance(n, ast.Call) and isinstance(n.func, ast.Attribute) and n.func.attr == "decode":
                    err = [ast.unparse(k.value).strip("'\"") for k in n.keywords if k.arg == "errors"] + \
                          [ast.unparse(a).strip("'\"") for a in n.args[1:2]]
                    found.append((n.lineno, n.col_offset, "d", (fn.name, ast.unparse(n.func.value),
                                                                 ast.unparse(n.args[0]) if n.args else "", err[0] if err else "strict")))
                if isinstance(n, ast.Assign) and any(isinstance(t, ast.Name) and t.id == "charset" for t in n.targets):
                    found.append((n.lineno, n.col_offset, "b", (fn.name, ast.unparse(n.value))))
        for _, _, k, v in sorted(found):
            (decode_sites if k == "d" else charset_bindings).append(v)
    # where the decoding sits (which function, how often) is free; what it decodes with is not
    decode_sites = sorted({v[2:] for v in decode_sites})
    charset_bindings = sorted({v[1] for v in charset_bindings})
    codec_tables = [(name, [ord(bytes([b]).decode(name, "replace")) for b in range(256)])
                    for name in ("us-ascii", "iso-8859-1", "iso-8859-15", "windows-1252", "koi8-r")]

    # --- the Date pipeline: what is bound to `date=` of EmailMetadata(...), what the names in it are at run time,
    #     and what the running parse_email_message makes of four canonical Date headers
    def _date_exprs(fn):
        out = []
        for stmt in _strip_doc(fn):
            for n in ast.walk(stmt):
                if isinstance(n, ast.Call) and isinstance(n.func, ast.Name) and n.func.id == "EmailMetadata":
                    for k in n.keywords:
                        if k.arg == "date":
                            if isinstance(k.value, ast.Name):     # a local: every value ever assigned to it
                                var = k.value.id
                                found = []
                                for st2 in _strip_doc(fn):
                                    for a in ast.walk(st2):
                                        if isinstance(a, ast.Assign) and any(isinstance(t, ast.Name) and t.id == var for t in a.targets):
                                            found.append((a.lineno, ast.unparse(a.value)))
                                        elif isinstance(a, (ast.AugAssign, ast.AnnAssign)) and isinstance(a.target, ast.Name) and a.target.id == var:
                                            found.append((a.lineno, "<" + type(a).__name__ + "> " + ast.unparse(a)))
                                out += [v for _, v in sorted(found)]
                            else:
                                out.append(ast.unparse(k.value))
        return out or ["MISSING"]

    date_exprs = [("mbox", _date_exprs(pem)), ("eml", _date_exprs(reml))]
    date_callees = []
    for name in ("parsedate_to_datetime", "decode_header_value"):
        obj = getattr(mbox, name, None)
        date_callees.append((name, f"{getattr(obj, '__module__', '?')}.{getattr(obj, '__qualname__', '?')}" if obj is not None else "MISSING"))
    import email as _email
    date_probe = []
    for hdr in DATE_PROBES:
        try:
            msg = _email.message_from_bytes(("From: a@b.c\nDate: " + hdr + "\n\nx\n").encode("ascii"))
            date_probe.append((hdr, mbox.parse_email_message(msg).metadata.date))
        except Exception as exc:  # noqa: BLE001
            date_probe.append((hdr, "RAISED " + type(exc).__name__))

    # --- the reader loops: control skeleton of every loop of read_mbox_format_mail / read_eml_format_mail and the
    #     data flow from the split list to the yielded value (every value ever bound to a name on that chain)
    _EXITS = (ast.Yield, ast.YieldFrom, ast.Continue, ast.Break, ast.Return)

    def _loop_tokens(loop):
        toks = []
        for st in loop.body:
            if isinstance(st, ast.Expr) and isinstance(st.value, ast.Yield):
                toks.append("yield")
            elif any(isinstance(n, _EXITS) for n in ast.walk(st)):
                toks.append("cond")        # a yield / continue / break / return under a condition or in a nested block
            else:
                toks.append("plain")
        if loop.orelse:
            toks.append("cond")
        return toks

    def _reader_facts(fn):
        loops, comps, yields_outside = [], 0, 0
        for stmt in _strip_doc(fn):
            for n in ast.walk(stmt):
                if isinstance(n, (ast.For, ast.While, ast.AsyncFor)):
                    loops.append(n)
                if isinstance(n, (ast.ListComp, ast.GeneratorExp, ast.SetComp, ast.DictComp)):
                    comps += 1
        inside = {id(n) for lp in loops for n in ast.walk(lp)}
        for stmt in _strip_doc(fn):
            for n in ast.walk(stmt):
                if isinstance(n, (ast.Yield, ast.YieldFrom)) and id(n) not in inside:
                    yields_outside += 1
        chain = []
        if len(loops) == 1 and isinstance(loops[0], ast.For):
            lp = loops[0]
            chain.append(("for-target", ast.unparse(lp.target)))
            chain.append(("for-iter", ast.unparse(lp.iter)))
            ys = [n for n in ast.walk(lp) if isinstance(n, (ast.Yield, ast.YieldFrom))]
            names = set()
            for y in ys:
                chain.append(("yield", ast.unparse(y.value) if y.value is not None else ""))
                names |= {n.id for n in ast.walk(y) if isinstance(n, ast.Name)}
            names |= {n.id for n in ast.walk(lp.iter) if isinstance(n, ast.Name)}
            # close the set of names over the right-hand sides bound to them (local data flow)
            binds = []
            for stmt in _strip_doc(fn):
                for a in ast.walk(stmt):
                    if isinstance(a, ast.Assign):
                        for t in a.targets:
                            for nm in ast.walk(t):
                                if isinstance(nm, ast.Name):
                                    binds.append((a.lineno, nm.id, ast.unparse(a.value), a.value))
                    elif isinstance(a, (ast.AugAssign, ast.AnnAssign)) and isinstance(a.target, ast.Name):
                        binds.append((a.lineno, a.target.id, "<" + type(a).__name__ + "> " + ast.unparse(a), a))
                    elif isinstance(a, ast.NamedExpr):
                        binds.append((a.lineno, a.target.id, "<walrus> " + ast.unparse(a.value), a.value))
            changed = True
            while changed:
                changed = False
                for _, nm, _, val in binds:
                    if nm in names:
                        more = {n.id for n in ast.walk(val) if isinstance(n, ast.Name)} - names
                        if more:
                            names |= more
                            changed = True
            skip = {"path", "logger", "message_count", "email", "file_like"}
            for ln, nm, txt, _ in sorted(binds, key=lambda b: (b[0], b[1])):
                if nm in names and nm not in skip:
                    chain.append((nm, txt))
            # calls made ON a chain name as a statement (x.sort(), x.pop(), del x[...]) change it without a binding
            for stmt in _strip_doc(fn):
                for a in ast.walk(stmt):
                    if isinstance(a, ast.Expr) and isinstance(a.value, ast.Call) and isinstance(a.value.func, ast.Attribute) \
                            and isinstance(a.value.func.value, ast.Name) and a.value.func.value.id in names - skip \
                            and a.value.func.attr not in ("seek",):
                        chain.append(("<call>", ast.unparse(a.value)))
                    if isinstance(a, ast.Delete):
                        chain.append(("<del>", ast.unparse(a)))
        return [_loop_tokens(lp) for lp in loops], comps, yields_outside, chain

    rd = _func(m_ast, "read_mbox_format_mail")
    mbox_loops, mbox_comps, mbox_youts, mbox_chain = _reader_facts(rd) if rd is not None else ([], 0, 0, [("MISSING", "")])
    erd = _func(e_ast, "read_eml_format_mail")
    eml_loops, eml_comps, eml_youts, eml_chain = _reader_facts(erd) if erd is not None else ([], 0, 0, [("MISSING", "")])
    eml_yields = [ast.unparse(n.value) if n.value is not None else "" for st in _strip_doc(erd) for n in ast.walk(st)
                  if isinstance(n, (ast.Yield, ast.YieldFrom))] if erd is not None else ["MISSING"]
    # module-level mutable state of the two extractors (a result must not depend on earlier calls): names bound at module
    # level to a list / dict / set display or constructor call, and `global` statements anywhere
    mod_state = []
    for tag, tree in (("mbox", m_ast), ("eml", e_ast)):
        for n in tree.body:
            if isinstance(n, (ast.Assign, ast.AnnAssign)) and n.value is not None:
                v = n.value
                mut = isinstance(v, (ast.List, ast.Dict, ast.Set, ast.ListComp, ast.DictComp, ast.SetComp)) or (
                    isinstance(v, ast.Call) and isinstance(v.func, ast.Name) and v.func.id in ("list", "dict", "set", "defaultdict", "OrderedDict", "Counter", "deque"))
                if mut:
                    tg = n.targets if isinstance(n, ast.Assign) else [n.target]
                    mod_state.append((tag, ", ".join(ast.unparse(t) for t in tg)))
        for n in ast.walk(tree):
            if isinstance(n, (ast.Global, ast.Nonlocal)):
                mod_state.append((tag, type(n).__name__.lower() + " " + ", ".join(n.names)))
            if isinstance(n, ast.FunctionDef) and any(
                    isinstance(d, ast.Call) and "cache" in ast.unparse(d.func) or (not isinstance(d, ast.Call) and "cache" in ast.unparse(d))
                    for d in n.decorator_list):
                mod_state.append((tag, "cached " + n.name))

    L = [HEADER.format(src=f"{MBOX}, {EML}, {DT}")]
    L.append("namespace S2T.Gen.Mail\n")
    L.append("/-- control skeleton of every loop of `read_mbox_format_mail`, one token per statement of the loop body:\n"
             "    `yield` = an unconditional top-level `yield`, `cond` = a statement that contains a yield / continue / break /\n"
             "    return (under a condition, in a nested block) or a loop `else`, `plain` = anything else -/")
    L.append("def readerLoops : List (List String) := " + lean_list("[" + ", ".join(lean_str(t) for t in lp) + "]" for lp in mbox_loops) + "\n")
    L.append("/-- comprehensions in `read_mbox_format_mail` and yields outside its loop -/")
    L.append(f"def readerComprehensions : Nat := {mbox_comps}")
    L.append(f"def readerYieldsOutsideLoop : Nat := {mbox_youts}\n")
    L.append("/-- data flow of the reader: loop target, iterated expression, yielded expression, then every value ever bound to a\n"
             "    name these depend on (source order), and every in-place call / del on such a name -/")
    L.append("def readerChain : List (String × String) := " + lean_list(f"({lean_str(a)}, {lean_str(b)})" for a, b in mbox_chain) + "\n")
    L.append("/-- `read_eml_format_mail`: its loops (none), comprehensions and yield expressions -/")
    L.append("def emlReaderLoops : List (List String) := " + lean_list("[" + ", ".join(lean_str(t) for t in lp) + "]" for lp in eml_loops) + "\n")
    L.append(f"def emlReaderComprehensions : Nat := {eml_comps}")
    L.append("def emlReaderYields : List String := " + lean_list(lean_str(x) for x in eml_yields) + "\n")
    L.append("/-- module-level mutable containers, global/nonlocal statements and cached functions of the two extractors -/")
    L.append("def moduleState : List (String × String) := " + lean_list(f"({lean_str(a)}, {lean_str(b)})" for a, b in mod_state) + "\n")
    L.append("/-- `MBOX_FROM_PATTERN.pattern` (bytes, shown as latin-1) and `.flags` -/")
    L.append(f"def sepPattern : String := {lean_str(pattern)}")
    L.append(f"def sepFlags : Nat := {flags}\n")
    L.append("/-- strip calls of `_split_mbox_messages`: (method, byte set) -/")
    L.append("def stripCalls : List (String × List Nat) := " + lean_list(
        f"({lean_str(m)}, [{', '.join(str(b) for b in (s or [999]))}])" for m, s in strip_sets) + "\n")
    L.append("/-- what the running function leaves of the probe chunk `\\r\\n \\t x \\t \\r\\n\\n\\r` -/")
    L.append("def stripProbe : List Nat := [" + ", ".join(str(b) for b in strip_runtime) + "]\n")
    L.append("/-- constants compared with `content_type` in `get_body_content`, in source order -/")
    L.append("def bodyTypes : List String := " + lean_list(lean_str(s) for s in body_types) + "\n")
    L.append("/-- constants tested against the Content-Disposition in `_is_attachment_part` -/")
    L.append("def attachmentMarks : List String := " + lean_list(lean_str(s) for s in att_marks) + "\n")
    L.append("/-- `x or <default>` constants of `get_attachments` -/")
    L.append("def attachmentDefaults : List String := " + lean_list(lean_str(s) for s in att_defaults) + "\n")
    L.append("/-- headers read by `parse_email_message` (`message.get(...)`), in source order -/")
    L.append("def headersRead : List String := " + lean_list(lean_str(s) for s in headers_read) + "\n")
    L.append("/-- keyword arguments of the `EmailContent(...)` built by the mbox / eml extractor -/")
    L.append("def mboxFields : List String := " + lean_list(lean_str(s) for s in mbox_fields) + "\n")
    L.append("def emlFields : List String := " + lean_list(lean_str(s) for s in eml_fields) + "\n")
    L.append("def mboxAttachmentFields : List String := " + lean_list(lean_str(s) for s in mbox_att_fields) + "\n")
    L.append("def emlAttachmentFields : List String := " + lean_list(lean_str(s) for s in eml_att_fields) + "\n")
    L.append("/-- `x or <default>` constants and mailparser attachment keys of `_read_eml_format` -/")
    L.append("def emlDefaults : List String := " + lean_list(lean_str(s) for s in eml_defaults) + "\n")
    L.append("def emlAttachmentKeys : List String := " + lean_list(lean_str(s) for s in eml_att_keys) + "\n")
    L.append("/-- pieces of the f-strings in `iterate_supported_attachments` -/")
    L.append("def routeFStrings : List (List String) := " + lean_list("[" + ", ".join(lean_str(x) for x in p) + "]" for p in fpieces) + "\n")
    L.append("/-- statements of `EmailContent.__post_init__` (ast.unparse) -/")
    L.append("def postInit : List String := " + lean_list(lean_str(x) for x in post_init) + "\n")
    L.append("/-- code points with `str.isspace()` in the running interpreter -/")
    L.append("def pyWhitespace : List Nat := [" + ", ".join(map(str, py_ws)) + "]\n")
    L.append("/-- `HEADER_FOLDING_PATTERN` of both extractors: (extractor, pattern, flags) -/")
    L.append("def foldingPatterns : List (String × String × Nat) := " + lean_list(
        f"({lean_str(t)}, {lean_str(pp)}, {fl})" for t, pp, fl in folding) + "\n")
    L.append("/-- the expression passed as `subject=` to `EmailContent(...)` -/")
    L.append("def subjectExprs : List (String × String) := " + lean_list(f"({lean_str(t)}, {lean_str(x)})" for t, x in subject_exprs) + "\n")
    L.append("/-- what the running `_unfold_header_value` makes of `a\\n b\\r\\n\\tc\\nd\\r\\n e \\r \\n` (code points) -/")
    L.append("def unfoldProbe : List Nat := [" + ", ".join(map(str, unfold_probe)) + "]\n")
    L.append("/-- the distinct (codec argument, errors) of all `.decode(` calls of the mbox extractor -/")
    L.append("def decodeSites : List (String × String) := " + lean_list(
        "(" + ", ".join(lean_str(x) for x in v) + ")" for v in decode_sites) + "\n")
    L.append("/-- the distinct values assigned to a variable `charset` in the mbox extractor -/")
    L.append("def charsetBindings : List String := " + lean_list(lean_str(b) for b in charset_bindings) + "\n")
    L.append("/-- `bytes([b]).decode(codec, 'replace')` for b = 0..255 of the running single-byte codecs -/")
    L.append("def codecTables : List (String × List Nat) := " + lean_list(
        f"({lean_str(n)}, [{', '.join(map(str, t))}])" for n, t in codec_tables) + "\n")
    L.append("/-- the expression(s) bound to `date=` of the `EmailMetadata(...)` each extractor builds -/")
    L.append("def dateExprs : List (String × List String) := " + lean_list(
        f"({lean_str(t)}, [{', '.join(lean_str(x) for x in xs)}])" for t, xs in date_exprs) + "\n")
    L.append("/-- what the names of the mbox date expression are in the running module: (name, module.qualname) -/")
    L.append("def dateCallees : List (String × String) := " + lean_list(f"({lean_str(a)}, {lean_str(b)})" for a, b in date_callees) + "\n")
    L.append("/-- (Date header, `parse_email_message(...).metadata.date` of the running code) -/")
    L.append("def dateProbe : List (String × String) := " + lean_list(f"({lean_str(a)}, {lean_str(b)})" for a, b in date_probe) + "\n")
    L.append("/-- translator cross-check notes; must be empty -/")
    L.append("def notes : List String := " + lean_list(lean_str(n) for n in notes) + "\n")
    L.append("end S2T.Gen.Mail\n")
    return "\n".join(L)
