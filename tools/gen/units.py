"""C03: constants and inventories behind iterate_units()/get_full_text() -> S2T/Gen/Units.lean

* Python's whitespace set (what str.strip()/split() remove) and the str.splitlines() boundaries, read from the
  running interpreter (all 0x110000 code points), cross-checked against each other;
* PPT placeholder type sets (runtime values, cross-checked against the AST of ppt_extractor.py);
* the heading words of DocContent.iterate_units.heading_level_for (AST);
* an inventory of every `*Content.get_full_text`: does it return what `_join_unit_text` makes of `iterate_units()`
  (decided by running it with `_join_unit_text` replaced by a recorder, so re-formatting the body does not matter;
  `_join_unit_text`'s own body is tied behaviourally by the correspondence);
* the `start` value of every `enumerate(...)` that numbers units;
* an inventory of every call that can change or lose the order of a sequence (sorted, reversed, .sort, set, dict
  re-keying helpers, unordered executors ...) inside the functions that build the unit sequence: the show order /
  spine order / page order / mailbox order is the document order, so any such call has to be accounted for by name.
"""
import ast

from translate import HEADER, chars, fresh_import, generator, lean_list, lean_str, nat_list, parse

DT = "sharepoint2text/parsing/extractors/data_types.py"
PPT = "sharepoint2text/parsing/extractors/ms_legacy/ppt_extractor.py"
PPTX = "sharepoint2text/parsing/extractors/ms_modern/pptx_extractor.py"
ODP = "sharepoint2text/parsing/extractors/open_office/odp_extractor.py"


def _classes(tree):
    return {n.name: n for n in tree.body if isinstance(n, ast.ClassDef)}


def _method(cls, name):
    for n in cls.body:
        if isinstance(n, ast.FunctionDef) and n.name == name:
            return n
    return None


def _body_wo_doc(fn):
    b = list(fn.body)
    if b and isinstance(b[0], ast.Expr) and isinstance(b[0].value, ast.Constant) and isinstance(b[0].value.value, str):
        b = b[1:]
    return b


def _is_self_iterate_units(node):
    return (isinstance(node, ast.Call) and isinstance(node.func, ast.Attribute) and node.func.attr == "iterate_units"
            and isinstance(node.func.value, ast.Name) and node.func.value.id == "self" and not node.args
            and all(isinstance(k.value, ast.Name) and k.value.id == k.arg for k in node.keywords))


def full_text_kind(fn) -> str:
    """'join' | 'field:<name>' | 'field-strip:<name>' | 'other'"""
    b = _body_wo_doc(fn)
    if len(b) == 1 and isinstance(b[0], ast.Return):
        v = b[0].value
        if (isinstance(v, ast.Call) and isinstance(v.func, ast.Name) and v.func.id == "_join_unit_text"
                and len(v.args) == 1 and not v.keywords and _is_self_iterate_units(v.args[0])):
            return "join"
        if isinstance(v, ast.Attribute) and isinstance(v.value, ast.Name) and v.value.id == "self":
            return "field:" + v.attr
        if (isinstance(v, ast.Call) and isinstance(v.func, ast.Attribute) and v.func.attr == "strip" and not v.args
                and isinstance(v.func.value, ast.Attribute) and isinstance(v.func.value.value, ast.Name)
                and v.func.value.value.id == "self"):
            return "field-strip:" + v.func.value.attr
    return "other"


def full_text_kind_runtime(dtm, cls_name) -> bool:
    """does `get_full_text()` return what `_join_unit_text` makes of `iterate_units()`?  Decided by running it on a
    default instance and on one whose string fields are filled, with `_join_unit_text` replaced by a recorder
    (robust against re-formatting of the method body)."""
    import dataclasses
    cls = getattr(dtm, cls_name)
    sentinel = "\x00joined\x00"

    def instances():
        base = cls(from_email=dtm.EmailAddress()) if cls_name == "EmailContent" else cls()
        yield base
        filled = cls(from_email=dtm.EmailAddress()) if cls_name == "EmailContent" else cls()
        for o in (filled, getattr(filled, "metadata", None)):
            if o is not None and dataclasses.is_dataclass(o):
                for f in dataclasses.fields(o):
                    if isinstance(getattr(o, f.name), str):
                        setattr(o, f.name, "x y")
        yield filled

    orig = dtm._join_unit_text
    try:
        for obj in instances():
            calls = []

            def rec(units, calls=calls):
                calls.append([u.get_text() for u in units])
                return sentinel
            dtm._join_unit_text = rec
            got = obj.get_full_text()
            dtm._join_unit_text = orig
            if got != sentinel or len(calls) != 1 or calls[0] != [u.get_text() for u in obj.iterate_units()]:
                return False
        return True
    except Exception:
        return False
    finally:
        dtm._join_unit_text = orig


def enumerate_starts(fn):
    """start values of all enumerate(...) calls inside fn (None when not a literal int)."""
    res = []
    for node in ast.walk(fn):
        if isinstance(node, ast.Call) and isinstance(node.func, ast.Name) and node.func.id == "enumerate":
            start = 0
            sv = None
            if len(node.args) >= 2:
                sv = node.args[1]
            for k in node.keywords:
                if k.arg == "start":
                    sv = k.value
            if sv is not None:
                start = sv.value if isinstance(sv, ast.Constant) and isinstance(sv.value, int) else None
            res.append(start)
    return res


def _find_func(tree, name):
    for node in ast.walk(tree):
        if isinstance(node, ast.FunctionDef) and node.name == name:
            return node
    return None


def doc_heading_rules(cls):
    """[(is_prefix, word, level)] in source order from DocContent.iterate_units.heading_level_for."""
    fn = _find_func(_method(cls, "iterate_units"), "heading_level_for")
    if fn is None:
        raise ValueError("DocContent.iterate_units.heading_level_for not found")
    rules = []

    def atoms(test):
        if isinstance(test, ast.BoolOp) and isinstance(test.op, ast.Or):
            out = []
            for v in test.values:
                out += atoms(v)
            return out
        if (isinstance(test, ast.Call) and isinstance(test.func, ast.Attribute) and test.func.attr == "startswith"
                and isinstance(test.func.value, ast.Name) and test.func.value.id == "lowered" and len(test.args) == 1
                and isinstance(test.args[0], ast.Constant) and isinstance(test.args[0].value, str)):
            return [(True, test.args[0].value)]
        if (isinstance(test, ast.Compare) and len(test.ops) == 1 and isinstance(test.ops[0], ast.Eq)
                and isinstance(test.left, ast.Name) and test.left.id == "lowered"
                and isinstance(test.comparators[0], ast.Constant) and isinstance(test.comparators[0].value, str)):
            return [(False, test.comparators[0].value)]
        raise ValueError("heading_level_for: unrecognised test " + ast.dump(test)[:200])

    body = _body_wo_doc(fn)
    # expected prefix: text = line.strip(); if not text: return None; lowered = text.lower()
    want_prefix = ["text = line.strip()", "if not text:\n    return None", "lowered = text.lower()"]
    got_prefix = [ast.unparse(s) for s in body[:3]]
    if got_prefix != want_prefix:
        raise ValueError("heading_level_for: unexpected prologue " + repr(got_prefix))
    for st in body[3:]:
        if isinstance(st, ast.If) and not st.orelse and len(st.body) == 1 and isinstance(st.body[0], ast.Return) \
                and isinstance(st.body[0].value, ast.Constant) and isinstance(st.body[0].value.value, int):
            for pre, w in atoms(st.test):
                rules.append((pre, w, st.body[0].value.value))
        elif isinstance(st, ast.Return) and isinstance(st.value, ast.Constant) and st.value.value is None:
            continue
        else:
            raise ValueError("heading_level_for: unrecognised statement " + ast.unparse(st)[:200])
    return rules


CONTENT_CLASSES = ["EmailContent", "DocContent", "DocxContent", "PdfContent", "PlainTextContent", "HtmlContent",
                   "PptContent", "PptxContent", "XlsContent", "XlsxContent", "OdgContent", "OdfContent", "OdpContent",
                   "OdsContent", "OdtContent", "RtfContent", "EpubContent"]
# functions whose enumerate() numbers units: (file, class or None, function)
ENUM_SITES = [
    (DT, "PdfContent", "iterate_units"), (DT, "XlsContent", "iterate_units"), (DT, "XlsxContent", "iterate_units"),
    (DT, "OdsContent", "iterate_units"), (DT, "RtfContent", "iterate_units"),
    (PPTX, None, "read_pptx"), (PPT, None, "_build_slides_from_text_blocks"), (ODP, None, "read_odp"),
]


EPUB = "sharepoint2text/parsing/extractors/epub_extractor.py"
MBOX = "sharepoint2text/parsing/extractors/mail/mbox_email_extractor.py"
RTF = "sharepoint2text/parsing/extractors/ms_legacy/rtf_extractor.py"
ODS = "sharepoint2text/parsing/extractors/open_office/ods_extractor.py"
XLSX = "sharepoint2text/parsing/extractors/ms_modern/xlsx_extractor.py"
# functions in which the sequence of slides / chapters / pages / messages / sheets / units is built: (file, function name)
ORDER_SITES = [
    (PPTX, "_compute_slide_order"), (PPTX, "read_pptx"),
    (PPT, "_parse_slide_list_container"), (PPT, "_extract_slide_list_texts"), (PPT, "_build_slides_from_text_blocks"), (PPT, "_parse_ppt_document"),
    (EPUB, "_parse_spine"), (EPUB, "read_epub"),
    (MBOX, "_split_mbox_messages"), (MBOX, "read_mbox_format_mail"),
    (RTF, "_strip_rtf_full_with_pages"), (RTF, "_extract_body_text"),
    (ODP, "read_odp"), (ODS, "read_ods"), (XLSX, "read_xlsx"),
    (DT, "iterate_units"), (DT, "_join_unit_text"),
]
REORDERING = {"sorted", "reversed", "sort", "reverse", "set", "frozenset", "fromkeys", "setdefault", "OrderedDict", "Counter", "groupby",
              "heapify", "heappush", "heappop", "nsmallest", "nlargest", "shuffle", "sample", "as_completed", "imap_unordered", "popitem",
              "insert", "appendleft", "rotate", "difference", "union", "intersection", "symmetric_difference"}


def reorder_calls():
    """[(qualified function, call name)] — every call whose name is in REORDERING inside an ORDER_SITES function, sorted."""
    out = set()
    trees = {}
    for rel, fn in ORDER_SITES:
        t = trees.setdefault(rel, parse(rel))
        hits = []

        def visit(node, qual):
            for ch in ast.iter_child_nodes(node):
                if isinstance(ch, ast.ClassDef):
                    visit(ch, qual + [ch.name])
                elif isinstance(ch, (ast.FunctionDef, ast.AsyncFunctionDef)):
                    if ch.name == fn:
                        hits.append((".".join(qual + [ch.name]), ch))
                    else:
                        visit(ch, qual + [ch.name])
                else:
                    visit(ch, qual)
        visit(t, [])
        if not hits:
            raise ValueError(f"{rel}: function {fn} not found (unit-sequence builder inventory)")
        for qn, node in hits:
            for c in ast.walk(node):
                if isinstance(c, ast.Call):
                    nm = c.func.id if isinstance(c.func, ast.Name) else (c.func.attr if isinstance(c.func, ast.Attribute) else None)
                    if nm in REORDERING:
                        out.add((qn, nm))
    return sorted(out)


@generator("Units")
def gen_units() -> str:
    notes = []
    # ---- interpreter tables
    ws = [c for c in range(0x110000) if chr(c).isspace()]
    ws2 = [c for c in range(0x110000) if not (0xD800 <= c <= 0xDFFF) and ("a" + chr(c)).strip() == "a" and (chr(c) + "a").strip() == "a"]
    if ws != ws2:
        notes.append("str.isspace and str.strip disagree on the whitespace set")
    ws3 = [c for c in range(0x110000) if not (0xD800 <= c <= 0xDFFF) and ("a" + chr(c) + "b").split() == ["a", "b"]]
    if ws != ws3:
        notes.append("str.isspace and str.split disagree on the whitespace set")
    lbs = [c for c in range(0x110000) if len(("a" + chr(c) + "b").splitlines()) == 2]
    ascii_letters = set("abcdefghijklmnopqrstuvwxyz")
    lower_ascii = []
    for c in range(0x80, 0x110000):
        if 0xD800 <= c <= 0xDFFF:
            continue
        lo = chr(c).lower()
        if lo != chr(c) and set(lo) & ascii_letters:
            lower_ascii.append((c, [ord(x) for x in lo]))
    for c in range(0x80):
        ch = chr(c)
        want = chr(c + 32) if "A" <= ch <= "Z" else ch
        if ch.lower() != want:
            notes.append(f"ASCII lower() differs at {c}")
    # ---- PPT type sets
    pe = fresh_import("sharepoint2text.parsing.extractors.ms_legacy.ppt_extractor")
    dtm = fresh_import("sharepoint2text.parsing.extractors.data_types")
    title_types, body_types, notes_type = sorted(pe._TITLE_TYPES), sorted(pe._BODY_TYPES), int(dtm.PPT_TEXT_TYPE_NOTES)
    ppt_tree = parse(PPT)
    for nm, val in (("_TITLE_TYPES", title_types), ("_BODY_TYPES", body_types)):
        found = False
        for node in ppt_tree.body:
            if isinstance(node, ast.Assign) and len(node.targets) == 1 and isinstance(node.targets[0], ast.Name) and node.targets[0].id == nm:
                found = True
                try:
                    lit = sorted(eval(compile(ast.Expression(node.value), "<ast>", "eval"), dict(vars(dtm))))
                except Exception as e:  # not evaluable from the constants: record it
                    notes.append(f"{nm}: cannot evaluate the source expression ({e!r})")
                    continue
                if lit != val:
                    notes.append(f"{nm}: runtime value differs from the source expression")
        if not found:
            notes.append(f"{nm}: no module-level assignment in the source")
    # ---- data_types inventories
    tree = parse(DT)
    classes = _classes(tree)
    kinds = []
    for cn in CONTENT_CLASSES:
        if cn not in classes or _method(classes[cn], "get_full_text") is None:
            kinds.append((cn, "missing"))
        else:
            k = full_text_kind(_method(classes[cn], "get_full_text"))
            rt = full_text_kind_runtime(dtm, cn)
            if rt:
                k = "join"
            elif k == "join":
                k = "other"      # looks like the join in the source but does not behave like it
            kinds.append((cn, k))
    rules = doc_heading_rules(classes["DocContent"])
    starts = []
    for rel, cn, fn in ENUM_SITES:
        t = tree if rel == DT else parse(rel)
        node = _method(_classes(t)[cn], fn) if cn else _find_func(t, fn)
        if node is None:
            raise ValueError(f"{rel}:{cn}.{fn} not found")
        vals = enumerate_starts(node)
        for v in vals:
            starts.append((f"{cn + '.' if cn else ''}{fn}", -1 if v is None else v))
    L = [HEADER.format(src=f"{DT}, {PPT}, {PPTX}, {ODP}, the running interpreter's str methods")]
    L.append("import S2T.Model.Units\nnamespace S2T.Gen.Units\nopen S2T.Units\n")
    L.append("def wsCodes : List Nat := " + nat_list(ws) + "\n")
    L.append("def lineBreakCodes : List Nat := " + nat_list(lbs) + "\n")
    L.append("def pptTitleTypes : List Nat := " + nat_list(title_types) + "\n")
    L.append("def pptBodyTypes : List Nat := " + nat_list(body_types) + "\n")
    L.append(f"def pptNotesType : Nat := {notes_type}\n")
    L.append("def lowerAscii : List (Nat × List Nat) := " + lean_list(f"({c}, [{', '.join(map(str, lo))}])" for c, lo in lower_ascii) + "\n")
    L.append("def docHeadingRules : List (Bool × Str × Int) := "
             + lean_list(f"({'true' if pre else 'false'}, {chars(w)}, {lv})" for pre, w, lv in rules) + "\n")
    L.append("/-- `<Class>.get_full_text` body: \"join\" = `return _join_unit_text(self.iterate_units(...))` -/")
    L.append("def fullTextKinds : List (String × String) := " + lean_list(f"({lean_str(a)}, {lean_str(b)})" for a, b in kinds) + "\n")
    L.append("/-- start value of every enumerate() that numbers units (-1 = not a literal) -/")
    L.append("def enumStarts : List (String × Int) := " + lean_list(f"({lean_str(a)}, {b})" for a, b in starts) + "\n")
    L.append("/-- calls that can change / lose the order of a sequence inside the functions that build the unit sequence -/")
    L.append("def reorderCalls : List (String × String) := " + lean_list(f"({lean_str(a)}, {lean_str(b)})" for a, b in reorder_calls()) + "\n")
    L.append("/-- translator cross-check notes; must be empty -/")
    L.append("def notes : List String := " + lean_list(lean_str(n) for n in notes) + "\n")
    L.append("def tables : Tables := { wsCodes, lineBreakCodes, pptTitleTypes, pptBodyTypes, pptNotesType, lowerAscii, docHeadingRules }\n")
    L.append("end S2T.Gen.Units\n")
    return "\n".join(L)
