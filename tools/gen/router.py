"""C07: router tables, MIME map, README format rows -> S2T/Gen/Router.lean"""
import re

from translate import (HEADER, ast_literal_assign, chars, fresh_import, generator, lean_list, lean_str, src)


@generator("Router")
def gen_router() -> str:
    router = fresh_import("sharepoint2text.parsing.router")
    mt = fresh_import("sharepoint2text.parsing.mime_types")
    reg = dict(router._EXTRACTOR_REGISTRY)
    ali = dict(router._EXTENSION_ALIASES)
    comp = dict(router._COMPOUND_EXTENSIONS)
    sup = sorted(router._SUPPORTED_EXTENSIONS)
    mm = dict(mt.MIME_TYPE_MAPPING)
    # cross-check runtime values against the AST literals (a mismatch means the table is
    # computed or patched somewhere; record it so the Lean side can see it)
    notes = []
    for nm, val, rel in [
        ("_EXTRACTOR_REGISTRY", reg, "sharepoint2text/parsing/router.py"),
        ("_EXTENSION_ALIASES", ali, "sharepoint2text/parsing/router.py"),
        ("_COMPOUND_EXTENSIONS", comp, "sharepoint2text/parsing/router.py"),
        ("MIME_TYPE_MAPPING", mm, "sharepoint2text/parsing/mime_types.py"),
    ]:
        lit = ast_literal_assign(rel, nm)
        if lit is None:
            notes.append(f"{nm}: not a literal in the source")
        elif {k: tuple(v) if isinstance(v, (list, tuple)) else v for k, v in lit.items()} != {
            k: tuple(v) if isinstance(v, (list, tuple)) else v for k, v in val.items()
        }:
            notes.append(f"{nm}: runtime value differs from the source literal")
    # README format tables: rows of back-quoted extensions in the "Extension" column
    rows = []
    in_fmt = False
    for line in src("README.md").splitlines():
        cells = [c.strip() for c in line.strip().strip("|").split("|")]
        if line.startswith("|") and len(cells) >= 3 and cells[1] == "Extension":
            in_fmt = True
            continue
        if not line.startswith("|"):
            in_fmt = False
            continue
        if in_fmt and not set(cells[1]) <= set("-: "):
            exts = re.findall(r"`(\.[^`]+)`", cells[1])
            if exts:
                rows.append(exts)
    L = [HEADER.format(src="sharepoint2text/parsing/router.py, mime_types.py, README.md")]
    L.append("import S2T.Model.Router\nnamespace S2T.Gen.Router\nopen S2T.Router\n")
    L.append(
        "def registry : List (Str × (Str × Str)) := "
        + lean_list(f"({chars(k)}, ({chars(v[0])}, {chars(v[1])}))" for k, v in reg.items())
        + "\n"
    )
    L.append("def aliases : List (Str × Str) := " + lean_list(f"({chars(k)}, {chars(v)})" for k, v in ali.items()) + "\n")
    L.append("def compound : List (Str × Str) := " + lean_list(f"({chars(k)}, {chars(v)})" for k, v in comp.items()) + "\n")
    L.append("def supported : List Str := " + lean_list((chars(e) for e in sup), per_line=6) + "\n")
    L.append("def mimeMap : List (Str × Str) := " + lean_list(f"({chars(k)}, {chars(v)})" for k, v in mm.items()) + "\n")
    L.append("/-- rows of the README format tables: extensions documented together -/")
    L.append("def readmeRows : List (List Str) := " + lean_list("[" + ", ".join(chars(e) for e in r) + "]" for r in rows) + "\n")
    L.append("/-- translator cross-check notes (runtime value vs. source literal); must be empty -/")
    L.append("def notes : List String := " + lean_list(lean_str(n) for n in notes) + "\n")
    L.append("def tables : Tables := { registry, aliases, compound, supported, mimeMap }\n")
    L.append("end S2T.Gen.Router\n")
    return "\n".join(L)


