"""Function-level translator, HTML part (extends tools/gen/pyfun_paths.py / pyfun.py WITHOUT editing them).

Target: the handler methods of the two `html.parser.HTMLParser` subclasses of the library,
`html_extractor._HtmlTreeBuilder` (generator `PyHtmlTree`) and `epub_extractor._XhtmlTextExtractor` (generator
`PyEpubXhtml`), as state transformers on a record of the parser's own fields (Props/C17_Src.lean proves each of
them equal, through an explicit abstraction function, to the transition of S2T/Model/HtmlSkip.lean).

`FuncTrH(FuncTrX)` adds, construct by construct (new cases are tried first, everything else falls through to
pyfun_paths.py / pyfun.py unchanged; the modules of those files are translated by their own classes, so their output
is untouched).  Prelude: lean/S2T/Py/Html.lean (namespace `S2T.Py.Html`).

| Python | Lean |
|---|---|
| `self.f op= e` on a field of the method's record | `self := { self with f := self.f op e }` |
| `self.f.append(e)`, `self.f.pop()` (statement), `x = self.f.pop()` / `self.g = self.f.pop()` on a list held in a field | `self := { self with f := Py.listAppend self.f e }`, `let py_p ← Py.listPop self.f; self := { self with f := py_p.1 }; x := py_p.2` (`IndexError`).  The list in a field must have no second name: every load of such a field is checked (receiver of a method, subscripted, `len`, truthiness, `join`, iteration that does not mutate it); stored into another container (`self.tables.append(self._current_table)`) it is a MOVE: the very next statement executed must re-bind the field to a fresh list — otherwise a note |
| `self.m(a, …)` as a statement, `m` a translated method of the class that updates `self` | `self := m self a …` (`(← …)` if it can raise); a method that only calls such methods updates `self` itself |
| `@staticmethod` methods, `self.m(a)` of one | a plain function (checked: it is a `staticmethod` in the running class) |
| a dict literal whose keys are exactly those of a registered object type (`HEAPRECS`), as the right-hand side of an assignment | ALLOCATION: `let py_a := Html.alloc self.heap { tag := …, … }; self := { self with heap := py_a.2 }; let node : Ref := py_a.1` (the record of the method holds the heap; list values of the literal must be fresh lists) |
| `d["key"]` on a reference (local, list element `self.stack[-1]`, Optional field narrowed by `is not None`) | `(← Html.deref self.heap d).key` (`danglingRef` marker outside the heap) |
| `d["key"] += e`, `d["key"] = e`, `d["key"].append(e)` | `let py_r := d; let py_o ← Html.deref self.heap py_r; self := { self with heap := Html.store self.heap py_r { py_o with key := … } }` |
| narrowing `self.f is not None` / `if self.f:` on an Optional field of a method that updates `self` | as for parameters; the fact is dropped at every assignment to that field and at every call of a method that updates `self` |
| `a == b`, `a != b` between a `T` and an `Optional[T]` (`tag == self._skip_tag`) | `(some a == b)` |
| `x in ("td", "th")` (tuple / list / set literal of str constants) | `(["td", "th"].contains x)` |
| `{k: v for k, v in pairs if c}` (str keys and values) | `Html.dictOfPairs (List.map … (List.filter … pairs))`; when the value is an Optional narrowed by the condition: `(← List.mapM (fun (k, v) => do pure (k, (← Py.unwrap v))) …)` |
| `{}` | `[]` (typed by the place it is used in) |
| `s.strip()`, `s.split()` (no arguments) | `Html.strStrip`, `Html.strSplitWs` |
| an assigned parameter (`tag = tag.lower()`) | `let mut tag := tag` |
| `super().__init__(…)` where the direct base class is `html.parser.HTMLParser` | skipped (documented: the base class' own state is not part of the record) |

Like pyfun.py: nothing is approximated — an unknown construct appends to `notes`.
"""
from __future__ import annotations

import ast

from translate import chars, generator, lean_str
from gen import pyfun, pyfun_paths
from gen.pyfun import (ANNOT, BOOL, INT, MODULES, NONE, RECORDS, STR, UNK, Dict, Lst, Opt, Rec, SetT, Tup,
                       Unsupported, ident, lt)
from gen.pyfun_paths import INPLACE_METHODS, FuncTrX, ModTrX, _parents

# ----------------------------------------------------------------------------- tables (additive)
REF = Rec("HtmlNodeRef")
ANNOT.update({"List[Tuple[str, Optional[str]]]": Lst(Tup(STR, Opt(STR)))})

RECORDS.update({
    # a reference to a node dict of _HtmlTreeBuilder (an address in the heap of the parser record)
    "HtmlNodeRef": dict(lean="S2T.Py.Html.Ref", attrs={}, methods={}, heaprec="HtmlNode"),
    # html_extractor._HtmlTreeBuilder: the attributes __init__ assigns; `heap` = (record field, object type) of its dicts
    "HtmlTreeBuilder": dict(lean="S2T.Py.Html.TreeBuilder", settable=True, heap=("heap", "HtmlNode"),
                            attrs={"root": ("root", REF, False), "stack": ("stack", Lst(REF), False),
                                   "skip_depth": ("skipDepth", INT, False), "_skip_tag": ("skipTag", Opt(STR), False),
                                   "last_closed": ("lastClosed", Opt(REF), False)}, methods={}),
    # epub_extractor._XhtmlTextExtractor
    "XhtmlExtractor": dict(lean="S2T.Py.Html.XhtmlExtractor", settable=True,
                           attrs={"text_parts": ("textParts", Lst(STR), False), "skip_depth": ("skipDepth", INT, False),
                                  "_skip_tag": ("skipTag", Opt(STR), False), "in_block": ("inBlock", BOOL, False),
                                  "tables": ("tables", Lst(Lst(Lst(STR))), False),
                                  "_current_table": ("currentTable", Lst(Lst(STR)), False),
                                  "_current_row": ("currentRow", Lst(STR), False),
                                  "_current_cell": ("currentCell", Lst(STR), False),
                                  "_in_table": ("inTable", BOOL, False), "_in_cell": ("inCell", BOOL, False),
                                  "_title": ("title", STR, False), "_in_title": ("inTitle", BOOL, False)}, methods={}),
})
# dict literals that are objects with identity: key -> (structure field, type); `ref` = the type of a reference
HEAPRECS = {
    "HtmlNode": dict(lean="S2T.Py.Html.NodeObj", ref=REF,
                     keys={"tag": ("tag", STR), "attrs": ("attrs", Dict(STR, STR)), "children": ("children", Lst(REF)),
                           "text": ("text", STR), "tail": ("tail", STR)}),
}
# `super().__init__(…)` is skipped when the direct base class is one of these (its state is outside the records)
SKIPPED_BASE_INIT = {"html.parser.HTMLParser"}

HMODULES = {
    "PyHtmlTree": dict(
        src="sharepoint2text/parsing/extractors/html_extractor.py",
        pymod="sharepoint2text.parsing.extractors.html_extractor",
        imports=["S2T.Py.Html", "S2T.Gen.HtmlSkip"], uses=[],
        consts={"REMOVE_TAGS": ("S2T.Gen.HtmlSkip.htmlRemove", SetT(STR)),
                "_VOID_TAGS": ("S2T.Gen.HtmlSkip.htmlVoid", SetT(STR))},
        funcs=[(f"_HtmlTreeBuilder.{m}", {"types": {"self": Rec("HtmlTreeBuilder")}})
               for m in ("__init__", "handle_starttag", "handle_endtag", "handle_startendtag", "handle_data",
                         "handle_comment")]
        # `get_tree` returns the root dict: a reference (annotation `Dict`)
        + [("_HtmlTreeBuilder.get_tree", {"types": {"self": Rec("HtmlTreeBuilder")}, "ret": REF})]),
    "PyEpubXhtml": dict(
        src="sharepoint2text/parsing/extractors/epub_extractor.py",
        pymod="sharepoint2text.parsing.extractors.epub_extractor",
        imports=["S2T.Py.Html", "S2T.Gen.HtmlSkip"], uses=[],
        consts={"REMOVE_TAGS": ("S2T.Gen.HtmlSkip.epubRemove", SetT(STR)),
                "_VOID_TAGS": ("S2T.Gen.HtmlSkip.epubVoid", SetT(STR)),
                "BLOCK_TAGS": ("S2T.Gen.HtmlSkip.epubBlock", SetT(STR))},
        funcs=[("_XhtmlTextExtractor._normalize_ws", {})]
        + [(f"_XhtmlTextExtractor.{m}", {"types": {"self": Rec("XhtmlExtractor")}})
           for m in ("__init__", "handle_starttag", "handle_endtag", "handle_startendtag", "handle_data")]),
}
MODULES.update(HMODULES)


def _root_name(e):
    """the name an attribute / subscript / call-receiver chain starts from"""
    while isinstance(e, (ast.Attribute, ast.Subscript)):
        e = e.value
    return e.id if isinstance(e, ast.Name) else None


# ----------------------------------------------------------------------------- one function
class FuncTrH(FuncTrX):
    def __init__(self, mod, node, opts, qualname=None):
        super().__init__(mod, node, opts, qualname)
        self.par = _parents(node)
        self.where: dict = {}          # statement -> (owner node, statement list, index)
        for owner in ast.walk(node):
            for fld in ("body", "orelse", "finalbody"):
                lst = getattr(owner, fld, None)
                if isinstance(lst, list) and lst and isinstance(lst[0], ast.stmt):
                    for i, s in enumerate(lst):
                        self.where[s] = (owner, lst, i)

    # ---- the record of `self`
    def self_rec(self):
        t = self.vars.get("self", UNK)
        return RECORDS.get(t[1]) if self.cls and t[0] == "rec" else None

    def heap_field(self, heaprec, node):
        cfg = self.self_rec()
        if not cfg or cfg.get("heap", (None, None))[1] != heaprec or not self.self_mut:
            raise Unsupported(f"an object of type {heaprec} is used in a function whose `self` record holds no heap of them")
        return cfg["heap"][0]

    def list_fields(self):
        cfg = self.self_rec()
        return {a for a, (_, ft, _) in cfg["attrs"].items() if ft[0] == "list"} if cfg else set()

    def is_static_method(self, m):
        return bool(self.cls) and f"{self.cls}.{m}" in self.mod.static_methods

    # ---- analysis
    def updates_self(self, n) -> bool:
        """does the node `n` change the state reachable from `self` (fields, lists in fields, objects in its heap)?"""
        if isinstance(n, (ast.Assign, ast.AugAssign, ast.AnnAssign)):
            tgts = n.targets if isinstance(n, ast.Assign) else [n.target]
            for t in tgts:
                if self.is_self_attr(t):
                    return True
                if isinstance(t, ast.Subscript) and self.self_has_heap():
                    return True                      # a store into an object of the heap
        if isinstance(n, ast.Call) and isinstance(n.func, ast.Attribute):
            if n.func.attr in INPLACE_METHODS and (_root_name(n.func.value) == "self" or
                                                   (isinstance(n.func.value, ast.Subscript) and self.self_has_heap())):
                return True
            if self.is_self_attr(n.func) and f"{self.cls}.{n.func.attr}" in self.mod.self_mut_methods:
                return True
        if isinstance(n, ast.Dict) and self.self_has_heap() and self.heaprec_of_literal(n) is not None:
            return True                              # allocation
        return False

    def self_has_heap(self):
        t = self.opts.get("types", {}).get("self")
        return bool(self.cls and t and t[0] == "rec" and RECORDS[t[1]].get("heap"))

    def heaprec_of_literal(self, e: ast.Dict):
        if not e.keys or not all(isinstance(k, ast.Constant) and isinstance(k.value, str) for k in e.keys):
            return None
        ks = [k.value for k in e.keys]
        for name, cfg in HEAPRECS.items():
            if sorted(ks) == sorted(cfg["keys"]) and len(set(ks)) == len(ks):
                return name
        return None

    def analyse(self):
        if self.cls and "self" in self.vars:
            self.self_mut = self.self_mut or any(self.updates_self(n) for n in ast.walk(self.node))
        super().analyse()
        params = {a.arg for a in list(self.node.args.args) + list(self.node.args.kwonlyargs)} - {"self"}
        for n in ast.walk(self.node):
            if isinstance(n, ast.Name) and isinstance(n.ctx, ast.Store) and n.id in params:
                self.mut.add(n.id)          # an assigned parameter is a local initialised with the argument
        self.check_field_lists()

    # ---- alias discipline for lists held in fields of `self`
    def next_stmt(self, st):
        """the statement executed after `st` when `st` falls out of its end (None: end of the function / a loop)"""
        while True:
            loc = self.where.get(st)
            if loc is None:
                return None
            owner, lst, i = loc
            if i + 1 < len(lst):
                return lst[i + 1]
            if isinstance(owner, ast.If):
                st = owner
                continue
            return None

    def stmt_of(self, n):
        while n is not None and not isinstance(n, ast.stmt):
            n = self.par.get(n)
        return n

    def list_use_ok(self, n, what) -> bool:
        """a load `n` of a list that is mutated in place (held in a field / in a heap object): can it create an alias?"""
        p = self.par.get(n)
        if isinstance(p, ast.Attribute) and p.value is n:
            return True                                 # receiver of a method call
        if isinstance(p, ast.Subscript) and p.value is n:
            return True
        if isinstance(p, (ast.If, ast.While, ast.IfExp)) and p.test is n:
            return True
        if isinstance(p, (ast.BoolOp, ast.Compare)) or (isinstance(p, ast.UnaryOp) and isinstance(p.op, ast.Not)):
            return True
        if isinstance(p, ast.Call) and n in p.args and (
                (isinstance(p.func, ast.Name) and p.func.id in ("len", "bool", "list", "tuple", "max", "min", "any", "all", "sorted"))
                or (isinstance(p.func, ast.Attribute) and p.func.attr == "join")):
            return True
        if isinstance(p, (ast.For, ast.comprehension)) and p.iter is n:
            body = p.body if isinstance(p, ast.For) else []
            return not any(isinstance(m, ast.Call) and isinstance(m.func, ast.Attribute) and m.func.attr in INPLACE_METHODS
                           and ast.dump(m.func.value) == ast.dump(n) for s in body for m in ast.walk(s))
        if isinstance(p, ast.Call) and isinstance(p.func, ast.Attribute) and p.func.attr == "append" and n in p.args \
                and self.is_self_attr(n):
            # MOVE: the list goes into another container; the field must be re-bound to a fresh list at once
            nxt = self.next_stmt(self.stmt_of(p))
            if isinstance(nxt, (ast.Assign, ast.AnnAssign)) and nxt.value is not None:
                tg = nxt.targets if isinstance(nxt, ast.Assign) else [nxt.target]
                if len(tg) == 1 and self.is_self_attr(tg[0]) and tg[0].attr == n.attr and self.fresh_list(nxt.value):
                    return True
            return False
        return False

    def check_field_lists(self):
        lf = self.list_fields()
        if not lf:
            return
        for n in ast.walk(self.node):
            if isinstance(n, ast.Attribute) and isinstance(n.ctx, ast.Load) and self.is_self_attr(n) and n.attr in lf:
                if not self.list_use_ok(n, f"self.{n.attr}"):
                    self.note(n, f"the list in `self.{n.attr}` is mutated in place by the class and is used here where an "
                                 f"alias could be created ({type(self.par.get(n)).__name__}); aliasing of lists is not modelled")
            if isinstance(n, (ast.Assign, ast.AnnAssign)) and n.value is not None:
                tg = n.targets if isinstance(n, ast.Assign) else [n.target]
                for t in tg:
                    if self.is_self_attr(t) and t.attr in lf and not self.fresh_list(n.value):
                        self.note(n, f"`self.{t.attr}` holds a list that is mutated in place but is bound to a value that may "
                                     f"be shared ({ast.unparse(n.value)[:40]})")

    # ---- narrowing of Optional fields of `self` in methods that update `self`
    def attr_key(self, e):
        if isinstance(e, ast.Attribute) and isinstance(e.value, ast.Name) and e.value.id == "self" and self.cls \
                and self.self_mut:
            cfg = self.self_rec()
            a = cfg["attrs"].get(e.attr) if cfg else None
            return f"self.{e.attr}" if a and a[1][0] == "opt" else None
        return super().attr_key(e)

    def kill_self(self, attr=None):
        for s in self.narrow:
            for k in list(s):
                if (attr is None and k.startswith("self.")) or k == f"self.{attr}":
                    s.discard(k)

    # ---- comparisons
    def str_literals(self, node):
        if isinstance(node, (ast.Tuple, ast.List, ast.Set)) and node.elts \
                and all(isinstance(x, ast.Constant) and isinstance(x.value, str) for x in node.elts):
            return "[" + ", ".join(chars(x.value) for x in node.elts) + "]"
        return None

    def compare(self, e):
        if len(e.ops) == 1:
            op, rn = e.ops[0], e.comparators[0]
            if isinstance(op, (ast.In, ast.NotIn)) and self.str_literals(rn) and not self.const_char(e.left):
                snap = self.snapshot()
                a, ta, ea = self.expr(e.left)
                if ta == STR:
                    c = f"({self.str_literals(rn)}.contains {a})"
                    return (c if isinstance(op, ast.In) else f"(!{c})"), ea
                self.restore(snap)
            if isinstance(op, (ast.Eq, ast.NotEq)):
                snap = self.snapshot()
                a, ta, ea = self.expr(e.left)
                b, tb, eb = self.expr(rn)
                c = None
                if tb[0] == "opt" and tb[1] == ta and ta in (STR, INT, BOOL):
                    c = f"(some {a} == {b})"
                elif ta[0] == "opt" and ta[1] == tb and tb in (STR, INT, BOOL):
                    c = f"({a} == some {b})"
                if c is not None:
                    return (c if isinstance(op, ast.Eq) else f"(!{c})"), ea or eb
                self.restore(snap)
        return super().compare(e)

    # ---- coercions: `{}` at any dict type
    def coerce(self, code, t, want, node):
        if t == Dict(UNK, UNK) and want is not None and want[0] == "dict":
            return code
        return super().coerce(code, t, want, node)

    # ---- expressions
    def ref_subscript(self, e):
        """`X["key"]` where X is a reference to a heap object -> (code of X, eff, heaprec name, key) or None"""
        if not (isinstance(e, ast.Subscript) and isinstance(e.slice, ast.Constant) and isinstance(e.slice.value, str)):
            return None
        snap = self.snapshot()
        c, t, eff = self.expr(e.value)
        if t[0] == "rec" and RECORDS[t[1]].get("heaprec"):
            hr = RECORDS[t[1]]["heaprec"]
            if e.slice.value not in HEAPRECS[hr]["keys"]:
                raise Unsupported(f"key {e.slice.value!r} on an object of type {hr}")
            return c, eff, hr, e.slice.value
        self.restore(snap)
        return None

    def _expr_x(self, e):
        rs = self.ref_subscript(e) if isinstance(e, ast.Subscript) else None
        if rs is not None:
            c, eff, hr, key = rs
            fld, ft = HEAPRECS[hr]["keys"][key]
            hf = self.heap_field(hr, e)
            if ft[0] == "list" and not self.list_use_ok(e, f"[{key!r}]"):
                self.note(e, f"the list `{ast.unparse(e)[:40]}` lives in an object and is used here where an alias could "
                             f"be created ({type(self.par.get(e)).__name__}); aliasing of lists is not modelled")
            self.eff = True
            return f"(← S2T.Py.Html.deref self.{hf} {c}).{fld}", ft, True
        if isinstance(e, ast.Dict):
            if not e.keys:
                return "[]", Dict(UNK, UNK), False     # `{}`: typed by the place it is used in
            if self.heaprec_of_literal(e) is not None:
                raise Unsupported("an object literal (allocation) is translated only as the right-hand side of an assignment")
            raise Unsupported("dict literal")
        if isinstance(e, ast.DictComp):
            return self.dict_comp(e)
        return super()._expr_x(e)

    def dict_comp(self, e: ast.DictComp):
        if len(e.generators) != 1 or e.generators[0].is_async:
            raise Unsupported("dict comprehension shape (one `for` only)")
        gen = e.generators[0]
        it, tel, eff = self.iterable(gen.iter)
        tg = gen.target
        if not (isinstance(tg, ast.Tuple) and tel[0] == "tuple" and len(tg.elts) == len(tel[1])
                and all(isinstance(x, ast.Name) for x in tg.elts)):
            raise Unsupported("dict comprehension target shape")
        names = [x.id for x in tg.elts]
        if any(n in self.vars for n in names):
            raise Unsupported("comprehension variable shadows a local")
        pat = "((" + ", ".join(ident(n) for n in names) + f") : {lt(tel)})"
        for n, t in zip(names, tel[1]):
            self.vars[n] = t
        try:
            self.narrow.append(set())
            for c in gen.ifs:
                cc, ec = self.cond(c)
                if ec:
                    raise Unsupported("comprehension condition that may raise")
                it = f"(List.filter (fun {pat} => {cc}) {it})"
                self.narrow[-1] |= self.facts(c, True)
            k, tk, ek = self.expr(e.key)
            v, tv, ev = self.expr(e.value)
            self.narrow.pop()
        finally:
            for n in names:
                self.vars.pop(n, None)
        if tk != STR or tv != STR:
            raise Unsupported(f"dict comprehension with keys / values of types {lt(tk)} / {lt(tv)} (only str ↦ str)")
        if ek or ev:
            self.eff = True
            body = f"(← List.mapM (fun {pat} => (do pure ({k}, {v}) : S2T.Py.M ({lt(tk)} × {lt(tv)}))) {it})"
            return f"(S2T.Py.Html.dictOfPairs {body})", Dict(STR, STR), True
        return f"(S2T.Py.Html.dictOfPairs (List.map (fun {pat} => ({k}, {v})) {it}))", Dict(STR, STR), eff

    # ---- method calls
    def _method_x(self, e):
        f = e.func
        m = f.attr
        if self.is_self_attr(f) and self.is_static_method(m) and f"{self.cls}.{m}" in self.mod.sigs:
            sig = self.mod.sigs[f"{self.cls}.{m}"]
            self.mod.check_method(self.cls, m)
            return self.apply_sig(sig, self.fn_value(sig), e)
        if m in ("strip", "split") and not e.args and not e.keywords:
            snap = self.snapshot()
            c, t, eff = self.expr(f.value)
            if t == STR:
                if m == "strip":
                    return f"(S2T.Py.Html.strStrip {c})", STR, eff
                return f"(S2T.Py.Html.strSplitWs {c})", Lst(STR), eff
            self.restore(snap)
        return super()._method_x(e)

    # ---- statements
    def set_self(self, attr, code, t, node, out, ind):
        cfg = self.self_rec()
        if not cfg or not cfg.get("settable") or attr not in cfg["attrs"]:
            raise Unsupported(f"assignment to self.{attr}")
        lf, ft, _ = cfg["attrs"][attr]
        out.append(f"{ind}self := {{ self with {lf} := {self.coerce(code, t, ft, node)} }}")
        self.kill_self(attr)
        if t != NONE and ft[0] == "opt" and ft[1] == t:
            self.narrow[-1].add(f"self.{attr}")

    def bind(self, target, code, t, node, out, ind):
        """`target = <value already computed>` for a local name or a field of `self`"""
        if self.is_self_attr(target):
            self.set_self(target.attr, code, t, node, out, ind)
        elif isinstance(target, ast.Name):
            self.assign_to(target, code, t, node, out, ind)
        else:
            raise Unsupported(f"assignment target {ast.unparse(target)}")

    def heap_update(self, sub, make_new, node, out, ind):
        """`X["key"] ← make_new(old value)`: one deref, one store at the same address"""
        rs = self.ref_subscript(sub)
        if rs is None:
            raise Unsupported(f"store into {ast.unparse(sub)[:50]}")
        c, eff, hr, key = rs
        fld, ft = HEAPRECS[hr]["keys"][key]
        hf = self.heap_field(hr, node)
        self.tmp += 1
        k = self.tmp
        self.eff = True
        out.append(f"{ind}let py_r{k} : {lt(HEAPRECS[hr]['ref'])} := {c}")
        out.append(f"{ind}let py_o{k} : {HEAPRECS[hr]['lean']} := (← S2T.Py.Html.deref self.{hf} py_r{k})")
        new = make_new(f"py_o{k}.{fld}", ft, k)
        out.append(f"{ind}self := {{ self with {hf} := S2T.Py.Html.store self.{hf} py_r{k} {{ py_o{k} with {fld} := {new} }} }}")

    def binop_with_old(self, op, old_code, old_t, value, node, out, ind, k):
        """`old op value` through the ordinary expression translation (the old value is a temporary local)"""
        tmpn = f"py_v{k}"
        out.append(f"{ind}let {tmpn} : {lt(old_t)} := {old_code}")
        self.vars[tmpn] = old_t
        self.declared.add(tmpn)
        try:
            b = ast.copy_location(ast.BinOp(left=ast.Name(id=tmpn, ctx=ast.Load()), op=op, right=value), node)
            ast.fix_missing_locations(b)
            c, t, eff = self.expr(b)
        finally:
            self.vars.pop(tmpn, None)
            self.declared.discard(tmpn)
        return self.coerce(c, t, old_t, node)

    def _stmt_x(self, st, out, ind, in_loop, in_try) -> bool:
        if self._stmt_h(st, out, ind, in_loop, in_try):
            return True
        return super()._stmt_x(st, out, ind, in_loop, in_try)

    def _stmt_h(self, st, out, ind, in_loop, in_try) -> bool:
        # ---- assignments
        if isinstance(st, (ast.Assign, ast.AnnAssign)) and st.value is not None:
            targets = st.targets if isinstance(st, ast.Assign) else [st.target]
            if len(targets) != 1:
                return False
            tg, val = targets[0], st.value
            # object literal: allocation in the heap of `self`
            if isinstance(val, ast.Dict) and self.heaprec_of_literal(val) is not None:
                hr = self.heaprec_of_literal(val)
                cfg = HEAPRECS[hr]
                hf = self.heap_field(hr, st)
                flds = []
                for kn, vn in zip(val.keys, val.values):
                    fld, ft = cfg["keys"][kn.value]
                    if ft[0] == "list" and not self.fresh_list(vn):
                        self.note(vn, f"the list stored under {kn.value!r} of a new object may be shared "
                                      f"({ast.unparse(vn)[:40]}); aliasing of lists is not modelled")
                    c, t, eff = self.expr(vn)
                    flds.append(f"{fld} := {self.coerce(c, t, ft, st)}")
                self.tmp += 1
                k = self.tmp
                out.append(f"{ind}let py_a{k} := S2T.Py.Html.alloc self.{hf} ({{ " + ", ".join(flds) + f" }} : {cfg['lean']})")
                out.append(f"{ind}self := {{ self with {hf} := py_a{k}.2 }}")
                self.bind(tg, f"py_a{k}.1", cfg["ref"], st, out, ind)
                return True
            # x = self.f.pop()
            if isinstance(val, ast.Call) and isinstance(val.func, ast.Attribute) and val.func.attr == "pop" \
                    and not val.args and not val.keywords and self.is_self_attr(val.func.value) \
                    and val.func.value.attr in self.list_fields():
                lf, ft, _ = self.self_rec()["attrs"][val.func.value.attr]
                self.tmp += 1
                k = self.tmp
                self.eff = True
                out.append(f"{ind}let py_p{k} : {lt(Tup(ft, ft[1]))} := (← S2T.Py.listPop self.{lf})")
                out.append(f"{ind}self := {{ self with {lf} := py_p{k}.1 }}")
                self.bind(tg, f"py_p{k}.2", ft[1], st, out, ind)
                return True
            # self.f = e  (also with an annotation)
            if self.is_self_attr(tg):
                c, t, eff = self.expr(val)
                self.set_self(tg.attr, c, t, st, out, ind)
                return True
            # X["key"] = e  on an object of the heap
            if isinstance(tg, ast.Subscript) and self.self_has_heap() and isinstance(tg.slice, ast.Constant):
                def new(old, ft, k):
                    c, t, eff = self.expr(val)
                    return self.coerce(c, t, ft, st)
                self.heap_update(tg, new, st, out, ind)
                return True
            return False
        if isinstance(st, ast.AugAssign):
            tg = st.target
            if self.is_self_attr(tg):
                e = ast.copy_location(ast.BinOp(left=ast.Attribute(value=tg.value, attr=tg.attr, ctx=ast.Load()),
                                                op=st.op, right=st.value), st)
                ast.fix_missing_locations(e)
                c, t, eff = self.expr(e)
                self.set_self(tg.attr, c, t, st, out, ind)
                return True
            if isinstance(tg, ast.Subscript) and self.self_has_heap() and isinstance(tg.slice, ast.Constant):
                self.heap_update(tg, lambda old, ft, k: self.binop_with_old(st.op, old, ft, st.value, st, out, ind, k),
                                 st, out, ind)
                return True
            return False
        # ---- expression statements: calls
        if isinstance(st, ast.Expr) and isinstance(st.value, ast.Call) and isinstance(st.value.func, ast.Attribute) \
                and not self.is_logging(st):
            call = st.value
            f = call.func
            m = f.attr
            # super().__init__(…) of a base class whose state is outside the record
            if m == "__init__" and isinstance(f.value, ast.Call) and isinstance(f.value.func, ast.Name) \
                    and f.value.func.id == "super" and not f.value.args and self.cls and self.node.name == "__init__":
                base = self.mod.direct_base(self.cls)
                if base not in SKIPPED_BASE_INIT:
                    raise Unsupported(f"super().__init__ of {base}")
                self.remarks.append(f"`super().__init__(…)` of {base}: the base class' own state is not part of the "
                                    "record; the call was not translated")
                return True
            # self.f.append(e) / self.f.pop()
            if m in INPLACE_METHODS and self.is_self_attr(f.value) and f.value.attr in self.list_fields():
                lf, ft, _ = self.self_rec()["attrs"][f.value.attr]
                if call.keywords:
                    raise Unsupported(f"keyword arguments in .{m}()")
                if m == "append" and len(call.args) == 1:
                    c, t, eff = self.expr(call.args[0])
                    out.append(f"{ind}self := {{ self with {lf} := (S2T.Py.listAppend self.{lf} {self.coerce(c, t, ft[1], st)}) }}")
                    return True
                if m == "pop" and not call.args:
                    self.eff = True
                    out.append(f"{ind}self := {{ self with {lf} := (← S2T.Py.listPop self.{lf}).1 }}")
                    return True
                raise Unsupported(f".{m}() with these arguments")
            # X["key"].append(e) on an object of the heap
            if m == "append" and isinstance(f.value, ast.Subscript) and self.self_has_heap() and len(call.args) == 1 \
                    and not call.keywords:
                def new(old, ft, k):
                    if ft[0] != "list":
                        raise Unsupported(f".append on a value of type {lt(ft)}")
                    c, t, eff = self.expr(call.args[0])
                    return f"(S2T.Py.listAppend {old} {self.coerce(c, t, ft[1], st)})"
                self.heap_update(f.value, new, st, out, ind)
                return True
            # self.m(…): a translated method of the class
            if self.is_self_attr(f) and f"{self.cls}.{m}" in self.mod.sigs:
                c, t, eff = self.expr(call)
                if f"{self.cls}.{m}" in self.mod.self_mut_methods:
                    out.append(f"{ind}self := {c}")
                    self.kill_self()
                elif eff:
                    out.append(f"{ind}let _ := {c}")
                return True
        return False

    # ---- the function
    def translate(self):
        decos = list(self.node.decorator_list)
        static = [d for d in decos if isinstance(d, ast.Name) and d.id == "staticmethod"]
        if static:
            self.mod.check_static(self.name)
            self.node.decorator_list = [d for d in decos if d not in static]
        try:
            text, sig = super().translate()
        finally:
            self.node.decorator_list = decos
        if static:
            self.mod.static_methods.add(self.name)
        if self.self_mut:
            self.mod.self_mut_methods.add(self.name)
        return text, sig


# ----------------------------------------------------------------------------- one module
class ModTrH(ModTrX):
    def __init__(self, name):
        super().__init__(name)
        self.self_mut_methods: set = set()
        self.static_methods: set = set()

    def check_static(self, qual):
        cname, m = qual.rsplit(".", 1)
        c = getattr(self.pymod, cname, None)
        if not (isinstance(c, type) and isinstance(vars(c).get(m), staticmethod)):
            self.notes.append(f"{self.cfg['src']}: `{qual}` is not a staticmethod of the running class")

    def direct_base(self, cname):
        c = getattr(self.pymod, cname, None)
        if not isinstance(c, type) or len(c.__mro__) < 2:
            return "?"
        b = c.__mro__[1]
        return f"{b.__module__}.{b.__qualname__}"

    def run(self):
        # ModTrX.run instantiates the function translator by its module-level name: bind that name to the
        # subclass for the duration of this module only (pyfun_paths.py itself is not edited)
        saved = pyfun_paths.FuncTrX
        pyfun_paths.FuncTrX = FuncTrH
        try:
            return super().run()
        finally:
            pyfun_paths.FuncTrX = saved


def translate_module(name):
    if name not in HMODULES:
        return pyfun_paths.translate_module(name)
    if name not in pyfun._DONE:
        m = ModTrH(name)
        text = m.run()
        pyfun._DONE[name] = {"text": text, "sigs": m.sigs, "notes": m.notes}
    return pyfun._DONE[name]


def _mk(name):
    def gen():
        return translate_module(name)["text"]
    gen.__name__ = "gen_" + name
    return gen


for _name in HMODULES:
    generator(_name)(_mk(_name))
