"""C06: process-global state an extraction could read back later -> S2T/Gen/ModState.lean

"The result does not depend on what was extracted earlier in the process" needs a closed world of
the places where something can survive one extraction call.  Emitted from the CURRENT tree:

1. mutables        (file, name, type, deep)  every name bound in a package module (defined there OR
                   imported into it) whose *runtime* value is a mutable container; `deep` = some value
                   stored inside is itself a mutable container.  Class-level container attributes are
                   listed as `Class.attr`.
2. escapes         (file, function, kind, name)  every occurrence of such a name that is not a provable
                   read: mutating method, subscript store/del, augmented assignment, **alias** (the object
                   itself bound to a local, an attribute, a container element, a default value), return /
                   yield of the object, the object passed to a callee that is not a known copying/reading
                   builtin, an element of a `deep` table bound or passed on, unknown attribute use.
                   Reads that are NOT listed: T[k] / T.get / k in T / iteration / len / sorted / dict(T) /
                   list(T) / set(T) / T.items()/keys()/values()/copy() / x.update(T) / **T / T | U.
                   Module-level statements (import-time table construction) are listed with function
                   "<module>".
3. mutableDefaults (file, function, parameter)  parameters whose default is a mutable display / constructor.
4. rebinds         (file, function, name)  `global X` / `nonlocal`-free rebinding of module globals inside functions.
5. memos           (file, function, decorator)  functools cache decorators.
6. attrStores      (file, function, target)  stores into attributes of modules / classes / functions
                   (objects that outlive the call), `setattr`/`delattr`/`globals()`/`vars()`/`__dict__` uses.

Granularity: no line numbers, so re-formatting is silent; a new cell, a new writer, a new alias is not.
"""
import ast
import importlib
import os
import types

from translate import HEADER, REPO, generator, lean_list, lean_str

MUTABLE_TYPES = ("dict", "list", "set", "OrderedDict", "defaultdict", "bytearray", "deque", "Counter", "ChainMap")
MUT_METHODS = {"append", "add", "update", "pop", "popitem", "clear", "move_to_end", "setdefault", "extend", "insert",
               "remove", "discard", "sort", "reverse", "appendleft", "popleft", "__setitem__", "__delitem__",
               "__ior__", "__iadd__", "intersection_update", "difference_update", "symmetric_difference_update",
               "rotate", "subtract"}
READ_METHODS = {"get", "items", "keys", "values", "copy", "index", "count", "union", "intersection", "difference",
                "symmetric_difference", "issubset", "issuperset", "isdisjoint", "__contains__", "__getitem__", "__len__"}
# callees that only read / copy an argument (builtins and methods), never keep a reference to it
PURE_FUNCS = {"len", "sorted", "set", "frozenset", "dict", "list", "tuple", "any", "all", "sum", "min", "max", "enumerate",
              "iter", "zip", "map", "filter", "isinstance", "bool", "repr", "str", "reversed", "next", "print", "id", "type"}
PURE_ARG_METHODS = {"update", "extend", "union", "intersection", "difference", "issubset", "issuperset", "isdisjoint",
                    "startswith", "endswith", "translate", "join", "maketrans", "intersection_update", "difference_update",
                    "symmetric_difference", "get", "findall", "find", "iterfind", "findtext", "xpath"}
SKIP_CLASS_ATTRS = {"__dataclass_fields__", "__annotations__", "__dict__", "__slots__", "__match_args__",
                    "__abstractmethods__", "__parameters__", "__orig_bases__", "__dataclass_params__", "__static_attributes__",
                    "__firstlineno__", "_abc_impl", "__protocol_attrs__", "__non_callable_proto_members__"}


def _package_files():
    root = os.path.join(REPO, "sharepoint2text")
    for dp, dns, fns in os.walk(root):
        dns[:] = sorted(d for d in dns if d not in ("tests", "__pycache__"))
        for fn in sorted(fns):
            if fn.endswith(".py"):
                yield os.path.relpath(os.path.join(dp, fn), REPO)


def _modname(rel):
    m = rel[:-3].replace(os.sep, ".")
    return m[: -len(".__init__")] if m.endswith(".__init__") else m


def _is_mut(v):
    return type(v).__name__ in MUTABLE_TYPES


def _deep(v):
    """holds inner mutable containers now, or is empty at import time (a cache / registry filled later: what it
    will hold is not known here, so the elements it hands out are tracked too)"""
    try:
        if len(v) == 0:
            return True
        if isinstance(v, dict):
            return any(_is_mut(x) for x in v.values())
        if isinstance(v, (list, set)) or type(v).__name__ == "deque":
            return any(_is_mut(x) for x in v)
    except Exception:
        return True
    return False


def _parents(tree):
    par = {}
    for n in ast.walk(tree):
        for c in ast.iter_child_nodes(n):
            par[c] = n
    return par


def _enclosing(par, n):
    """'<module>' or the OUTERMOST enclosing function of a node ('Class.method' for methods); decorators and
    default values belong to the enclosing scope of the def, as in Python"""
    fn = "<module>"
    cur = n
    while cur in par:
        p = par[cur]
        if isinstance(p, (ast.FunctionDef, ast.AsyncFunctionDef)) and cur not in p.decorator_list and cur is not p.args:
            gp = par.get(p)
            fn = (gp.name + "." if isinstance(gp, ast.ClassDef) else "") + p.name
        cur = p
    return fn


def _classify(par, node, deep):
    """node: an expression denoting a tracked mutable object.  Returns the list of (kind, detail) of non-read
    uses; [] when the use is a plain read."""
    p = par.get(node)
    if p is None:
        return []
    # transparent wrappers: the value of the parent may BE the object
    if isinstance(p, (ast.IfExp, ast.BoolOp)) and (not isinstance(p, ast.IfExp) or node is not p.test):
        return _classify(par, p, deep)
    if isinstance(p, ast.NamedExpr) and node is p.value:
        return [("alias", ast.unparse(p.target))]
    if isinstance(p, ast.Subscript) and node is p.value:
        if isinstance(p.ctx, ast.Store):
            return [("store", "[]")]
        if isinstance(p.ctx, ast.Del):
            return [("del", "[]")]
        return _classify_element(par, p) if deep else []
    if isinstance(p, ast.Attribute) and node is p.value:
        gp = par.get(p)
        if isinstance(gp, ast.Call) and gp.func is p:
            if p.attr in MUT_METHODS:
                return [("mutate", p.attr)]
            if p.attr in READ_METHODS:
                if deep and p.attr in ("get", "values", "items", "copy", "__getitem__"):
                    return _classify_element(par, gp)
                return []
            return [("method", p.attr)]
        if isinstance(p.ctx, (ast.Store, ast.Del)):
            return [("attrstore", p.attr)]
        return [("attr", p.attr)]
    if isinstance(p, ast.Compare) and node in p.comparators:
        return []
    if isinstance(p, ast.Compare):      # T == other / T is other
        return []
    if isinstance(p, (ast.For, ast.AsyncFor, ast.comprehension)) and node is p.iter:
        return _classify_loopvar(par, p) if deep else []
    if isinstance(p, ast.Call) and (node in p.args or any(k.value is node for k in p.keywords)):
        f = p.func
        if isinstance(f, ast.Name) and f.id in PURE_FUNCS:
            return []
        if isinstance(f, ast.Attribute) and f.attr in PURE_ARG_METHODS:
            return []
        return [("passed", ast.unparse(f)[:40])]
    if isinstance(p, ast.Starred):
        return []
    if isinstance(p, ast.keyword) and p.arg is None:     # **T
        return []
    if isinstance(p, ast.keyword):
        call = par[p]
        if isinstance(call, ast.Call) and isinstance(call.func, ast.Name) and call.func.id in PURE_FUNCS:
            return []
        return [("passed", (ast.unparse(call.func)[:40] if isinstance(call, ast.Call) else "?") + ":" + p.arg)]
    if isinstance(p, ast.Dict) and node in p.keys and None in p.keys:      # {**T}
        return []
    if isinstance(p, ast.Dict) and any(k is None and v is node for k, v in zip(p.keys, p.values)):
        return []
    if isinstance(p, ast.BinOp):
        return []
    if isinstance(p, (ast.UnaryOp, ast.If, ast.While, ast.Assert, ast.JoinedStr, ast.FormattedValue)):
        return []                                   # truth value / formatting
    if isinstance(p, ast.IfExp):                    # the test position
        return []
    if isinstance(p, ast.Expr):
        return []
    if isinstance(p, ast.AugAssign):
        return [("augassign", ast.unparse(p.target))] if node is p.target else []
    if isinstance(p, (ast.Assign, ast.AnnAssign)):
        tg = p.targets if isinstance(p, ast.Assign) else [p.target]
        if node is getattr(p, "value", None):
            return [("alias", ",".join(ast.unparse(t) for t in tg)[:40])]
        return []
    if isinstance(p, (ast.Return, ast.Yield, ast.YieldFrom)):
        return [("return", "")]
    if isinstance(p, (ast.Tuple, ast.List, ast.Set, ast.Dict)):
        return [("alias", "in-" + type(p).__name__.lower())]
    if isinstance(p, ast.arguments):
        return [("default", "")]
    if isinstance(p, ast.Lambda):
        return [("return", "lambda")]
    if isinstance(p, ast.Await):
        return []
    return [("other", type(p).__name__)]


def _classify_element(par, elem):
    """elem: expression yielding an ELEMENT of a deep table (itself a mutable container)"""
    return [(k if k in ("store", "del", "mutate", "augassign") else "elem-" + k, d) for k, d in _classify(par, elem, False)]


def _classify_loopvar(par, loop):
    """iteration over a deep table hands out its inner containers through the loop variable: any non-read use
    of the loop variable counts"""
    out = []
    names = {t.id for t in ast.walk(loop.target) if isinstance(t, ast.Name)}
    scope = par.get(loop)
    while scope is not None and not isinstance(scope, (ast.FunctionDef, ast.AsyncFunctionDef, ast.Module, ast.ListComp,
                                                        ast.SetComp, ast.DictComp, ast.GeneratorExp, ast.For)):
        scope = par.get(scope)
    if scope is None:
        return out
    for n in ast.walk(scope):
        if isinstance(n, ast.Name) and n.id in names and isinstance(n.ctx, ast.Load):
            out += _classify_element(par, n)
    return out


def _locals_of(fn):
    """names that are local in a function (parameters, plain assignments without `global`)"""
    globs, loc = set(), set()
    for n in ast.walk(fn):
        if isinstance(n, ast.Global):
            globs |= set(n.names)
    for a in ast.walk(fn.args):
        if isinstance(a, ast.arg):
            loc.add(a.arg)
    for n in ast.walk(fn):
        if isinstance(n, ast.Name) and isinstance(n.ctx, (ast.Store, ast.Del)) and n.id not in globs:
            loc.add(n.id)
    return loc, globs


def scan_module(rel):
    with open(os.path.join(REPO, rel), encoding="utf-8") as fh:
        tree = ast.parse(fh.read(), filename=rel)
    mod = importlib.import_module(_modname(rel))
    par = _parents(tree)
    mutables, escapes, defaults, rebinds, memos, stores = [], set(), set(), set(), set(), set()
    tracked = {}
    for name, val in sorted(vars(mod).items()):
        if name.startswith("__"):
            continue
        if _is_mut(val):
            tracked[name] = _deep(val)
            mutables.append((rel, name, type(val).__name__, _deep(val)))
    modules = {n: v for n, v in vars(mod).items() if isinstance(v, types.ModuleType)}
    classes = {n: v for n, v in vars(mod).items() if isinstance(v, type) and getattr(v, "__module__", None) == mod.__name__}
    class_attrs = {}
    for cn, cls in sorted(classes.items()):
        for an, av in sorted(vars(cls).items()):
            if an in SKIP_CLASS_ATTRS or an.startswith("_abc_"):
                continue
            if _is_mut(av):
                class_attrs.setdefault(an, []).append((cn, _deep(av)))
                mutables.append((rel, cn + "." + an, type(av).__name__, _deep(av)))
    # function-local shadowing
    shadow = {}
    for f in ast.walk(tree):
        if isinstance(f, (ast.FunctionDef, ast.AsyncFunctionDef, ast.Lambda)):
            if isinstance(f, ast.Lambda):
                loc, globs = {a.arg for a in ast.walk(f.args) if isinstance(a, ast.arg)}, set()
            else:
                loc, globs = _locals_of(f)
                for g in sorted(globs):
                    for n in ast.walk(f):
                        if isinstance(n, ast.Name) and n.id == g and isinstance(n.ctx, (ast.Store, ast.Del)):
                            rebinds.add((rel, _enclosing(par, n), g))
            for n in ast.walk(f):
                shadow.setdefault(n, set())
                shadow[n] |= loc
    for n in ast.walk(tree):
        # (2) tracked objects
        root = None
        if isinstance(n, ast.Name) and n.id in tracked and n.id not in shadow.get(n, ()):
            if isinstance(n.ctx, ast.Load):
                root, nm, deep = n, n.id, tracked[n.id]
            elif par.get(n) is not None and not isinstance(par[n], (ast.Assign, ast.AnnAssign)) or _enclosing(par, n) != "<module>":
                escapes.add((rel, _enclosing(par, n), "rebind", n.id))
        elif isinstance(n, ast.Attribute) and isinstance(n.value, ast.Name):
            b = n.value.id
            if b in modules and b not in shadow.get(n, ()) and _is_mut(getattr(modules[b], n.attr, None)):
                root, nm, deep = n, b + "." + n.attr, _deep(getattr(modules[b], n.attr))
            elif n.attr in class_attrs and (b in ("self", "cls") or b in classes):
                root, nm, deep = n, class_attrs[n.attr][0][0] + "." + n.attr, any(d for _, d in class_attrs[n.attr])
        if root is not None:
            if isinstance(getattr(root, "ctx", None), (ast.Store, ast.Del)):
                escapes.add((rel, _enclosing(par, root), "attrstore", nm))
            else:
                for kind, detail in _classify(par, root, deep):
                    escapes.add((rel, _enclosing(par, root), kind + (":" + detail if detail else ""), nm))
        # (3) mutable defaults
        if isinstance(n, (ast.FunctionDef, ast.AsyncFunctionDef, ast.Lambda)):
            a = n.args
            pos = a.posonlyargs + a.args
            pairs = list(zip(pos[len(pos) - len(a.defaults):], a.defaults)) + [(k, d) for k, d in zip(a.kwonlyargs, a.kw_defaults) if d is not None]
            for arg, d in pairs:
                mutable = isinstance(d, (ast.List, ast.Dict, ast.Set, ast.ListComp, ast.DictComp, ast.SetComp)) or (
                    isinstance(d, ast.Call) and ast.unparse(d.func).split(".")[-1] in MUTABLE_TYPES + ("BytesIO", "StringIO"))
                if mutable:
                    defaults.add((rel, getattr(n, "name", "<lambda>"), arg.arg))
            for dec in getattr(n, "decorator_list", []):
                s = ast.unparse(dec)
                if "cache" in s.lower() or "memo" in s.lower():
                    memos.add((rel, n.name, s.split("(")[0]))
        # (6) stores into long-lived objects / reflective access
        tgts = []
        if isinstance(n, ast.Assign):
            tgts = n.targets
        elif isinstance(n, (ast.AugAssign, ast.AnnAssign)):
            tgts = [n.target]
        elif isinstance(n, ast.Delete):
            tgts = n.targets
        for t in tgts:
            for tt in (t.elts if isinstance(t, (ast.Tuple, ast.List)) else [t]):
                b = tt
                while isinstance(b, (ast.Attribute, ast.Subscript)):
                    b = b.value
                if isinstance(tt, (ast.Attribute, ast.Subscript)) and isinstance(b, ast.Name) and b.id not in shadow.get(n, ()):
                    v = vars(mod).get(b.id)
                    if isinstance(v, (types.ModuleType, type, types.FunctionType)):
                        stores.add((rel, _enclosing(par, n), ast.unparse(tt)[:60]))
        if isinstance(n, ast.Call) and isinstance(n.func, ast.Name) and n.func.id in ("setattr", "delattr", "globals", "vars", "locals") \
                and n.func.id not in shadow.get(n, ()):
            if n.func.id in ("setattr", "delattr"):
                recv = ast.unparse(n.args[0]) if n.args else "?"
                recv = "self" if recv == "self" or recv.startswith("self.") else ("<object>" if recv not in vars(mod) else recv)
                stores.add((rel, _enclosing(par, n), f"{n.func.id}({recv})"))
            elif not (n.func.id == "vars" and n.args and ast.unparse(n.args[0]) in ("self",)):
                stores.add((rel, _enclosing(par, n), n.func.id + "()"))
        if isinstance(n, ast.Attribute) and n.attr == "__dict__":
            stores.add((rel, _enclosing(par, n), ast.unparse(n)[:60]))
    return mutables, escapes, defaults, rebinds, memos, stores


def inventory():
    M, E, D, R, C, S, notes = [], set(), set(), set(), set(), set(), []
    for rel in _package_files():
        try:
            m, e, d, r, c, s = scan_module(rel)
        except ImportError as ex:
            notes.append(f"import failed: {rel}: {type(ex).__name__}")
            continue
        M += m
        E |= e
        D |= d
        R |= r
        C |= c
        S |= s
    return sorted(M), sorted(E), sorted(D), sorted(R), sorted(C), sorted(S), notes


def _short(rel):
    return rel[len("sharepoint2text/"):] if rel.startswith("sharepoint2text/") else rel


@generator("ModState")
def gen_modstate() -> str:
    M, E, D, R, C, S, notes = inventory()
    L = [HEADER.format(src="every module of sharepoint2text (AST + runtime values of module/class attributes)")]
    L.append("namespace S2T.Gen.ModState\n")
    L.append("/-- (file, name, runtime type, holds inner mutable containers): mutable containers bound at module or class level -/")
    L.append("def mutables : List (String × String × String × Bool) := " + lean_list(
        f"({lean_str(_short(a))}, {lean_str(b)}, {lean_str(c)}, {'true' if d else 'false'})" for a, b, c, d in M) + "\n")
    L.append("/-- (file, function, kind, name): uses of such an object that are not plain reads (writes, aliases, escapes) -/")
    L.append("def escapes : List (String × String × String × String) := " + lean_list(
        f"({lean_str(_short(a))}, {lean_str(b)}, {lean_str(c)}, {lean_str(d)})" for a, b, c, d in E) + "\n")
    L.append("/-- (file, function, parameter): mutable default values -/")
    L.append("def mutableDefaults : List (String × String × String) := " + lean_list(
        f"({lean_str(_short(a))}, {lean_str(b)}, {lean_str(c)})" for a, b, c in D) + "\n")
    L.append("/-- (file, function, global name): module globals rebound inside functions -/")
    L.append("def rebinds : List (String × String × String) := " + lean_list(
        f"({lean_str(_short(a))}, {lean_str(b)}, {lean_str(c)})" for a, b, c in R) + "\n")
    L.append("/-- (file, function, decorator): memoising decorators -/")
    L.append("def memos : List (String × String × String) := " + lean_list(
        f"({lean_str(_short(a))}, {lean_str(b)}, {lean_str(c)})" for a, b, c in C) + "\n")
    L.append("/-- (file, function, target): stores into modules / classes / functions, reflective namespace access -/")
    L.append("def attrStores : List (String × String × String) := " + lean_list(
        f"({lean_str(_short(a))}, {lean_str(b)}, {lean_str(c)})" for a, b, c in S) + "\n")
    L.append("/-- translator notes; must be empty -/")
    L.append("def notes : List String := " + lean_list(lean_str(n) for n in notes) + "\n")
    L.append("end S2T.Gen.ModState\n")
    return "\n".join(L)
