"""C15: state that outlives a call WITHOUT being a module-level container write -> S2T/Gen/SharedState.lean

The global-write inventory (globalwrites.py) sees a function that rebinds a global or mutates a module-level container
*by its name*.  Two further ways to keep history between extractions do not have that shape:

* `sharedObjects`    a module-level / class-level name bound (outside any function) to a STATEFUL OBJECT: a
                     `threading.local()`, a parser / decoder / builder instance, an instance of a class of the package, an
                     iterator, a file ... — anything whose run-time type is neither immutable, nor a plain container (those are
                     `GlobalWrites.mutables`), nor a lock (`Isolation.locks`), nor a class / function / module / logger /
                     compiled pattern / typing construct.  Found at run time (import of every module, class attributes included)
                     and in the AST (a module- / class-level assignment whose value constructs `…local()` / `…Parser()` /
                     a class defined in the package is reported even when the import fails).  An object reused from call to call
                     carries whatever the previous document left in it unless EVERY field is reset (S2T.Reuse).
* `aliasedMutations` a module-level mutable container handed to a function as an ARGUMENT where the callee — directly or through
                     the functions it forwards that parameter to (fixpoint over the package, callees resolved by name and
                     argument position / keyword) — mutates the parameter (`p.update(...)`, `p[k] = v`, `del p[k]`, `p += ...`,
                     `p.attr = ...`): the module's table is rewritten although no statement names it.
                     (file of the call, calling function, callee, parameter, global name)
                     Also reported here: a mutable DEFAULT VALUE of a parameter (`def f(x, seen=set())`: the object lives as long
                     as the function; callee `<default>`) and a LOCAL NAME bound to a module-level container and then mutated
                     (`t = TABLE; t[k] = v`; callee `<local alias>`).
* `paramMutators`    count of (function, parameter) pairs that mutate a parameter (the universe the second fact is decided over).
"""
import ast
import importlib
import os
import re
import types

from translate import HEADER, REPO, chars, generator, lean_list, lean_str

MUT_METHODS = {"append", "add", "update", "pop", "popitem", "clear", "move_to_end", "setdefault", "extend",
               "insert", "remove", "discard", "sort", "reverse", "appendleft", "popleft", "__setitem__", "__delitem__",
               "difference_update", "intersection_update", "symmetric_difference_update", "subtract"}
CONTAINER_CTORS = ("dict", "list", "set", "OrderedDict", "defaultdict", "deque", "Counter", "bytearray", "ChainMap")
STATEFUL_CTOR = re.compile(r"(^|\.)(local|\w*Parser|\w*Decoder|\w*Encoder|\w*Builder|\w*Extractor|\w*Reader|\w*Writer|StringIO|BytesIO|"
                           r"Random|count|cycle|iter|open|compressobj|decompressobj|\w*Handler|\w*Session|\w*Pool|Queue)$")


def _package_files():
    root = os.path.join(REPO, "sharepoint2text")
    for dp, dns, fns in os.walk(root):
        dns[:] = sorted(d for d in dns if d not in ("tests", "__pycache__"))
        for fn in sorted(fns):
            if fn.endswith(".py"):
                yield os.path.relpath(os.path.join(dp, fn), REPO)


def _modname(rel):
    m = rel[:-3].replace(os.sep, ".")
    return m[: -len(".__init__")] if m.endswith(".__init__") else m


def _harmless(v, depth=0):
    """run-time value that cannot carry history: immutable, or a kind that another inventory already covers"""
    import enum
    import logging
    import typing
    if v is None or isinstance(v, (bool, int, float, complex, str, bytes, range, type, types.ModuleType, types.FunctionType,
                                   types.BuiltinFunctionType, types.MethodType, types.MappingProxyType, re.Pattern, enum.Enum,
                                   logging.Logger, staticmethod, classmethod, property, types.GenericAlias, typing.TypeVar)):
        return True
    tn, tm = type(v).__name__, type(v).__module__
    if tm in ("typing", "abc", "_abc") or tn in ("Struct", "method_descriptor", "wrapper_descriptor", "getset_descriptor",
                                                 "member_descriptor", "builtin_function_or_method", "partial", "_lru_cache_wrapper",
                                                 "cached_property", "_SpecialForm", "UnionType", "ellipsis", "NotImplementedType",
                                                 "function", "_Feature", "_tuplegetter"):
        return True
    if tn in ("lock", "RLock", "Semaphore", "BoundedSemaphore", "Condition", "Event", "Barrier"):
        return True                      # S2T.Gen.Isolation.locks
    if isinstance(v, (dict, list, set, bytearray)) or tn in ("OrderedDict", "defaultdict", "deque", "Counter", "ChainMap"):
        return True                      # S2T.Gen.GlobalWrites.mutables + sites
    if isinstance(v, (tuple, frozenset)):
        return depth > 3 or all(_harmless(x, depth + 1) for x in v)
    if getattr(type(v), "__dataclass_params__", None) is not None and type(v).__dataclass_params__.frozen:
        return all(_harmless(getattr(v, f), depth + 1) for f in getattr(v, "__dataclass_fields__", {}))
    return False


def _outside_functions(tree):
    """(qualified prefix, statement) of every statement that runs at import time (module / class bodies)"""
    out = []

    def visit(node, prefix):
        for ch in ast.iter_child_nodes(node):
            if isinstance(ch, (ast.FunctionDef, ast.AsyncFunctionDef, ast.Lambda)):
                continue
            if isinstance(ch, ast.ClassDef):
                visit(ch, prefix + ch.name + ".")
                continue
            if isinstance(ch, ast.stmt):
                out.append((prefix, ch))
            visit(ch, prefix)

    visit(tree, "")
    return out


def _functions(tree):
    out = []

    def visit(node, prefix, in_class):
        for ch in ast.iter_child_nodes(node):
            if isinstance(ch, (ast.FunctionDef, ast.AsyncFunctionDef)):
                out.append((prefix + ch.name, ch, in_class))
                visit(ch, prefix + ch.name + ".", False)
            elif isinstance(ch, ast.ClassDef):
                visit(ch, prefix + ch.name + ".", True)
            elif not isinstance(ch, ast.expr):
                visit(ch, prefix, in_class)

    visit(tree, "", False)
    return out


def _params(f, in_class):
    a = f.args
    names = [x.arg for x in a.posonlyargs + a.args]
    is_static = any("staticmethod" in ast.unparse(d) for d in f.decorator_list)
    skip = 1 if in_class and not is_static and names else 0
    return names, skip, [x.arg for x in a.kwonlyargs]


def _own_nodes(f):
    """nodes of f without the bodies of nested functions / classes (those are functions of their own)"""
    stack = list(ast.iter_child_nodes(f))
    while stack:
        n = stack.pop()
        yield n
        if isinstance(n, (ast.FunctionDef, ast.AsyncFunctionDef, ast.ClassDef)):
            continue
        stack.extend(ast.iter_child_nodes(n))


def _direct_mutations(f, pnames, track_rebinding=True):
    """parameters of f that f itself mutates in place (names bound to the parameter by `x = p` count as the parameter)"""
    alias = {p: p for p in pnames}
    for n in _own_nodes(f):
        if isinstance(n, ast.Assign) and isinstance(n.value, ast.Name) and n.value.id in alias:
            for t in n.targets:
                if isinstance(t, ast.Name) and t.id not in alias:
                    alias[t.id] = alias[n.value.id]
    # a name REBOUND to a new object (`p = dict(p)`, `p = {**p, ...}`) no longer is the caller's object from that line on
    rebound = {}
    for n in (_own_nodes(f) if track_rebinding else ()):
        if isinstance(n, (ast.Assign, ast.AnnAssign)) and getattr(n, "value", None) is not None and not (isinstance(n.value, ast.Name) and n.value.id in alias):
            for t in (n.targets if isinstance(n, ast.Assign) else [n.target]):
                if isinstance(t, ast.Name) and t.id in alias:
                    rebound[t.id] = min(rebound.get(t.id, 10 ** 9), n.lineno)

    hit = set()
    _own = [n for n in _own_nodes(f) if getattr(n, "lineno", 0) and not any(
        isinstance(x, ast.Name) and x.id in rebound and n.lineno > rebound[x.id] for x in ast.walk(n) if isinstance(x, ast.Name) and x.id in alias)]
    for n in _own:
        if isinstance(n, ast.Call) and isinstance(n.func, ast.Attribute) and n.func.attr in MUT_METHODS \
                and isinstance(n.func.value, ast.Name) and n.func.value.id in alias:
            hit.add(alias[n.func.value.id])
        tgs = []
        if isinstance(n, ast.Assign):
            tgs = list(n.targets)
        elif isinstance(n, (ast.AugAssign, ast.AnnAssign)):
            tgs = [n.target]
        elif isinstance(n, ast.Delete):
            tgs = list(n.targets)
        for t in tgs:
            for e in (t.elts if isinstance(t, (ast.Tuple, ast.List)) else [t]):
                if isinstance(e, (ast.Subscript, ast.Attribute)) and isinstance(e.value, ast.Name) and e.value.id in alias \
                        and alias[e.value.id] not in ("self", "cls"):
                    hit.add(alias[e.value.id])
                if isinstance(n, ast.AugAssign) and isinstance(e, ast.Name) and e.id in alias and isinstance(n.op, (ast.Add, ast.BitOr, ast.Sub, ast.BitAnd)):
                    hit.add(alias[e.id])       # `p += [...]` / `p |= {...}` mutate a list / set / dict argument in place
    return hit, alias


def scan():
    trees, notes = {}, []
    for rel in _package_files():
        with open(os.path.join(REPO, rel), encoding="utf-8") as fh:
            trees[rel] = ast.parse(fh.read(), filename=rel)
    pkg_classes = {n.name for t in trees.values() for n in ast.walk(t) if isinstance(n, ast.ClassDef)}

    # ---- 1. stateful objects bound outside functions
    shared = set()
    for rel, tree in trees.items():
        for prefix, st in _outside_functions(tree):
            if isinstance(st, (ast.Assign, ast.AnnAssign)) and st.value is not None:
                tg = st.targets if isinstance(st, ast.Assign) else [st.target]
                for c in ast.walk(st.value):
                    if isinstance(c, ast.Call):
                        fn = ast.unparse(c.func)
                        last = fn.split(".")[-1]
                        if STATEFUL_CTOR.search(fn) or (last in pkg_classes and not _frozen_or_plain(trees, last)):
                            for t in tg:
                                if isinstance(t, ast.Name):
                                    shared.add((rel, prefix + t.id, "ast:" + last))
        # a mutable container as a CLASS attribute, never replaced per instance, and mutated in place somewhere in the file:
        # shared by all instances (GlobalWrites sees module level only; read-only class tables are not reported)
        mutated_attrs = set()
        for n in ast.walk(tree):
            if isinstance(n, ast.Call) and isinstance(n.func, ast.Attribute) and n.func.attr in MUT_METHODS and isinstance(n.func.value, ast.Attribute):
                mutated_attrs.add(n.func.value.attr)
            tgs = list(n.targets) if isinstance(n, (ast.Assign, ast.Delete)) else [n.target] if isinstance(n, (ast.AugAssign, ast.AnnAssign)) else []
            for t in tgs:
                for e in (t.elts if isinstance(t, (ast.Tuple, ast.List)) else [t]):
                    if isinstance(e, ast.Subscript) and isinstance(e.value, ast.Attribute):
                        mutated_attrs.add(e.value.attr)
                    if isinstance(n, ast.AugAssign) and isinstance(e, ast.Attribute):
                        mutated_attrs.add("+=" + e.attr)
        for cls in (c for c in ast.walk(tree) if isinstance(c, ast.ClassDef)):
            per_instance = {t.attr for n in ast.walk(cls) if isinstance(n, (ast.Assign, ast.AnnAssign)) and getattr(n, "value", None) is not None
                            for t in (n.targets if isinstance(n, ast.Assign) else [n.target])
                            if isinstance(t, ast.Attribute) and isinstance(t.value, ast.Name) and t.value.id == "self"}
            for st in cls.body:
                if isinstance(st, (ast.Assign, ast.AnnAssign)) and st.value is not None and (
                        isinstance(st.value, (ast.Dict, ast.List, ast.Set, ast.DictComp, ast.ListComp, ast.SetComp))
                        or (isinstance(st.value, ast.Call) and ast.unparse(st.value.func).split(".")[-1] in CONTAINER_CTORS)):
                    for t in (st.targets if isinstance(st, ast.Assign) else [st.target]):
                        if isinstance(t, ast.Name) and t.id not in per_instance and (t.id in mutated_attrs or "+=" + t.id in mutated_attrs):
                            shared.add((rel, cls.name + "." + t.id, "class-level container, mutated"))
        try:
            mod = importlib.import_module(_modname(rel))
        except Exception as e:  # noqa: BLE001
            notes.append(f"import failed: {rel}: {type(e).__name__}")
            continue
        for name, val in sorted(vars(mod).items()):
            if name.startswith("__"):
                continue
            if isinstance(val, type) and val.__module__ == mod.__name__:
                for cn, cv in sorted(vars(val).items()):
                    if cn.startswith("__") or isinstance(cv, (types.MemberDescriptorType,)):
                        continue
                    if not _harmless(cv):
                        shared.add((rel, name + "." + cn, type(cv).__name__))
            elif not _harmless(val) and getattr(type(val), "__module__", "") != "builtins" or type(val).__name__ in ("_local",):
                if any(r == rel and n == name for r, n, _k in shared):
                    shared = {(r, n, k) for r, n, k in shared if not (r == rel and n == name)}
                # only names the module itself binds (not `from x import obj`)
                if any(isinstance(s, (ast.Assign, ast.AnnAssign)) and any(isinstance(t, ast.Name) and t.id == name for t in (s.targets if isinstance(s, ast.Assign) else [s.target]))
                       for _p, s in _outside_functions(trees[rel])):
                    shared.add((rel, name, type(val).__name__))

    # ---- 2. module-level mutable containers handed to a function that mutates its parameter
    funcs = {}          # simple name -> [(rel, qual, node, pnames, skip, kwonly)]
    mutated = {}        # (rel, qual) -> set of params mutated (direct, then forwarded)
    for rel, tree in trees.items():
        for qual, f, in_class in _functions(tree):
            pn, skip, kwo = _params(f, in_class)
            funcs.setdefault(f.name, []).append((rel, qual, f, pn, skip, kwo))
            mutated[(rel, qual)] = _direct_mutations(f, pn + kwo)[0]

    def callee_params(call, caller_is_attr):
        """[(callee rel, qual, {argument expression -> parameter name})]"""
        fn = call.func
        name = fn.attr if isinstance(fn, ast.Attribute) else fn.id if isinstance(fn, ast.Name) else None
        res = []
        for rel, qual, f, pn, skip, kwo in funcs.get(name, []):
            eff = pn[skip:] if (skip and isinstance(fn, ast.Attribute)) or not skip else pn[skip:]
            m = []
            for i, a in enumerate(call.args):
                if i < len(eff) and not isinstance(a, ast.Starred):
                    m.append((a, eff[i]))
            for kw in call.keywords:
                if kw.arg and (kw.arg in pn or kw.arg in kwo):
                    m.append((kw.value, kw.arg))
            res.append((rel, qual, m))
        return res

    changed, rounds = True, 0
    while changed and rounds < 12:
        changed, rounds = False, rounds + 1
        for rel, tree in trees.items():
            for qual, f, in_class in _functions(tree):
                pn, skip, kwo = _params(f, in_class)
                _h, alias = _direct_mutations(f, pn + kwo)
                for n in _own_nodes(f):
                    if not isinstance(n, ast.Call):
                        continue
                    for crel, cqual, m in callee_params(n, False):
                        for a, p in m:
                            if isinstance(a, ast.Name) and a.id in alias and alias[a.id] not in ("self", "cls") \
                                    and p in mutated[(crel, cqual)] and alias[a.id] not in mutated[(rel, qual)]:
                                mutated[(rel, qual)].add(alias[a.id])
                                changed = True

    aliased = set()
    for rel, tree in trees.items():
        containers = set()
        for _p, st in _outside_functions(tree):
            if isinstance(st, (ast.Assign, ast.AnnAssign)) and st.value is not None and _p == "":
                v = st.value
                if isinstance(v, (ast.Dict, ast.List, ast.Set, ast.DictComp, ast.ListComp, ast.SetComp)) or (
                        isinstance(v, ast.Call) and ast.unparse(v.func).split(".")[-1] in CONTAINER_CTORS):
                    for t in (st.targets if isinstance(st, ast.Assign) else [st.target]):
                        if isinstance(t, ast.Name):
                            containers.add(t.id)
        # containers imported from another module of the package
        for n in ast.walk(tree):
            if isinstance(n, ast.ImportFrom):
                for a in n.names:
                    for orel, otree in trees.items():
                        if n.module and _modname(orel).endswith(n.module.lstrip(".")) and any(
                                isinstance(s, ast.Assign) and isinstance(s.value, (ast.Dict, ast.List, ast.Set)) and any(isinstance(t, ast.Name) and t.id == a.name for t in s.targets)
                                for s in otree.body):
                            containers.add(a.asname or a.name)
        scopes = [("<module>", tree, set())] + [(q, f, set(_params(f, c)[0] + _params(f, c)[2])) for q, f, c in _functions(tree)]
        for qual, node, local_params in scopes:
            it = _own_nodes(node) if qual != "<module>" else (x for _p, s in _outside_functions(tree) for x in ast.walk(s))
            assigned = {t.id for x in (ast.walk(node) if qual != "<module>" else []) if isinstance(x, ast.Assign) for t in x.targets if isinstance(t, ast.Name)}
            globs = {g for x in (ast.walk(node) if qual != "<module>" else []) if isinstance(x, ast.Global) for g in x.names}
            for n in it:
                if not isinstance(n, ast.Call):
                    continue
                for crel, cqual, m in callee_params(n, False):
                    for a, p in m:
                        if isinstance(a, ast.Name) and a.id in containers and a.id not in local_params \
                                and (a.id not in assigned or a.id in globs) and p in mutated[(crel, cqual)]:
                            aliased.add((rel, qual, cqual, p, a.id))
    # a mutable DEFAULT VALUE lives as long as the function: (file, function, "<default>", parameter, constructor)
    for rel, tree in trees.items():
        for qual, f, in_class in _functions(tree):
            a = f.args
            pos = a.posonlyargs + a.args
            for arg, dv in list(zip(pos[len(pos) - len(a.defaults):], a.defaults)) + [(k, d) for k, d in zip(a.kwonlyargs, a.kw_defaults) if d is not None]:
                if isinstance(dv, (ast.Dict, ast.List, ast.Set, ast.DictComp, ast.ListComp, ast.SetComp)) or (
                        isinstance(dv, ast.Call) and (ast.unparse(dv.func).split(".")[-1] in CONTAINER_CTORS or STATEFUL_CTOR.search(ast.unparse(dv.func)))):
                    aliased.add((rel, qual, "<default>", arg.arg, ast.unparse(dv)[:40]))
    # a LOCAL NAME bound to a module-level container (`t = TABLE`, `t = TABLE if c else OTHER`) and then mutated in place
    for rel, tree in trees.items():
        containers = {t.id for _p, st in _outside_functions(tree) if _p == "" and isinstance(st, (ast.Assign, ast.AnnAssign)) and st.value is not None
                      and (isinstance(st.value, (ast.Dict, ast.List, ast.Set, ast.DictComp, ast.ListComp, ast.SetComp))
                           or (isinstance(st.value, ast.Call) and ast.unparse(st.value.func).split(".")[-1] in CONTAINER_CTORS))
                      for t in (st.targets if isinstance(st, ast.Assign) else [st.target]) if isinstance(t, ast.Name)}
        for qual, f, in_class in _functions(tree):
            pn, _sk, kwo = _params(f, in_class)
            local = {}
            for n in _own_nodes(f):
                if isinstance(n, (ast.Assign, ast.AnnAssign)) and n.value is not None:
                    cands = [n.value] + ([n.value.body, n.value.orelse] if isinstance(n.value, ast.IfExp) else []) + (
                        list(n.value.values) if isinstance(n.value, ast.BoolOp) else [])
                    for c in cands:
                        if isinstance(c, ast.Name) and c.id in containers and c.id not in pn + kwo:
                            for t in (n.targets if isinstance(n, ast.Assign) else [n.target]):
                                if isinstance(t, ast.Name) and t.id != c.id:
                                    local[t.id] = c.id
            if local:
                hit, _al = _direct_mutations(f, list(local), track_rebinding=False)
                for l in sorted(hit):
                    aliased.add((rel, qual, "<local alias>", l, local[l]))
                for n in _own_nodes(f):      # ... or handed on to a function that mutates its parameter
                    if isinstance(n, ast.Call):
                        for crel, cqual, m in callee_params(n, False):
                            for a, p in m:
                                if isinstance(a, ast.Name) and a.id in local and p in mutated[(crel, cqual)]:
                                    aliased.add((rel, qual, cqual, p, local[a.id]))
    n_mut = sum(len(v) for v in mutated.values())
    return sorted(shared), sorted(aliased), n_mut, notes


def _frozen_or_plain(trees, cname):
    """a class of the package whose instances cannot carry history: frozen dataclass, Enum, exception, NamedTuple, Protocol"""
    for t in trees.values():
        for n in ast.walk(t):
            if isinstance(n, ast.ClassDef) and n.name == cname:
                decs = " ".join(ast.unparse(d) for d in n.decorator_list)
                bases = " ".join(ast.unparse(b) for b in n.bases)
                if "frozen=True" in decs or any(w in bases for w in ("Enum", "Exception", "Error", "NamedTuple", "Protocol", "TypedDict")):
                    return True
    return False


@generator("SharedState")
def gen_sharedstate() -> str:
    shared, aliased, n_mut, notes = scan()
    L = [HEADER.format(src="every module of sharepoint2text (AST + runtime)")]
    L.append("import S2T.Model.Cells\nnamespace S2T.Gen.SharedState\nopen S2T.Cells\n")
    L.append("/-- stateful objects bound at module / class level: (file, name, run-time type or `ast:<constructor>`) -/")
    L.append("def sharedObjects : List (Str × Str × Str) := " + lean_list(
        f"({chars(os.path.basename(rel))}, {chars(n)}, {chars(t)})" for rel, n, t in shared) + "\n")
    L.append("/-- a module-level container passed to a function that (transitively) mutates that parameter:\n    (file of the call, caller, callee, parameter, global) -/")
    L.append("def aliasedMutations : List (Str × Str × Str × Str × Str) := " + lean_list(
        f"({chars(os.path.basename(rel))}, {chars(q)}, {chars(c)}, {chars(p)}, {chars(g)})" for rel, q, c, p, g in aliased) + "\n")
    L.append(f"/-- (function, parameter) pairs of the package that mutate a parameter in place, directly or by forwarding -/\ndef paramMutators : Nat := {n_mut}\n")
    L.append("def notes : List String := " + lean_list(lean_str(n) for n in notes) + "\n")
    L.append("end S2T.Gen.SharedState\n")
    return "\n".join(L)
