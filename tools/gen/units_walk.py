"""C03: what a WALK over the units may depend on, and which parts a unit-building loop may skip -> S2T/Gen/UnitsWalk.lean

* `selfWrites`: every place in `data_types.py` where a method other than `__init__` / `__post_init__` of ANY class
  (results, units, wrappers) changes the object it is called on or another object it was handed: attribute / subscript
  stores and deletes rooted at a parameter (`self.x = …`, `self.__dict__[k] = …`, `del self.x`), stores / mutator calls
  through a local alias of such an object (`d = self.__dict__`, `u = self.__dict__.get(k)`, `u = self.__dict__[k] = []`,
  `for s in self.sheets: s.x = …`), `setattr` / `object.__setattr__` / `vars(…)`, `global` / `nonlocal`.
  "Every walk yields the same units" (whatever was walked before, however far, however interleaved) is the statement
  that iterate_units()/get_full_text() are functions of the dataclass fields alone; a per-instance memo, a cursor
  kept on the object or a list that is drained shows up here.
* `loopFilters`: for every loop that builds the unit sequence — the extraction-side loops of `units_bound.LOOP_SITES`
  and the loop of every `iterate_units` — everything that can make a part of the source yield NO unit or stop the
  sequence early: `if` clauses of comprehensions / `filter(…)` / slices in the (inlined) iterable, `continue`, `break`
  and `return` inside the loop body with the guarding conditions (parameters numbered, single-assignment locals
  inlined, loop targets = ITEM, so renames do not matter).  "One unit per page / sheet / slide / chapter / message"
  is the statement that this list is exactly the accounted-for one.
"""
import ast
import copy

from translate import HEADER, generator, lean_list, lean_str, parse
from gen.units_bound import LOOP_SITES, MUTATORS, _func, _inline, _store_names

DT = "sharepoint2text/parsing/extractors/data_types.py"
CTOR = {"__init__", "__post_init__", "__new__"}
ALIAS_CALLS = {"get", "setdefault", "__getattribute__", "__getitem__", "pop"}


def _root(e):
    while isinstance(e, (ast.Subscript, ast.Attribute)):
        e = e.value
    return e


def _is_chain(e):
    """an attribute / subscript chain (no call) below a name"""
    return isinstance(e, (ast.Subscript, ast.Attribute)) and isinstance(_root(e), ast.Name)


def _alias_source(e, objs):
    """does evaluating `e` hand out (part of) an object in `objs` itself rather than a fresh value?"""
    if isinstance(e, ast.Name):
        return e.id in objs
    if _is_chain(e):
        return _root(e).id in objs
    if isinstance(e, ast.Call):
        f = e.func
        if isinstance(f, ast.Name) and f.id in ("vars", "getattr", "iter", "reversed", "enumerate", "zip") and any(_alias_source(a, objs) for a in e.args):
            return True
        if isinstance(f, ast.Attribute) and f.attr in ALIAS_CALLS and _alias_source(f.value, objs):
            return True
    if isinstance(e, ast.IfExp):
        return _alias_source(e.body, objs) or _alias_source(e.orelse, objs)
    if isinstance(e, ast.BoolOp):
        return any(_alias_source(v, objs) for v in e.values)
    if isinstance(e, ast.NamedExpr):
        return _alias_source(e.value, objs)
    return False


def method_writes(fn):
    params = set(a.arg for a in fn.args.args + fn.args.kwonlyargs + fn.args.posonlyargs)
    if fn.args.vararg:
        params.add(fn.args.vararg.arg)
    objs = set(params)
    # aliases: to a fixed point (a handful of statements per method)
    for _ in range(6):
        before = len(objs)
        for n in ast.walk(fn):
            if isinstance(n, ast.Assign):
                # u = self.__dict__[k] = []  : the NEW list is now reachable from self -> u is an alias
                chained = any(_is_chain(t) and _root(t).id in objs for t in n.targets)
                if _alias_source(n.value, objs) or chained:
                    for t in n.targets:
                        if isinstance(t, ast.Name):
                            objs.add(t.id)
                        elif isinstance(t, (ast.Tuple, ast.List)):
                            objs.update(_store_names(t))
            elif isinstance(n, ast.AnnAssign) and n.value is not None and isinstance(n.target, ast.Name) and _alias_source(n.value, objs):
                objs.add(n.target.id)
            elif isinstance(n, ast.NamedExpr) and _alias_source(n.value, objs):
                objs.add(n.target.id)
            elif isinstance(n, (ast.For, ast.comprehension)) and _alias_source(n.iter, objs):
                objs.update(_store_names(n.target))
            elif isinstance(n, ast.withitem) and n.optional_vars is not None and _alias_source(n.context_expr, objs):
                objs.update(_store_names(n.optional_vars))
        if len(objs) == before:
            break
    out = set()
    for n in ast.walk(fn):
        tgt = []
        if isinstance(n, ast.Assign):
            tgt = list(n.targets)
        elif isinstance(n, (ast.AugAssign, ast.AnnAssign)):
            tgt = [n.target]
        elif isinstance(n, ast.Delete):
            tgt = list(n.targets)
        for tg in tgt:
            for e in (tg.elts if isinstance(tg, (ast.Tuple, ast.List)) else [tg]):
                if _is_chain(e) and _root(e).id in objs:
                    kind = ("del-" if isinstance(n, ast.Delete) else "") + ("subscript-store" if isinstance(e, ast.Subscript) else "attr-store")
                    out.add((kind, ast.unparse(e)))
        if isinstance(n, ast.AugAssign) and isinstance(n.target, ast.Name) and n.target.id in objs and n.target.id not in params:
            out.add(("aug-on-alias", ast.unparse(n.target)))          # lst += […] on an alias mutates in place
        if isinstance(n, ast.Call):
            f = n.func
            if isinstance(f, ast.Attribute) and f.attr in MUTATORS and (_alias_source(f.value, objs)):
                out.add(("method:" + f.attr, ast.unparse(f.value)))
            if isinstance(f, ast.Name) and f.id in ("setattr", "delattr"):
                out.add((f.id, ast.unparse(n.args[0]) if n.args else ""))
            if isinstance(f, ast.Attribute) and f.attr in ("__setattr__", "__delattr__", "__setitem__", "__setstate__"):
                out.add((f.attr, ast.unparse(n)))
        if isinstance(n, ast.Global):          # (nonlocal names live in the frame of ONE call: not state of the object)
            out.add(("global", ",".join(n.names)))
    return sorted(out)


def self_writes():
    out = []
    t = parse(DT)
    for cls in t.body:
        if not isinstance(cls, ast.ClassDef):
            continue
        for fn in ast.walk(cls):
            if isinstance(fn, (ast.FunctionDef, ast.AsyncFunctionDef)) and fn.name not in CTOR:
                for kind, txt in method_writes(fn):
                    out.append((cls.name, fn.name, kind, txt))
    # module-level helpers of data_types (e.g. _join_unit_text) are handed results / unit iterators
    for fn in t.body:
        if isinstance(fn, (ast.FunctionDef, ast.AsyncFunctionDef)):
            for kind, txt in method_writes(fn):
                out.append(("<module>", fn.name, kind, txt))
    return sorted(set(out))


# ------------------------------------------------------------------------------------------------ loop filters
def _outer_loops(fn):
    loops = [n for n in ast.walk(fn) if isinstance(n, (ast.For, ast.While))]
    inner = set()
    for lp in loops:
        for n in ast.walk(lp):
            if n is not lp and isinstance(n, (ast.For, ast.While)):
                inner.add(id(n))
    return [l for l in loops if id(l) not in inner]


def _iter_filters(expr, show):
    """filters inside the iterable expression (after inlining): comprehension conditions, filter(), slices, islice, [:n]"""
    out = []
    for n in ast.walk(expr):
        if isinstance(n, ast.comprehension):
            for c in n.ifs:
                out.append(("iter-if", show(c)))
        elif isinstance(n, ast.Call):
            nm = n.func.id if isinstance(n.func, ast.Name) else (n.func.attr if isinstance(n.func, ast.Attribute) else "")
            if nm in ("filter", "filterfalse", "islice", "takewhile", "dropwhile", "compress", "set", "frozenset", "dict", "fromkeys", "unique", "dedupe"):
                out.append(("iter-call:" + nm, show(n)))
        elif isinstance(n, ast.Subscript) and isinstance(n.slice, ast.Slice):
            out.append(("iter-slice", show(n)))
    return out


def _expand_iter(fn, expr):
    """the iterable with single-assignment locals replaced by their defining expressions (as AST, for the filter scan)"""
    assigns, counts = {}, {}
    for n in ast.walk(fn):
        if isinstance(n, ast.Assign) and len(n.targets) == 1 and isinstance(n.targets[0], ast.Name):
            counts[n.targets[0].id] = counts.get(n.targets[0].id, 0) + 1
            assigns[n.targets[0].id] = n.value
        elif isinstance(n, ast.AnnAssign) and isinstance(n.target, ast.Name) and n.value is not None:
            counts[n.target.id] = counts.get(n.target.id, 0) + 1
            assigns[n.target.id] = n.value
        elif isinstance(n, ast.AugAssign) and isinstance(n.target, ast.Name):
            counts[n.target.id] = counts.get(n.target.id, 0) + 2

    class R(ast.NodeTransformer):
        depth = 0

        def visit_Name(self, node):
            if counts.get(node.id) == 1 and self.depth < 12:
                self.depth += 1
                r = self.visit(copy.deepcopy(assigns[node.id]))
                self.depth -= 1
                return r
            return node
    return R().visit(copy.deepcopy(expr))


def _body_skips(loop, show):
    """continue / break / return / raise reachable in the loop body (not inside an inner loop for continue / break) with
    the enclosing `if` conditions"""
    out = []

    def walk(stmts, conds, in_inner):
        for st in stmts:
            if isinstance(st, ast.Continue) and not in_inner:
                out.append(("continue", " and ".join(conds) or "always"))
            elif isinstance(st, ast.Break) and not in_inner:
                out.append(("break", " and ".join(conds) or "always"))
            elif isinstance(st, ast.Return):
                out.append(("return", " and ".join(conds) or "always"))
            elif isinstance(st, ast.Expr) and conds and not in_inner and isinstance(st.value, (ast.Yield, ast.YieldFrom)):
                out.append(("guarded-yield", " and ".join(conds)))
            elif (isinstance(st, ast.Expr) and conds and not in_inner and isinstance(st.value, ast.Call) and isinstance(st.value.func, ast.Attribute)
                  and st.value.func.attr in ("append", "extend", "add", "insert")):
                out.append(("guarded-" + st.value.func.attr, " and ".join(conds)))
            elif isinstance(st, ast.If):
                c = show(st.test)
                walk(st.body, conds + [c], in_inner)
                walk(st.orelse, conds + [f"not ({c})"], in_inner)
            elif isinstance(st, (ast.For, ast.While)):
                walk(st.body, conds, True)
                walk(st.orelse, conds, in_inner)
            elif isinstance(st, ast.Try):
                walk(st.body, conds, in_inner)
                for h in st.handlers:
                    walk(h.body, conds + ["except " + (ast.unparse(h.type) if h.type else "*")], in_inner)
                walk(st.orelse, conds, in_inner)
                walk(st.finalbody, conds, in_inner)
            elif isinstance(st, ast.With):
                walk(st.body, conds, in_inner)
            elif isinstance(st, ast.Match):
                for cs in st.cases:
                    walk(cs.body, conds + ["case " + ast.unparse(cs.pattern)], in_inner)
    walk(loop.body, [], False)
    return out


def loop_filters():
    out = []
    trees = {}
    sites = [(rel, name, None) for rel, name in LOOP_SITES]
    t = trees.setdefault(DT, parse(DT))
    for cls in t.body:
        if isinstance(cls, ast.ClassDef):
            for fn in cls.body:
                if isinstance(fn, ast.FunctionDef) and fn.name == "iterate_units":
                    # (doc / docx / odt cut heading SECTIONS out of flowing text: their loops are the subject of the cover theorems)
                    if cls.name not in ("DocContent", "DocxContent", "OdtContent"):
                        sites.append((DT, f"{cls.name}.iterate_units", fn))
    for rel, name, fn in sites:
        if fn is None:
            tr = trees.setdefault(rel, parse(rel))
            fn = _func(tr, name)
            if fn is None:
                raise ValueError(f"{rel}: function {name} not found (unit-building loop filter inventory)")
        show = _inline(fn)
        for i, lp in enumerate(_outer_loops(fn)):
            tag = f"{name}#{i}"
            if isinstance(lp, ast.For):
                for kind, txt in _iter_filters(_expand_iter(fn, lp.iter), show):
                    out.append((tag, kind, txt))
            else:
                out.append((tag, "while", show(lp.test)))
            for kind, txt in _body_skips(lp, show):
                out.append((tag, kind, txt))
    return out


@generator("UnitsWalk")
def gen_units_walk() -> str:
    L = [HEADER.format(src="data_types.py (methods that change an object) and the unit-building loops (what they skip)")]
    L.append("namespace S2T.Gen.UnitsWalk\n")
    L.append("/-- (class, method, kind, target): every place where a method of data_types.py other than a constructor changes the object it is called on / handed -/")
    L.append("def selfWrites : List (String × String × String × String) := "
             + lean_list(f"({lean_str(a)}, {lean_str(b)}, {lean_str(c)}, {lean_str(d)})" for a, b, c, d in self_writes()) + "\n")
    L.append("/-- (loop, kind, condition): everything that lets a unit-building loop skip a part of the source or stop early -/")
    L.append("def loopFilters : List (String × String × String) := "
             + lean_list(f"({lean_str(a)}, {lean_str(b)}, {lean_str(c)})" for a, b, c in loop_filters()) + "\n")
    L.append("end S2T.Gen.UnitsWalk\n")
    return "\n".join(L)
