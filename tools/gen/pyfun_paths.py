"""Function-level translator, second set of constructs (extends tools/gen/pyfun.py WITHOUT editing it).

`FuncTrX(FuncTr)` / `ModTrX(ModTr)` add, construct by construct (new cases are tried first, everything
else falls through to pyfun.py unchanged, so the output for the modules of pyfun.py is untouched):

* f-strings whose placeholders are plain `str` values (no conversion, no format spec)      -> `++`
* `s.split(c)` / `s.split(c, 1)` for a one-character constant `c`, `sep.join(xs)`            -> `Py.splitOn`, `Py.splitOnce`, `Py.strJoin`
* list literals, `x: List[T] = []`, `list(xs)`, list comprehensions `[e for v in xs]`       -> `[..]`, `List.map`
* `xs.append(e)`, `xs.pop()` as statements on a local list that provably has no alias        -> `xs := Py.listAppend xs e`, `xs := (← Py.listPop xs).1`
* slices `x[a:b]` (any of a, b missing, negative constants, int variables), `xs[i]`          -> `Py.slice`, `Py.listGetItem` (IndexError)
* a name assigned in EVERY branch of an `if`/`elif`/`else` and used after it                 -> hoisted `let mut x : T := default` (never observed)
* `return` inside `try`                                                                       -> Lean `try … catch` with `return`
* methods of (data)classes: `self.<field>` through the record table, `self.m(...)` calls of translated
  methods, `self.<field> = e` (the translated method returns the updated record), `Cls(field=e, …)`
* `max((e for v in xs), default=d)`, `min(...)`
* module-level `from m import f` of a function translated in a module listed in `uses`
* `x in s` on strings (one-character constant), `s.find(c)`, `s.isascii()`, `s.isdigit()`, `int(s)` (ValueError) …

Like pyfun.py: nothing is approximated — an unknown construct appends to `notes`.
"""
from __future__ import annotations

import ast
import builtins
import copy

from translate import HEADER, chars, fresh_import, generator, lean_list, lean_str, parse
from gen import pyfun
from gen.pyfun import (ANNOT, BOOL, DOTTED_CALLS, INT, MODULES, NONE, RECORDS, STR, UNK, Dict, Fn, FuncTr, Lst, ModTr,
                       Opt, Rec, SetT, Sig, Tup, Unsupported, dotted, ident, lt, unify)

# ----------------------------------------------------------------------------- tables (additive)
ANNOT.update({"List[str]": Lst(STR), "list[str]": Lst(STR)})

RECORDS.update({
    # epub_extractor._EpubContext: only the attribute `resolve_href` reads
    "EpubContext": dict(lean="S2T.Py.EpubContext", attrs={"_opf_dir": ("opfDir", STR, False)}, methods={}),
})

ANY = Rec("Any")
ANNOT.update({"TableDim": Rec("TableDim"), "list[list[typing.Any]]": Lst(Lst(ANY)), "Path": Rec("Path")})
RECORDS.update({
    # a Python object of unknown type (`typing.Any`): S2T.Py.Any; str / int / bool / None embed into it
    "Any": dict(lean="S2T.Py.Any", attrs={}, methods={}),
    # dataclasses of data_types.py: `pyclass` = the class whose dataclass fields are checked at translation time,
    # `ctor` = its fields in declaration order (constructor calls), `settable` = `self.<field> = e` is translated
    "TableDim": dict(lean="S2T.Py.TableDim", pyclass="TableDim", ctor=["rows", "columns"],
                     attrs={"rows": ("rows", INT, False), "columns": ("columns", INT, False)}, methods={}),
    # TableData / XlsxSheet / OdsSheet / OdtTable / RtfTable: the one field their accessors read
    "DataTable": dict(lean="S2T.Py.DataTable", attrs={"data": ("data", Lst(Lst(ANY)), False)}, methods={}),
    "XlsSheet": dict(lean="S2T.Py.XlsSheet", pyclass="XlsSheet",
                     attrs={"data": ("data", Lst(Dict(STR, ANY)), False)}, methods={}),
    "FileMeta": dict(lean="S2T.Iface.FileMeta", pyclass="FileMetadataInterface", settable=True,
                     attrs={"filename": ("filename", Opt(STR), False), "file_extension": ("fileExtension", Opt(STR), False),
                            "file_path": ("filePath", Opt(STR), False), "folder_path": ("folderPath", Opt(STR), False),
                            "detected_encoding": ("detectedEncoding", Opt(STR), False)}, methods={}),
    # pathlib.Path on POSIX = the hand model of PurePosixPath (S2T.Iface.PurePath); exists()/resolve() ask `env`
    "Path": dict(lean="S2T.Iface.PurePath", attrs={"name": ("name", STR, False), "suffix": ("suffix", STR, False),
                                                    "parent": ("parent", Rec("Path"), False)}, methods={}),
})
DT = Rec("DateTime")
ANNOT.update({"datetime | None": Opt(DT), "SharePointFileMetadata": Rec("SpFileMeta")})
RECORDS.update({
    # an AWARE datetime: microseconds since the epoch; always truthy; `<`, `>=` compare instants
    "DateTime": dict(lean="S2T.Py.DateTime", attrs={}, methods={}),
    "SpFileMeta": dict(lean="S2T.Py.SpFileMeta", pyclass="SharePointFileMetadata",
                       attrs={"name": ("name", STR, False), "id": ("id", STR, False),
                              "created": ("created", Opt(STR), False), "last_modified": ("lastModified", Opt(STR), False),
                              "parent_path": ("parentPath", Opt(STR), False)}, methods={}),
    "FileFilter": dict(lean="S2T.Py.FileFilter", pyclass="FileFilter",
                       attrs={"created_after": ("createdAfter", Opt(DT), False), "created_before": ("createdBefore", Opt(DT), False),
                              "modified_after": ("modifiedAfter", Opt(DT), False), "modified_before": ("modifiedBefore", Opt(DT), False),
                              "folder_paths": ("folderPaths", Lst(STR), False), "path_patterns": ("pathPatterns", Lst(STR), False),
                              "extensions": ("extensions", Lst(STR), False)}, methods={}),
})
# dotted stdlib calls answered by the module's environment: name -> (object at run time, env field, arg types, result, raises)
ENV_CALLS = {
    "datetime.fromisoformat": ("datetime.datetime.fromisoformat", "fromisoformat", [STR], DT, True),
    "fnmatch.fnmatch": ("fnmatch.fnmatch", "fnmatch", [STR, STR], BOOL, False),
}

# module-level names that are called:  name -> (the object it must be at run time, lean, arg types, result, raises, env)
NAME_CALLS = {
    "Path": ("pathlib.Path", "S2T.Iface.parsePath", [STR], Rec("Path"), False, False),
}
# methods of records answered by the environment: (record, method) -> (env field, arg of the field, result type)
ENV_METHODS = {
    ("Path", "exists"): ("pathExists", "S2T.Iface.PurePath.str", BOOL),
    ("Path", "resolve"): ("pathResolve", "S2T.Iface.PurePath.str", Rec("Path")),
}
STR_OF = {"Path": "S2T.Iface.PurePath.str"}   # str(x) on a record

# modules translated by this file:  like pyfun.MODULES, plus
#   funcs: "Class.method" names (methods), option `types={"self": Rec(..)}`
XMODULES = {
    "PyZipUtils": dict(
        src="sharepoint2text/parsing/extractors/util/zip_utils.py",
        pymod="sharepoint2text.parsing.extractors.util.zip_utils",
        imports=["S2T.Py.Paths"], uses=[], consts={},
        funcs=[("resolve_part_target", {})]),
    "PyPptxPaths": dict(
        src="sharepoint2text/parsing/extractors/ms_modern/pptx_extractor.py",
        pymod="sharepoint2text.parsing.extractors.ms_modern.pptx_extractor",
        imports=["S2T.Py.Paths"], uses=["PyZipUtils"], consts={},
        funcs=[("_normalize_relative_path", {})]),
    "PyXlsxPaths": dict(
        src="sharepoint2text/parsing/extractors/ms_modern/xlsx_extractor.py",
        pymod="sharepoint2text.parsing.extractors.ms_modern.xlsx_extractor",
        imports=["S2T.Py.Paths"], uses=["PyZipUtils"], consts={},
        funcs=[("_resolve_drawing_path", {}), ("_resolve_image_path", {})]),
    # no function of its own: the resolver is called inline; the call sites are an inventory (`call_sites`)
    "PyDocxPaths": dict(
        src="sharepoint2text/parsing/extractors/ms_modern/docx_extractor.py",
        pymod="sharepoint2text.parsing.extractors.ms_modern.docx_extractor",
        imports=["S2T.Py.Paths"], uses=["PyZipUtils"], consts={}, funcs=[]),
    "PyOdfPaths": dict(
        src="sharepoint2text/parsing/extractors/open_office/_shared.py",
        pymod="sharepoint2text.parsing.extractors.open_office._shared",
        imports=["S2T.Py.Paths"], uses=[], consts={},
        funcs=[("resolve_odf_href", {})]),
    "PyEpubPaths": dict(
        src="sharepoint2text/parsing/extractors/epub_extractor.py",
        pymod="sharepoint2text.parsing.extractors.epub_extractor",
        imports=["S2T.Py.Paths"], uses=[], consts={},
        funcs=[("_EpubContext.resolve_href", {"types": {"self": Rec("EpubContext")}})]),
    "PyDataTypes": dict(
        src="sharepoint2text/parsing/extractors/data_types.py",
        pymod="sharepoint2text.parsing.extractors.data_types",
        imports=["S2T.Py.Records"], uses=[], consts={}, envtype="S2T.Py.FsEnv",
        funcs=[(f"{c}.{m}", {"types": {"self": Rec("DataTable")}})
               for c in ("TableData", "XlsxSheet", "OdsSheet", "OdtTable", "RtfTable") for m in ("get_table", "get_dim")]
        + [  # `rows` holds header strings and cell values: a list of lists of objects
            ("XlsSheet.get_table", {"types": {"self": Rec("XlsSheet")}, "locals": {"rows": Lst(Lst(ANY))}}),
            ("XlsSheet.get_dim", {"types": {"self": Rec("XlsSheet")}}),
            ("_resolved_if_present", {}),
            # the model's hypothesis: `path` is a str or None (a Path argument is str(path) re-parsed)
            ("FileMetadataInterface.populate_from_path", {"types": {"self": Rec("FileMeta"), "path": Opt(STR)}})]),
    "PyClient": dict(
        src="sharepoint2text/sharepoint_io/client.py", pymod="sharepoint2text.sharepoint_io.client",
        imports=["S2T.Py.SharePoint"], uses=[], consts={}, envtype="S2T.Py.SpEnv",
        funcs=[("SharePointFileMetadata.get_full_path", {"types": {"self": Rec("SpFileMeta")}}),
               ("_parse_iso_datetime", {}),
               ("FileFilter.matches", {"types": {"self": Rec("FileFilter")}}),
               ("FileFilter.get_target_folders", {"types": {"self": Rec("FileFilter")}})]),
}
MODULES.update(XMODULES)   # so that `uses` / `from m import f` lookups of pyfun.py see them

INPLACE_METHODS = {"append", "pop"}


def char_lit(c: str) -> str:
    o = ord(c)
    if 0x20 <= o < 0x7F and c not in "'\\":
        return f"'{c}'"
    return f"(Char.ofNat {o})"


def _parents(root):
    par = {}
    for n in ast.walk(root):
        for ch in ast.iter_child_nodes(n):
            par[ch] = n
    return par


# ----------------------------------------------------------------------------- one function
class FuncTrX(FuncTr):
    def __init__(self, mod, node, opts, qualname=None):
        super().__init__(mod, node, opts)
        if qualname:
            self.name = qualname
        self.first_types: dict = {}     # name -> [types of its first-level assignments] (probe runs)
        self.probing = 0
        self.cls = qualname.rsplit(".", 1)[0] if qualname and "." in qualname else None
        self.self_mut = False           # the method assigns to self.<field>: it returns the updated record
        self.cvar = 0

    # ---- state snapshots (for probe runs)
    _STATE = ("vars", "mut", "declared", "narrow", "localfns", "eff", "env", "site", "remarks", "ret", "tmp",
              "out_of_scope", "self_mut")

    def snapshot(self):
        return ({k: copy.deepcopy(getattr(self, k)) for k in self._STATE}, list(self.mod.notes), dict(self.mod.excs))

    def restore(self, snap):
        st, notes, excs = snap
        for k, v in st.items():
            setattr(self, k, v)
        self.mod.notes[:] = notes
        self.mod.excs.clear()
        self.mod.excs.update(excs)

    # ---- analysis: in-place mutated locals + alias discipline
    def analyse(self):
        super().analyse()
        par = _parents(self.node)
        params = {a.arg for a in list(self.node.args.args) + list(self.node.args.kwonlyargs)}
        inplace = set()
        for n in ast.walk(self.node):
            if isinstance(n, ast.Call) and isinstance(n.func, ast.Attribute) and n.func.attr in INPLACE_METHODS \
                    and isinstance(n.func.value, ast.Name):
                inplace.add(n.func.value.id)
        self.inplace = inplace
        for v in sorted(inplace):
            if v in params:
                self.note(self.node, f"in-place mutation of the parameter `{v}` (visible to the caller)")
                continue
            self.mut.add(v)
            # every value the name is bound to must be a fresh list, and the name must never be stored / passed on
            for n in ast.walk(self.node):
                if isinstance(n, ast.Name) and n.id == v and isinstance(n.ctx, ast.Load):
                    p = par.get(n)
                    ok = False
                    if isinstance(p, ast.Attribute):
                        ok = True                       # receiver of a method call / attribute read
                    elif isinstance(p, ast.Return):
                        ok = True                       # the function ends here
                    elif isinstance(p, (ast.If, ast.While, ast.IfExp)) and p.test is n:
                        ok = True
                    elif isinstance(p, (ast.BoolOp, ast.Compare)) or (isinstance(p, ast.UnaryOp) and isinstance(p.op, ast.Not)):
                        ok = True
                    elif isinstance(p, ast.Call) and n in p.args and (
                            (isinstance(p.func, ast.Name) and p.func.id in ("len", "bool", "list", "tuple", "max", "min", "any", "all"))
                            or (isinstance(p.func, ast.Attribute) and p.func.attr == "join")):
                        ok = True
                    elif isinstance(p, (ast.For, ast.comprehension)) and p.iter is n:
                        # iteration over a list that the loop body mutates is not translated
                        body = p.body if isinstance(p, ast.For) else []
                        ok = not any(isinstance(m, ast.Call) and isinstance(m.func, ast.Attribute) and m.func.attr in INPLACE_METHODS
                                     and isinstance(m.func.value, ast.Name) and m.func.value.id == v
                                     for s in body for m in ast.walk(s))
                    elif isinstance(p, ast.Subscript) and p.value is n:
                        ok = True
                    if not ok:
                        self.note(n, f"list `{v}` is mutated in place and used where an alias could be created "
                                     f"({type(p).__name__})")
                if isinstance(n, (ast.Assign, ast.AnnAssign)) and n.value is not None:
                    tg = n.targets if isinstance(n, ast.Assign) else [n.target]
                    if any(isinstance(t, ast.Name) and t.id == v for t in tg) and not self.fresh_list(n.value):
                        self.note(n, f"list `{v}` is mutated in place but bound to a value that may be shared "
                                     f"({ast.unparse(n.value)[:40]})")

    def fresh_list(self, e):
        """an expression that evaluates to a list object nothing else refers to"""
        if isinstance(e, (ast.List, ast.ListComp)):
            return True
        if isinstance(e, ast.Call):
            if isinstance(e.func, ast.Name) and e.func.id in ("list", "sorted"):
                return True
            if isinstance(e.func, ast.Attribute) and e.func.attr in ("split", "rsplit", "splitlines", "keys", "values"):
                return True
        if isinstance(e, ast.Subscript) and isinstance(e.slice, ast.Slice):
            return True
        if isinstance(e, ast.BinOp) and isinstance(e.op, ast.Add):
            return True
        return False

    # ---- types from annotations
    def annot(self, node):
        t = super().annot(node)
        if t is not None or node is None:
            return t
        return None

    # ---- narrowing of `param.attr` (a record field of Optional type), like pyfun's narrowing of locals
    def attr_key(self, e):
        """`p.attr` where `p` is a parameter that is never re-bound or updated and `attr` is an Optional field"""
        if isinstance(e, ast.Attribute) and isinstance(e.value, ast.Name):
            p = e.value.id
            t = self.vars.get(p, UNK)
            params = {a.arg for a in list(self.node.args.args) + list(self.node.args.kwonlyargs)}
            if p in params and p not in self.mut and not (p == "self" and self.self_mut) and t[0] == "rec":
                a = RECORDS[t[1]]["attrs"].get(e.attr)
                if a and a[1][0] == "opt":
                    return f"{p}.{e.attr}"
        return None

    def facts(self, e, sense: bool) -> set:
        k = self.attr_key(e)
        if k:
            return {k} if sense else set()
        if isinstance(e, ast.Compare) and len(e.ops) == 1 and self.attr_key(e.left) \
                and isinstance(e.comparators[0], ast.Constant) and e.comparators[0].value is None:
            if isinstance(e.ops[0], ast.IsNot):
                return {self.attr_key(e.left)} if sense else set()
            if isinstance(e.ops[0], ast.Is):
                return {self.attr_key(e.left)} if not sense else set()
        return super().facts(e, sense)

    def compare(self, e):
        if len(e.ops) == 1:
            op, rn = e.ops[0], e.comparators[0]
            if isinstance(op, (ast.In, ast.NotIn)) and self.const_char(e.left):
                b, tb, eb = self.expr(rn)
                if tb == STR:
                    c = f"(S2T.Py.strContainsChar {b} {self.const_char(e.left)})"
                    return (c if isinstance(op, ast.In) else f"(!{c})"), eb
            sym = {ast.Lt: "<", ast.LtE: "≤", ast.Gt: ">", ast.GtE: "≥"}.get(type(op))
            if sym and not (isinstance(rn, ast.Constant) or isinstance(e.left, ast.Constant)):
                snap = self.snapshot()
                a, ta, ea = self.expr(e.left)
                b, tb, eb = self.expr(rn)
                if ta == DT and tb == DT:
                    return f"(decide ({a} {sym} {b}))", ea or eb
                self.restore(snap)
        return super().compare(e)

    # ---- coercions: embeddings into `Any`, element-wise on lists, `[]` at any list type
    def coercion(self, t, want):
        """lean function text `fun x => …` turning a `t` into a `want`, "" for the identity, None if there is none"""
        if t == want:
            return ""
        if t == Lst(UNK) and want[0] == "list":
            return ""
        if want == ANY:
            if t == STR: return "S2T.Py.Any.str"
            if t == INT: return "S2T.Py.Any.int"
            if t == BOOL: return "S2T.Py.Any.bool"
            if t == Opt(ANY): return "S2T.Py.Any.ofOption"
            if t[0] == "opt":
                inner = self.coercion(t[1], ANY)
                if inner:
                    return f"(fun py_o => S2T.Py.Any.ofOption (Option.map {inner} py_o))"
            return None
        if t[0] == "list" and want[0] == "list":
            inner = self.coercion(t[1], want[1])
            if inner is None:
                return None
            return "" if inner == "" else f"(List.map {inner})"
        return None

    def coerce(self, code, t, want, node):
        if want is not None and t != want and want != UNK and t != UNK:
            if t == NONE and want == ANY:
                return "S2T.Py.Any.none"
            f = self.coercion(t, want)
            if f is not None:
                return code if f == "" else f"({f} {code})"
        return super().coerce(code, t, want, node)

    def comprehension(self, elt, gens):
        """[elt for v in xs if c …] as a Lean list (single `for`, pure element and conditions)"""
        if len(gens) != 1 or gens[0].is_async or not isinstance(gens[0].target, ast.Name):
            raise Unsupported("comprehension shape (one `for` over one name only)")
        gen = gens[0]
        it, tit, eff = self.iterable(gen.iter)
        v = gen.target.id
        if v in self.vars:
            raise Unsupported("comprehension variable shadows a local")
        self.vars[v] = tit
        try:
            for c in gen.ifs:
                cc, ec = self.cond(c)
                if ec:
                    raise Unsupported("comprehension condition that may raise")
                it = f"(List.filter (fun {ident(v)} => {cc}) {it})"
            body, tb, eb = self.expr(elt)
        finally:
            del self.vars[v]
        if eb:
            raise Unsupported("comprehension element that may raise")
        return f"(List.map (fun {ident(v)} => {body}) {it})", Lst(tb), eff

    def is_self_attr(self, e):
        return isinstance(e, ast.Attribute) and isinstance(e.value, ast.Name) and e.value.id == "self" and self.cls

    # ---- calls
    def call(self, e):
        r = self._call_x(e)
        if r is not None:
            return r
        return super().call(e)

    def _call_x(self, e):
        f = e.func
        d = dotted(f)
        if d in ENV_CALLS and d.split(".")[0] not in self.vars:
            pyobj, fld, pts, rt, raises = ENV_CALLS[d]
            self.mod.check_dotted(d, pyobj)
            if e.keywords or len(e.args) != len(pts):
                raise Unsupported(f"call of {d} with {len(e.args)} arguments / keywords")
            args, eff = [], False
            for a, pt in zip(e.args, pts):
                c, ta, ef = self.expr(a)
                args.append(self.coerce(c, ta, pt, e)); eff = eff or ef
            self.env = True
            code = "(" + " ".join([f"env.{fld}"] + args) + ")"
            if raises:
                self.eff = True
                return f"(← {code})", rt, True
            return code, rt, eff
        if isinstance(f, ast.Name) and f.id not in self.vars and f.id not in self.localfns and f.id not in self.mod.sigs:
            n = f.id
            if n in ("max", "min") and len(e.args) == 1 and [k.arg for k in e.keywords] == ["default"]:
                a = e.args[0]
                if isinstance(a, ast.GeneratorExp):
                    lst, tl, eff = self.comprehension(a.elt, a.generators)
                else:
                    lst, tl, eff = self.expr(a)
                d, td, ed = self.expr(e.keywords[0].value)
                if tl != Lst(INT) or td != INT:
                    raise Unsupported(f"{n}(…, default=…) on {lt(tl)} / {lt(td)}")
                return f"(S2T.Py.{n}D {lst} {d})", INT, eff or ed
            if n == "list" and len(e.args) == 1 and not e.keywords:
                c, t, eff = self.expr(e.args[0])
                if t[0] == "list":
                    return c, t, eff       # a copy: lists are values
                raise Unsupported(f"list() of {lt(t)}")
            if n == "str" and len(e.args) == 1 and not e.keywords:
                c, t, eff = self.expr(e.args[0])
                if t == STR:
                    return c, STR, eff
                if t[0] == "rec" and t[1] in STR_OF:
                    return f"({STR_OF[t[1]]} {c})", STR, eff
                raise Unsupported(f"str() of {lt(t)}")
            if n == "int" and len(e.args) == 1 and not e.keywords:
                snap = self.snapshot()
                c, t, eff = self.expr(e.args[0])
                if t == STR:
                    self.env = True
                    self.eff = True
                    return f"(← env.intOfStr {c})", INT, True
                self.restore(snap)
                return None
            if n in NAME_CALLS and not e.keywords:
                pyobj, ln, pts, rt, raises, env = NAME_CALLS[n]
                self.mod.check_name(n, pyobj)
                if len(e.args) != len(pts):
                    raise Unsupported(f"call of {n} with {len(e.args)} arguments")
                args, eff = [], False
                for a, pt in zip(e.args, pts):
                    c, ta, ef = self.expr(a)
                    args.append(self.coerce(c, ta, pt, e)); eff = eff or ef
                return "(" + " ".join([ln] + args) + ")", rt, eff
            rec = next((r for r, cfg in RECORDS.items() if cfg.get("pyclass") == n and "ctor" in cfg), None)
            if rec is not None:
                cfg = RECORDS[rec]
                defaults = self.mod.check_dataclass(n, cfg)
                given = {}
                for i, a in enumerate(e.args):
                    if isinstance(a, ast.Starred) or i >= len(cfg["ctor"]):
                        raise Unsupported(f"arguments of {n}(…)")
                    given[cfg["ctor"][i]] = a
                for k in e.keywords:
                    if k.arg not in cfg["ctor"] or k.arg in given:
                        raise Unsupported(f"keyword {k.arg!r} of {n}(…)")
                    given[k.arg] = k.value
                flds, eff = [], False
                for fn in cfg["ctor"]:
                    lf, ft, _ = cfg["attrs"][fn]
                    if fn in given:
                        c, t, ef = self.expr(given[fn])
                        flds.append(f"{lf} := {self.coerce(c, t, ft, e)}"); eff = eff or ef
                    elif fn in defaults:
                        flds.append(f"{lf} := {defaults[fn]}")
                    else:
                        raise Unsupported(f"{n}(…) without `{fn}`, which has no constant default")
                return "({ " + ", ".join(flds) + " } : " + cfg["lean"] + ")", Rec(rec), eff
        return None

    # ---- expressions
    def _expr(self, e):
        r = self._expr_x(e)
        if r is not None:
            return r
        return super()._expr(e)

    def _expr_x(self, e):
        if isinstance(e, ast.JoinedStr):
            parts, eff = [], False
            for v in e.values:
                if isinstance(v, ast.Constant) and isinstance(v.value, str):
                    parts.append(chars(v.value))
                elif isinstance(v, ast.FormattedValue) and v.conversion == -1 and v.format_spec is None:
                    c, t, ef = self.expr(v.value)
                    if t != STR:
                        raise Unsupported(f"f-string placeholder of type {lt(t)} (only str values are formatted as themselves)")
                    parts.append(c)
                    eff = eff or ef
                else:
                    raise Unsupported("f-string placeholder with a conversion / format spec")
            if not parts:
                return chars(""), STR, False
            return "(" + " ++ ".join(parts) + ")", STR, eff
        k = self.attr_key(e)
        if k and self.narrowed(k):
            c, t, eff = super()._expr(e)
            self.eff = True
            return f"(← S2T.Py.unwrap {c})", t[1], True
        if isinstance(e, ast.ListComp):
            return self.comprehension(e.elt, e.generators)
        if isinstance(e, ast.Subscript) and not isinstance(e.slice, ast.Slice):
            c, t, eff = self.expr(e.value)
            if t[0] == "list":
                i, ti, ei = self.expr(e.slice)
                if ti != INT:
                    raise Unsupported(f"list index of type {lt(ti)}")
                self.eff = True
                return f"(← S2T.Py.listGetItem {c} {i})", t[1], True
            return None
        if isinstance(e, ast.List):
            if not e.elts:
                return "[]", Lst(UNK), False    # typed by the place it is used in
            parts = [self.expr(x) for x in e.elts]
            t = parts[0][1]
            for p in parts[1:]:
                t = unify(t, p[1]) if t is not None else None
            if t is None or t == UNK:
                raise Unsupported("list literal with elements of different types")
            return "[" + ", ".join(self.coerce(p[0], p[1], t, e) for p in parts) + "]", Lst(t), any(p[2] for p in parts)
        if isinstance(e, ast.Subscript) and isinstance(e.slice, ast.Slice):
            s = e.slice
            c, t, eff = self.expr(e.value)
            if t == STR and s.upper is None and s.step is None and isinstance(s.lower, ast.Constant) \
                    and isinstance(s.lower.value, int) and s.lower.value >= 0:
                return None    # pyfun.py's `s[n:]`
            if s.step is not None:
                raise Unsupported("slice with a step")
            if not (t == STR or t[0] == "list"):
                raise Unsupported(f"slice of {lt(t)}")
            bounds = []
            for b in (s.lower, s.upper):
                if b is None:
                    bounds.append("none")
                else:
                    bc, bt, be = self.expr(b)
                    if bt != INT:
                        raise Unsupported(f"slice bound of type {lt(bt)}")
                    eff = eff or be
                    bounds.append(f"(some {bc})")
            return f"(S2T.Py.pSlice {c} {bounds[0]} {bounds[1]})", t, eff
        return None

    # ---- method calls
    def method_call(self, e):
        r = self._method_x(e)
        if r is not None:
            return r
        return super().method_call(e)

    def const_char(self, node):
        if isinstance(node, ast.Constant) and isinstance(node.value, str) and len(node.value) == 1:
            return char_lit(node.value)
        return None

    def _method_x(self, e):
        f = e.func
        m = f.attr
        if self.is_self_attr(f) and f"{self.cls}.{m}" in self.mod.sigs:
            # a method of the same class, translated earlier; `self` is its first argument
            sig = self.mod.sigs[f"{self.cls}.{m}"]
            self.mod.check_method(self.cls, m)
            call = ast.copy_location(ast.Call(func=f, args=[ast.Name(id="self", ctx=ast.Load())] + list(e.args),
                                              keywords=e.keywords), e)
            ast.fix_missing_locations(call)
            return self.apply_sig(sig, self.fn_value(sig), call)
        if isinstance(f.value, ast.Name) and f.value.id in self.vars and self.vars[f.value.id][0] == "rec":
            pyc = RECORDS[self.vars[f.value.id][1]].get("pyclass")
            if pyc and f"{pyc}.{m}" in self.mod.sigs and f.value.id != "self":
                # a translated method of the record's class
                sig = self.mod.sigs[f"{pyc}.{m}"]
                self.mod.check_method(pyc, m)
                call = ast.copy_location(ast.Call(func=f, args=[f.value] + list(e.args), keywords=e.keywords), e)
                ast.fix_missing_locations(call)
                return self.apply_sig(sig, self.fn_value(sig), call)
        if m in ("find", "isascii", "isdigit", "replace") or (m == "split" and len(e.args) == 2):
            snap = self.snapshot()
            c, t, eff = self.expr(f.value)
            if t == STR and m == "find" and len(e.args) == 1 and not e.keywords and self.const_char(e.args[0]):
                return f"(S2T.Py.strFindChar {c} {self.const_char(e.args[0])})", INT, eff
            if t == STR and m == "isascii" and not e.args and not e.keywords:
                return f"(S2T.Py.strIsAscii {c})", BOOL, eff
            if t == STR and m == "isdigit" and not e.args and not e.keywords:
                self.env = True
                return f"(env.isdigit {c})", BOOL, eff
            if t == STR and m == "split" and not e.keywords and self.const_char(e.args[0]) \
                    and isinstance(e.args[1], ast.Constant) and e.args[1].value == 1:
                return f"(S2T.Py.splitOnce {self.const_char(e.args[0])} {c})", Lst(STR), eff
            if t == DT and m == "replace" and not e.args and [k.arg for k in e.keywords] == ["microsecond"]:
                v, tv, ev = self.expr(e.keywords[0].value)
                if tv == INT:
                    self.eff = True
                    return f"(← S2T.Py.dtReplaceMicrosecond {c} {v})", DT, True
            self.restore(snap)
        if m == "keys" and not e.args and not e.keywords:
            c, t, eff = self.expr(f.value)
            if t[0] == "dict":
                return f"(S2T.Py.dictKeys {c})", Lst(t[1]), eff
            raise Unsupported(f".keys() on {lt(t)}")
        if not e.keywords and not e.args:
            c, t, eff = self.expr(f.value)
            if t[0] == "rec" and (t[1], m) in ENV_METHODS:
                fld, conv, rt = ENV_METHODS[(t[1], m)]
                self.env = True
                self.eff = True
                return f"(← env.{fld} ({conv} {c}))", rt, True
        if m in ("split", "join") and not e.keywords:
            c, t, eff = self.expr(f.value)
            if t == STR and m == "split" and len(e.args) == 1 and self.const_char(e.args[0]):
                return f"(S2T.Py.splitOn {self.const_char(e.args[0])} {c})", Lst(STR), eff
            if t == STR and m == "join" and len(e.args) == 1:
                a, ta, ea = self.expr(e.args[0])
                if ta == Lst(STR):
                    return f"(S2T.Py.strJoin {c} {a})", STR, eff or ea
                raise Unsupported(f"str.join of {lt(ta)}")
            raise Unsupported(f"method .{m} on {lt(t)} with these arguments")
        return None

    # ---- statements
    def _stmt(self, st, out, ind, in_loop, in_try):
        if self._stmt_x(st, out, ind, in_loop, in_try):
            return
        super()._stmt(st, out, ind, in_loop, in_try)

    def assign_to(self, target, code, t, node, out, ind, monadic_rhs=False):
        hints = self.opts.get("locals", {})
        if isinstance(target, ast.Name) and target.id in hints and target.id not in self.declared and not monadic_rhs:
            # the whitelist fixes the representation of this local (e.g. a list of objects of several types)
            code, t = self.coerce(code, t, hints[target.id], node), hints[target.id]
        if self.probing and isinstance(target, ast.Name):
            self.first_types.setdefault(target.id, []).append(t)
        super().assign_to(target, code, t, node, out, ind, monadic_rhs)

    def definitely_assigned(self, stmts) -> set:
        """names bound on every path through `stmts` that falls out of its end"""
        out = set()
        for st in stmts:
            if isinstance(st, ast.Assign):
                for t in st.targets:
                    out |= set(self._targets(t))
            elif isinstance(st, ast.AnnAssign) and st.value is not None:
                out |= set(self._targets(st.target))
            elif isinstance(st, ast.If):
                a = None if self.terminal(st.body) else self.definitely_assigned(st.body)
                b = None if (st.orelse and self.terminal(st.orelse)) else self.definitely_assigned(st.orelse)
                if a is None and b is None:
                    pass
                elif a is None:
                    out |= b
                elif b is None:
                    out |= a
                else:
                    out |= a & b
        out.discard("_")
        return out

    def read_after(self, name, st):
        return any(isinstance(n, ast.Name) and n.id == name and isinstance(n.ctx, ast.Load) and n.lineno > st.end_lineno
                   for n in ast.walk(self.node))

    def try_stmt(self, st, out, ind, in_loop):
        """`try` whose body contains `return`: Lean's statement-level `try … catch` (a `return` inside leaves the
        function, an exception raised while computing the returned value is still caught)"""
        has_return = any(isinstance(n, ast.Return) for s in st.body for n in ast.walk(s))
        if not has_return or st.finalbody or st.orelse:
            return super().try_stmt(st, out, ind, in_loop)
        assigned = []
        for s in st.body:
            for n in ast.walk(s):
                if isinstance(n, ast.Name) and isinstance(n.ctx, ast.Store) and n.id != "_" and n.id not in assigned:
                    assigned.append(n.id)
        later = {n.id for n in ast.walk(self.node) if isinstance(n, ast.Name) and isinstance(n.ctx, ast.Load)
                 and n.lineno > st.end_lineno}
        if any(n in later and n not in self.declared for n in assigned):
            raise Unsupported("try body with `return` that also defines names used after the try statement")
        eff0 = self.eff
        self.eff = False
        snap = self.snapshot()
        self.eff = False
        body = self.block(st.body, ind + "  ", in_loop, in_try=False)
        body_eff = self.eff
        if not body_eff:
            self.restore(snap)
            self.eff = eff0
            self.remarks.append(f"try at line {st.lineno - self.node.lineno + 1} of the function: no operation of its "
                                "body can raise in the model (prelude semantics); the except handlers are unreachable "
                                "and were not translated")
            out += self.block(st.body, ind, in_loop, in_try=False, keep=True)
            return
        self.eff = True
        evar = next((h.name for h in st.handlers if h.name), None) or "py_exc"
        hl, first = [], True
        for h in st.handlers:
            if h.type is None:
                test = "true"
            else:
                tys = h.type.elts if isinstance(h.type, ast.Tuple) else [h.type]
                names = []
                for ty in tys:
                    if not isinstance(ty, ast.Name):
                        raise Unsupported("except clause with a non-name class")
                    names.append(self.mod.exc_name(ty.id))
                test = "(" + " || ".join(f"{ident(evar)}.isa {lean_str(n)}" for n in names) + ")"
            if h.name and h.name != evar:
                raise Unsupported("handlers binding different names")
            hv = dict(self.vars), set(self.declared)
            self.vars[evar] = ("exc",)
            hb = self.block(h.body, ind + "    ", in_loop, in_try=False)
            self.vars, self.declared = hv
            hl.append(f"{ind}  {'if' if first else 'else if'} {test} then")
            hl += hb
            first = False
        hl.append(f"{ind}  else throw {ident(evar)}")
        out.append(f"{ind}try")
        out += body
        out.append(f"{ind}catch {ident(evar)} =>")
        out += hl

    def _stmt_x(self, st, out, ind, in_loop, in_try) -> bool:
        # self.<field> = e   (methods of records marked `settable`): functional update of the record
        if isinstance(st, ast.Assign) and len(st.targets) == 1 and self.is_self_attr(st.targets[0]):
            tself = self.vars.get("self", UNK)
            cfg = RECORDS.get(tself[1]) if tself[0] == "rec" else None
            fld = st.targets[0].attr
            if not cfg or not cfg.get("settable") or fld not in cfg["attrs"]:
                raise Unsupported(f"assignment to self.{fld}")
            lf, ft, _ = cfg["attrs"][fld]
            c, t, eff = self.expr(st.value)
            out.append(f"{ind}self := {{ self with {lf} := {self.coerce(c, t, ft, st)} }}")
            return True
        # a, b = <list>   (ValueError unless the list has exactly that many elements)
        if isinstance(st, ast.Assign) and len(st.targets) == 1 and isinstance(st.targets[0], ast.Tuple) \
                and len(st.targets[0].elts) == 2 and all(isinstance(x, ast.Name) for x in st.targets[0].elts):
            snap = self.snapshot()
            c, t, eff = self.expr(st.value)
            if t[0] == "list":
                self.eff = True
                self.assign_to(st.targets[0], f"(← S2T.Py.unpack2 {c})", Tup(t[1], t[1]), st, out, ind)
                return True
            self.restore(snap)
            return False
        if self.self_mut and isinstance(st, ast.Return):
            if st.value is not None and not (isinstance(st.value, ast.Constant) and st.value.value is None):
                raise Unsupported("a method that assigns to self.<field> and returns a value")
            out.append(f"{ind}return self")
            return True
        # xs.append(e) / xs.pop() on a local list
        if isinstance(st, ast.Expr) and isinstance(st.value, ast.Call) and isinstance(st.value.func, ast.Attribute) \
                and st.value.func.attr in INPLACE_METHODS and isinstance(st.value.func.value, ast.Name) \
                and not self.is_logging(st):
            call = st.value
            v = call.func.value.id
            if v not in self.declared or self.vars.get(v, UNK)[0] != "list":
                raise Unsupported(f".{call.func.attr}() on `{v}`, which is not a local list")
            if call.keywords:
                raise Unsupported(f"keyword arguments in .{call.func.attr}()")
            tv = self.vars[v]
            if call.func.attr == "append" and len(call.args) == 1:
                c, t, eff = self.expr(call.args[0])
                c = self.coerce(c, t, tv[1], st)
                out.append(f"{ind}{ident(v)} := (S2T.Py.listAppend {ident(v)} {c})")
                return True
            if call.func.attr == "pop" and not call.args:
                self.eff = True
                out.append(f"{ind}{ident(v)} := (← S2T.Py.listPop {ident(v)}).1")
                return True
            raise Unsupported(f".{call.func.attr}() with these arguments")
        # x: List[T] = []
        if isinstance(st, ast.AnnAssign) and isinstance(st.value, ast.List) and not st.value.elts \
                and isinstance(st.target, ast.Name):
            t = self.annot(st.annotation)
            if t is None or t[0] != "list":
                raise Unsupported(f"empty list with the annotation {ast.unparse(st.annotation)}")
            self.assign_to(st.target, "[]", t, st, out, ind)
            return True
        # names bound in every branch of an if / elif / else and read afterwards: declared before the `if`
        if isinstance(st, ast.If) and st.orelse:
            hoist = [n for n in sorted(self.definitely_assigned([st])) if n not in self.declared and n not in self.vars
                     and self.read_after(n, st)]
            if hoist:
                snap = self.snapshot()
                self.probing += 1
                saved_ft, self.first_types = self.first_types, {}
                try:
                    FuncTr._stmt(self, st, [], ind, in_loop, in_try)
                except Unsupported:
                    pass
                seen = self.first_types
                self.first_types = saved_ft
                self.probing -= 1
                self.restore(snap)
                for n in hoist:
                    ts = seen.get(n, [])
                    t = ts[0] if ts else None
                    for u in ts[1:]:
                        t = unify(t, u) if t is not None else None
                    if t is None or t == UNK:
                        raise Unsupported(f"`{n}` is bound in every branch of this `if` but not with one type")
                    self.vars[n] = t
                    self.declared.add(n)
                    self.mut.add(n)
                    self.out_of_scope.discard(n)
                    out.append(f"{ind}let mut {ident(n)} : {lt(t)} := default  -- bound in every branch of the `if` below")
                FuncTr._stmt(self, st, out, ind, in_loop, in_try)
                return True
        return False


    # ---- the function (pyfun.FuncTr.translate generalised: env type of the module, methods updating `self`)
    def translate(self):
        node = self.node
        for d in node.decorator_list:
            dn = d.func if isinstance(d, ast.Call) else d
            if not (isinstance(dn, ast.Name) and dn.id in pyfun.IGNORED_DECORATORS):
                self.note(node, f"decorator {ast.unparse(d)}")
        a = node.args
        if a.vararg or a.kwarg or a.posonlyargs:
            self.note(node, "*args / **kwargs / positional-only parameters")
        params, defaults = [], {}
        allargs = list(a.args) + list(a.kwonlyargs)
        dvals = [None] * (len(a.args) - len(a.defaults)) + list(a.defaults) + list(a.kw_defaults)
        for arg, dv in zip(allargs, dvals):
            t = self.opts.get("types", {}).get(arg.arg) or self.annot(arg.annotation)
            if t is None:
                self.note(arg, f"parameter `{arg.arg}` has no mapped annotation ({ast.unparse(arg.annotation) if arg.annotation else 'none'})")
                t = UNK
            params.append((arg.arg, t))
            self.vars[arg.arg] = t
            self.declared.add(arg.arg)
        self.self_mut = bool(self.cls) and any(
            isinstance(n, (ast.Assign, ast.AugAssign, ast.AnnAssign))
            and any(self.is_self_attr(t) for t in (n.targets if isinstance(n, ast.Assign) else [n.target]))
            for n in ast.walk(node))
        self.analyse()
        for arg, dv in zip(allargs, dvals):
            if dv is not None:
                c, t, eff = self.expr(dv)
                if eff:
                    self.note(dv, "default value that may raise")
                defaults[arg.arg] = self.coerce(c, t, self.vars[arg.arg], dv)
        # a re-assigned parameter is a local initialised with the argument (`let mut p := p`)
        reassigned = [p for p, _ in params if p in self.mut and p != "self"]
        if "ret" in self.opts:
            self.ret = self.opts["ret"]
        else:
            self.ret = self.annot(node.returns)
            if self.ret is None and node.returns is not None:
                self.note(node, f"return annotation {ast.unparse(node.returns)} is not mapped")
        if self.self_mut:
            if self.ret not in (None, NONE):
                self.note(node, "a method that assigns to self.<field> and returns a value")
            self.ret = self.vars["self"]       # the updated record is the result
        pre = []
        if self.self_mut:
            pre.append("  let mut self := self")
        for p in reassigned:
            pre.append(f"  let mut {ident(p)} := {ident(p)}")
        body = pre + self.block(node.body, "  ", False, keep=True)
        if self.ret is None:
            self.ret = NONE
        if not self.terminal(node.body):
            if self.self_mut:
                body.append("  return self")
            elif self.ret == NONE:
                pass
            elif self.ret[0] == "opt":
                body.append("  return none")
            else:
                self.note(node, "control can reach the end of a function whose result type is not None-able")
        sig = Sig(f"S2T.Gen.{self.mod.name}.{ident(self.name)}", params, self.ret, self.eff, self.env, defaults)
        ps = "".join(f" ({ident(p)} : {lt(t)})" for p, t in params)
        envp = f" (env : {self.mod.cfg.get('envtype', 'S2T.Py.Env')})" if self.env else ""
        rt = lt(self.ret)
        L = [f"/-- `{self.name}` of {self.mod.cfg['src']}" + "".join("\n    " + r for r in self.remarks) + " -/"]
        if self.eff:
            L.append(f"def {ident(self.name)}{envp}{ps} : S2T.Py.M {rt} := do")
        else:
            L.append(f"def {ident(self.name)}{envp}{ps} : {rt} := Id.run do")
        L += body
        return "\n".join(L) + "\n", sig


# ----------------------------------------------------------------------------- one module
class ModTrX(ModTr):
    def __init__(self, name):
        super().__init__(name)

    def check_name(self, name, pyobj):
        """the module-level name `name` is the object `pkg.mod.attr` at run time"""
        import importlib
        modname, attr = pyobj.rsplit(".", 1)
        if getattr(self.pymod, name, None) is not getattr(importlib.import_module(modname), attr, object()):
            self.notes.append(f"{self.cfg['src']}: `{name}` is not {pyobj} at run time")

    def check_dotted(self, d, pyobj):
        """the dotted name `d` of the module text is the object `pyobj` at run time"""
        import importlib
        obj = self.pymod
        for part in d.split("."):
            obj = getattr(obj, part, None)
        want = None
        parts = pyobj.split(".")
        for i in range(len(parts) - 1, 0, -1):
            try:
                want = importlib.import_module(".".join(parts[:i]))
            except ImportError:
                continue
            for q in parts[i:]:
                want = getattr(want, q, None)
            break
        if obj is None or want is None or obj != want:
            self.notes.append(f"{self.cfg['src']}: `{d}` is not {pyobj} at run time")

    def check_dataclass(self, name, cfg):
        """`name` is a dataclass of this module with exactly the fields of the record table; -> constant defaults"""
        import dataclasses
        cls = getattr(self.pymod, name, None)
        if not (isinstance(cls, type) and dataclasses.is_dataclass(cls)):
            self.notes.append(f"{self.cfg['src']}: `{name}` is not a dataclass at run time")
            return {}
        flds = dataclasses.fields(cls)
        if [f.name for f in flds] != cfg["ctor"]:
            self.notes.append(f"{self.cfg['src']}: fields of `{name}` are {[f.name for f in flds]}, the record table says {cfg['ctor']}")
        out = {}
        for f in flds:
            d = f.default
            if isinstance(d, bool): out[f.name] = "true" if d else "false"
            elif isinstance(d, int): out[f.name] = f"({d} : Int)"
            elif isinstance(d, str): out[f.name] = chars(d)
            elif d is None: out[f.name] = "none"
        return out

    def check_method(self, cls, m):
        """`self.m` on an instance of `cls` is the method defined in the body of `cls` (not inherited / overridden)"""
        c = getattr(self.pymod, cls, None)
        if not isinstance(c, type) or m not in vars(c):
            self.notes.append(f"{self.cfg['src']}: `{cls}.{m}` is not defined in the body of the class")

    def check_self_record(self, fname, opts):
        """a method whose `self` is a record: the record's attributes are dataclass fields of the class, or (plain
        class) attributes the class body assigns through `self.<attr> = …`"""
        import dataclasses
        t = opts.get("types", {}).get("self")
        if "." not in fname or not t or t[0] != "rec":
            return
        cname = fname.rsplit(".", 1)[0]
        c = getattr(self.pymod, cname, None)
        if not isinstance(c, type):
            self.notes.append(f"{self.cfg['src']}: `{fname}`: `{cname}` is not a class at run time")
            return
        if dataclasses.is_dataclass(c):
            have = {f.name for f in dataclasses.fields(c)}
        else:
            cd = next((n for n in parse(self.cfg["src"]).body if isinstance(n, ast.ClassDef) and n.name == cname), None)
            have = {n.attr for n in ast.walk(cd) if isinstance(n, ast.Attribute) and isinstance(n.ctx, ast.Store)
                    and isinstance(n.value, ast.Name) and n.value.id == "self"} if cd else set()
        for a in RECORDS[t[1]]["attrs"]:
            if a not in have:
                self.notes.append(f"{self.cfg['src']}: `{fname}`: the class has no field / assigned attribute `{a}` (record {t[1]})")

    def _runtime(self, qual):
        obj = self.pymod
        for part in qual.split("."):
            obj = getattr(obj, part, None) if not isinstance(obj, dict) else obj.get(part)
            if obj is None:
                return None
        if isinstance(obj, (staticmethod, classmethod)):
            obj = obj.__func__
        return getattr(obj, "__wrapped__", obj)

    def run(self):
        tree = parse(self.cfg["src"])
        fdefs = {n.name: n for n in tree.body if isinstance(n, ast.FunctionDef)}
        for cls in tree.body:
            if isinstance(cls, ast.ClassDef):
                for n in cls.body:
                    if isinstance(n, ast.FunctionDef):
                        fdefs[f"{cls.name}.{n.name}"] = n
        for u in self.cfg["uses"]:
            used = translate_module(u)
            # module-level `from <used module> import f`: f is the translated function of that module
            umod = fresh_import(MODULES[u]["pymod"])
            for node in tree.body:
                if isinstance(node, ast.ImportFrom) and node.level == 0 and node.module == MODULES[u]["pymod"]:
                    for a in node.names:
                        nm = a.asname or a.name
                        if a.name in used["sigs"]:
                            if getattr(self.pymod, nm, None) is not getattr(umod, a.name, object()):
                                self.notes.append(f"{self.cfg['src']}: `{nm}` is not {MODULES[u]['pymod']}.{a.name} at run time")
                            self.sigs[nm] = used["sigs"][a.name]
        for fr in self.cfg.get("funcrefs", []):
            obj = getattr(self.pymod, fr, None)
            if obj is None or not callable(obj) or fr not in fdefs:
                self.notes.append(f"{self.cfg['src']}: `{fr}` is not a module-level function")
                continue
            self.funcrefs[fr] = f"ref_{fr}"
        defs = []
        own = []
        for fname, opts in self.cfg["funcs"]:
            if fname not in fdefs:
                self.notes.append(f"{self.cfg['src']}: function `{fname}` not found")
                continue
            obj = self._runtime(fname)
            if getattr(getattr(obj, "__code__", None), "co_firstlineno", None) not in (
                    fdefs[fname].lineno, *(d.lineno for d in fdefs[fname].decorator_list)):
                self.notes.append(f"{self.cfg['src']}: runtime `{fname}` is not the function defined in the source text")
            self.check_self_record(fname, opts)
            ft = FuncTrX(self, fdefs[fname], opts, qualname=fname)
            text, sig = ft.translate()
            self.sigs[fname] = sig
            own.append(fname)
            defs.append(text)
        self.notes = list(dict.fromkeys(self.notes))
        # inventory: every call, anywhere in this source file, of a function translated in a `uses` module
        # (enclosing function, callee, source text of the arguments) — the constants a caller passes are part of the tie
        sites = []
        imported = {n for n in self.sigs if n not in own}
        par = _parents(tree)
        for node in ast.walk(tree):
            if isinstance(node, ast.Call) and isinstance(node.func, ast.Name) and node.func.id in imported:
                enc, q = "<module>", node
                while q in par:
                    q = par[q]
                    if isinstance(q, (ast.FunctionDef, ast.AsyncFunctionDef)):
                        enc = q.name
                        break
                args = [ast.unparse(a) for a in node.args] + [f"{k.arg}={ast.unparse(k.value)}" for k in node.keywords]
                sites.append((node.lineno, enc, node.func.id, args))
            elif isinstance(node, ast.Name) and node.id in imported and isinstance(node.ctx, ast.Load) \
                    and not (isinstance(par.get(node), ast.Call) and par[node].func is node):
                sites.append((node.lineno, "<value>", node.id, []))   # passed around as a value: not a visible call
        sites.sort()
        L = [HEADER.format(src=self.cfg["src"])]
        L.append("import S2T.Py.Prelude")
        for i in self.cfg["imports"]:
            L.append(f"import {i}")
        for u in self.cfg["uses"]:
            L.append(f"import S2T.Gen.{u}")
        L.append("set_option linter.unusedVariables false")
        L.append(f"namespace S2T.Gen.{self.name}\n")
        for cn, mro in sorted(self.excs.items()):
            L.append(f"/-- `raise {cn}(…)` at the `site`-th raise statement of `func` (message dropped) -/")
            L.append(f"def exc_{cn} (func : String) (site : Nat) : S2T.Py.Exc :=\n  ⟨{lean_str(cn)}, ["
                     + ", ".join(lean_str(m) for m in mro) + "], func, site⟩\n")
        for fr, ln in sorted(self.funcrefs.items()):
            obj = getattr(self.pymod, fr)
            L.append(f"/-- the module-level function `{fr}` as a value -/")
            L.append(f"def {ln} : S2T.Py.Extractor := ({chars(obj.__module__)}, {chars(obj.__name__)})\n")
        L += defs
        L.append("/-- names of the translated functions, source order of the whitelist -/")
        L.append("def translated : List String := " + lean_list((lean_str(f) for f in own), per_line=4) + "\n")
        if self.cfg["uses"]:
            L.append("/-- every call in this file of a function translated in another module: (enclosing function, callee, arguments as written) -/")
            L.append("def call_sites : List (String × String × List String) := " + lean_list(
                f"({lean_str(enc)}, {lean_str(cal)}, {lean_list((lean_str(a) for a in args), per_line=8, indent='')})".replace("\n", " ")
                for _, enc, cal, args in sites) + "\n")
        L.append("/-- constructs the translator did not understand (must be empty) -/")
        L.append("def notes : List String := " + lean_list(lean_str(n) for n in self.notes) + "\n")
        L.append(f"end S2T.Gen.{self.name}\n")
        return "\n".join(L)


def translate_module(name):
    if name not in XMODULES:
        return pyfun.translate_module(name)
    if name not in pyfun._DONE:
        m = ModTrX(name)
        text = m.run()
        pyfun._DONE[name] = {"text": text, "sigs": m.sigs, "notes": m.notes}
    return pyfun._DONE[name]


def _mk(name):
    def gen():
        return translate_module(name)["text"]
    gen.__name__ = "gen_" + name
    return gen


for _name in XMODULES:
    generator(_name)(_mk(_name))
