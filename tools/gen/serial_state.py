"""C05: state that outlives a call on the serialisation path -> S2T/Gen/SerialState.lean

The round trip is only a function of its argument if nothing on the path to_json / serialize_extraction /
from_json / deserialize_extraction / the CLI payload shaping remembers anything between calls, except the
lazily populated `_TYPE_REGISTRY` used exactly as the model `S2T/Model/SerialState.lean` says.  This generator
reads from the *current* tree

* `cells`   every state cell of the serialisation path:
              - module-level names of serialization.py (and, as `cli:<name>`, of cli.py) whose runtime value is a
                mutable container (cross-checked with the AST: assigned at module level), names rebound through `global`;
              - `functools` cache decorators, mutable default arguments, function attributes, and attribute
                stores on an argument (`self._cache = …`, `value.x = …`, `setattr`) inside the path functions
                (serialization.py: all; cli.py: `_serialize*`; data_types.py: every `to_json` / `from_json`);
* `sites`   every mention of a cell (or of a local alias of it: `registry = _get_type_registry()`), package-wide,
              classified by what it does — (cell, function, kind) with kind one of
              decl-empty / decl, guard-return (`if CELL: return CELL` opening a function), fill (`CELL[k] = v`
              inside `for k in dir(data_types)` under an `is_dataclass` test), return, read (`k in CELL`,
              `CELL[k]` load, `CELL.get(k)`), write (any other store / mutating method / rebind),
              escape (passed on, stored, iterated, … — anything else), foreign (mentioned from another module);
              no line numbers, no local variable names: a re-formatting or renaming does not change it;
* `serPath` / `deserPath`   functions of serialization.py reachable from `serialize_extraction` /
              `deserialize_extraction` through calls by name;
* `registryUsers`  functions calling the lazy loader;
* `methodBodies`   the distinct bodies of all `to_json` / `from_json` methods of data_types.py.
"""
import ast
import importlib
import os

from translate import HEADER, REPO, generator, lean_list, lean_str

SER = "sharepoint2text/parsing/extractors/serialization.py"
DT = "sharepoint2text/parsing/extractors/data_types.py"
CLI = "sharepoint2text/cli.py"
MUT_METHODS = {"append", "add", "update", "pop", "popitem", "clear", "move_to_end", "setdefault", "extend",
               "insert", "remove", "discard", "sort", "reverse", "appendleft", "popleft", "__setitem__", "__delitem__"}
MUTABLE = (dict, list, set, bytearray)


def _parse(rel):
    with open(os.path.join(REPO, rel), encoding="utf-8") as fh:
        return ast.parse(fh.read(), filename=rel)


def _package_files():
    root = os.path.join(REPO, "sharepoint2text")
    for dp, dns, fns in os.walk(root):
        dns[:] = sorted(d for d in dns if d not in ("tests", "__pycache__"))
        for fn in sorted(fns):
            if fn.endswith(".py"):
                yield os.path.relpath(os.path.join(dp, fn), REPO)


def _functions(tree):
    """(qualified name, node) of every outermost function / method"""
    out = []

    def visit(node, prefix):
        for ch in ast.iter_child_nodes(node):
            if isinstance(ch, (ast.FunctionDef, ast.AsyncFunctionDef)):
                out.append((prefix + ch.name, ch))
            elif isinstance(ch, ast.ClassDef):
                visit(ch, prefix + ch.name + ".")
            elif not isinstance(ch, (ast.expr, ast.Import, ast.ImportFrom)):
                visit(ch, prefix)

    visit(tree, "")
    return out


def _parents(root):
    par = {}
    for n in ast.walk(root):
        for ch in ast.iter_child_nodes(n):
            par[ch] = n
    return par


def _body_wo_doc(f):
    b = list(f.body)
    if b and isinstance(b[0], ast.Expr) and isinstance(b[0].value, ast.Constant) and isinstance(b[0].value.value, str):
        b = b[1:]
    return b


def _is_name(n, names):
    return isinstance(n, ast.Name) and n.id in names


def _classify(node, par, f, names):
    """kind of one mention `node` (an ast.Name whose id is the cell or an alias of it) inside function f"""
    p = par.get(node)
    # if CELL: return CELL   (opening statement)
    body = _body_wo_doc(f)
    if body and isinstance(body[0], ast.If):
        g = body[0]
        if (g.test is node and not g.orelse and len(g.body) == 1 and isinstance(g.body[0], ast.Return)
                and _is_name(g.body[0].value, names)):
            return "guard-return"
        if isinstance(p, ast.Return) and p is g.body[0] and g.test is not node and _is_name(g.test, names) \
                and not g.orelse and len(g.body) == 1:
            return "guard-return"
    if isinstance(p, ast.Return) and p.value is node:
        return "return"
    if isinstance(p, ast.Compare) and len(p.ops) == 1 and isinstance(p.ops[0], (ast.In, ast.NotIn)) and p.comparators[0] is node:
        return "read"
    if isinstance(p, ast.Subscript) and p.value is node:
        if isinstance(p.ctx, ast.Load):
            return "read"
        if isinstance(p.ctx, ast.Store) and _is_fill(p, par):
            return "fill"
        return "write"
    if isinstance(p, ast.Attribute) and p.value is node:
        pp = par.get(p)
        if isinstance(pp, ast.Call) and pp.func is p:
            if p.attr in ("get", "keys", "__contains__"):
                return "read" if p.attr == "get" else "escape"
            if p.attr in MUT_METHODS:
                return "write"
        return "escape"
    if isinstance(node.ctx, (ast.Store, ast.Del)):
        return "write"
    return "escape"


def _is_fill(sub, par):
    """`CELL[name] = obj` inside `for name in dir(data_types)` and under a test calling is_dataclass"""
    assign = par.get(sub)
    if not (isinstance(assign, ast.Assign) and len(assign.targets) == 1 and assign.targets[0] is sub):
        return False
    in_loop = under_test = False
    n = assign
    while n in par:
        n = par[n]
        if isinstance(n, ast.If) and "is_dataclass(" in ast.unparse(n.test) and "isinstance(" in ast.unparse(n.test):
            under_test = True
        if isinstance(n, ast.For) and ast.unparse(n.iter) == "dir(data_types)" and isinstance(n.target, ast.Name) \
                and isinstance(sub.slice, ast.Name) and sub.slice.id == n.target.id and not n.orelse:
            in_loop = True
    return in_loop and under_test


def _calls(f):
    out = set()
    for n in ast.walk(f):
        if isinstance(n, ast.Call):
            s = ast.unparse(n.func)
            out.add(s.split(".")[-1])
    return out


def _path_functions():
    """{(file, qualname): node} of the serialisation path"""
    out = {}
    for q, f in _functions(_parse(SER)):
        out[(SER, q)] = f
    for q, f in _functions(_parse(CLI)):
        if q.startswith("_serialize"):
            out[(CLI, q)] = f
    for q, f in _functions(_parse(DT)):
        if q.split(".")[-1] in ("to_json", "from_json"):
            out[(DT, q)] = f
    return out


def scan():
    S = importlib.import_module("sharepoint2text.parsing.extractors.serialization")
    tree = _parse(SER)
    notes = []
    modlevel = {}
    for n in tree.body:
        tg, val = [], None
        if isinstance(n, ast.Assign):
            tg, val = [t for t in n.targets if isinstance(t, ast.Name)], n.value
        elif isinstance(n, ast.AnnAssign) and isinstance(n.target, ast.Name):
            tg, val = [n.target], n.value
        elif isinstance(n, ast.AugAssign) and isinstance(n.target, ast.Name):
            tg, val = [n.target], n.value
        for t in tg:
            modlevel.setdefault(t.id, []).append(val)
    cells = set()
    # runtime: module attributes holding a mutable container that are not imported modules / functions / classes
    for name, v in sorted(vars(S).items()):
        if name.startswith("__"):
            continue
        if isinstance(v, MUTABLE) or type(v).__name__ in ("OrderedDict", "defaultdict", "deque", "Counter", "WeakValueDictionary",
                                                         "WeakKeyDictionary", "ChainMap", "local"):
            cells.add(name)
            if name not in modlevel:
                notes.append(f"state cell {name} of serialization.py is not assigned at module level")
    for q, f in _functions(tree):
        for n in ast.walk(f):
            if isinstance(n, ast.Global):
                cells |= set(n.names)
    # cli.py: module-level mutable containers and `global` names (the CLI payload shaping is on the path)
    C = importlib.import_module("sharepoint2text.cli")
    for name, v in sorted(vars(C).items()):
        if not name.startswith("__") and (isinstance(v, MUTABLE) or type(v).__name__ in ("OrderedDict", "defaultdict", "deque", "Counter")):
            cells.add(f"cli:{name}")
    for q, f in _functions(_parse(CLI)):
        for n in ast.walk(f):
            if isinstance(n, ast.Global):
                cells |= {f"cli:{g}" for g in n.names}
    # function-local kinds of state on the path
    path = _path_functions()
    for (rel, q), f in sorted(path.items()):
        params = {a.arg for a in ast.walk(f.args) if isinstance(a, ast.arg)}
        for g in ast.walk(f):
            if isinstance(g, (ast.FunctionDef, ast.AsyncFunctionDef)):
                for dec in g.decorator_list:
                    if "cache" in ast.unparse(dec):
                        cells.add(f"cache:{q}")
                for d in list(g.args.defaults) + [d for d in g.args.kw_defaults if d is not None]:
                    if isinstance(d, (ast.Dict, ast.List, ast.Set, ast.ListComp, ast.DictComp, ast.SetComp)) or \
                            (isinstance(d, ast.Call) and ast.unparse(d.func) in ("dict", "list", "set", "bytearray", "defaultdict", "OrderedDict")):
                        cells.add(f"default:{q}")
        fnames = {x.split(".")[-1] for (_, x) in path}
        for n in ast.walk(f):
            tgs = []
            if isinstance(n, ast.Assign):
                tgs = list(n.targets)
            elif isinstance(n, (ast.AugAssign, ast.AnnAssign)):
                tgs = [n.target]
            elif isinstance(n, ast.Delete):
                tgs = list(n.targets)
            flat = []
            for t in tgs:
                flat += list(t.elts) if isinstance(t, (ast.Tuple, ast.List)) else [t]
            for t in flat:
                if isinstance(t, ast.Attribute):
                    base = t
                    while isinstance(base, (ast.Attribute, ast.Subscript)):
                        base = base.value
                    if isinstance(base, ast.Name) and (base.id in params or base.id in fnames or base.id in ("cls",)):
                        cells.add(f"attr:{q}")
            if isinstance(n, ast.Call) and isinstance(n.func, ast.Name) and n.func.id in ("setattr", "delattr"):
                cells.add(f"attr:{q}")
            if isinstance(n, ast.Call) and isinstance(n.func, ast.Attribute) and n.func.attr in ("__setattr__", "__dict__"):
                cells.add(f"attr:{q}")
    # sites of the named cells, package-wide
    named = sorted(c for c in cells if ":" not in c)
    loaders = set()
    sites = set()
    for c in named:
        for val in modlevel.get(c, []):
            empty = (isinstance(val, ast.Dict) and not val.keys) or (isinstance(val, (ast.List, ast.Set)) and not val.elts) or \
                    (isinstance(val, ast.Call) and ast.unparse(val.func) in ("dict", "list", "set") and not val.args and not val.keywords)
            sites.add((c, "<module>", "decl-empty" if empty else "decl"))
        if len(modlevel.get(c, [])) != 1:
            notes.append(f"state cell {c}: {len(modlevel.get(c, []))} module-level assignments")
    # first pass: functions returning the cell (loaders)
    for q, f in _functions(tree):
        for n in ast.walk(f):
            if isinstance(n, ast.Return) and _is_name(n.value, set(named)):
                loaders.add(q)
    users = set()
    for q, f in _functions(tree):
        par = _parents(f)
        alias = {}     # local name -> cell
        for n in ast.walk(f):
            if isinstance(n, ast.Assign) and len(n.targets) == 1 and isinstance(n.targets[0], ast.Name):
                v = n.value
                if isinstance(v, ast.Call) and ast.unparse(v.func).split(".")[-1] in loaders:
                    alias[n.targets[0].id] = named[0] if len(named) == 1 else "?"
                    users.add(q)
                elif _is_name(v, set(named)):
                    alias[n.targets[0].id] = v.id
            elif isinstance(n, ast.Call) and ast.unparse(n.func).split(".")[-1] in loaders:
                users.add(q)
                p = par.get(n)
                if not (isinstance(p, ast.Assign) and len(p.targets) == 1 and isinstance(p.targets[0], ast.Name)):
                    sites.add((named[0] if len(named) == 1 else "?", q, "escape"))  # result of the loader used in place
        names = set(named) | set(alias)
        for n in ast.walk(f):
            if isinstance(n, ast.Name) and n.id in names:
                cell = alias.get(n.id, n.id)
                p = par.get(n)
                if n.id in alias and isinstance(n.ctx, ast.Store) and isinstance(p, ast.Assign):
                    continue   # the binding of the alias itself
                if n.id in alias and n.id in named:
                    pass
                sites.add((cell, q, _classify(n, par, f, names)))
            if isinstance(n, (ast.Global,)):
                for g in n.names:
                    sites.add((g, q, "write"))
    # mentions from other modules
    for rel in _package_files():
        if rel == SER:
            continue
        t = _parse(rel)
        for n in ast.walk(t):
            if isinstance(n, ast.Attribute) and n.attr in named:
                sites.add((n.attr, rel, "foreign"))
            if isinstance(n, ast.ImportFrom) and n.module and n.module.endswith("serialization"):
                for a in n.names:
                    if a.name in named or a.name == "*":
                        sites.add((a.name, rel, "foreign"))
            if isinstance(n, ast.Name) and n.id in named:
                sites.add((n.id, rel, "foreign"))
    # call graph inside serialization.py
    fns = dict(_functions(tree))

    def reach(start):
        seen, todo = set(), [start]
        while todo:
            q = todo.pop()
            if q in seen or q not in fns:
                continue
            seen.add(q)
            todo += [c for c in _calls(fns[q]) if c in fns]
        return sorted(seen)

    # what the to_json / from_json methods of data_types.py do (bodies without docstring, distinct)
    bodies = set()
    for q, f in _functions(_parse(DT)):
        m = q.split(".")[-1]
        if m in ("to_json", "from_json"):
            b = _body_wo_doc(f)
            text = "; ".join(ast.unparse(st) for st in b)
            if text in ("...", "pass", ""):
                text = "<abstract>"
            bodies.add((m, text))
    return {"cells": sorted(cells), "sites": sorted(sites), "ser": reach("serialize_extraction"), "bodies": sorted(bodies),
            "deser": reach("deserialize_extraction"), "users": sorted(users), "loaders": sorted(loaders), "notes": notes}


@generator("SerialState")
def gen_serial_state() -> str:
    r = scan()
    L = [HEADER.format(src=f"{SER}, cli.py, data_types.py (state cells of the serialisation path)")]
    L.append("namespace S2T.Gen.SerialState\n")
    L.append("/-- state cells of the serialisation path (module-level mutable containers of serialization.py, `global` names, "
             "caches / mutable defaults / attribute stores in path functions) -/")
    L.append("def cells : List String := " + lean_list((lean_str(c) for c in r["cells"]), per_line=4) + "\n")
    L.append("/-- (cell, function, kind) of every mention of a named cell or of a local alias of it -/")
    L.append("def sites : List (String × String × String) := "
             + lean_list(f"({lean_str(c)}, {lean_str(f)}, {lean_str(k)})" for c, f, k in r["sites"]) + "\n")
    L.append("/-- functions of serialization.py reachable from `serialize_extraction` -/")
    L.append("def serPath : List String := " + lean_list((lean_str(c) for c in r["ser"]), per_line=4) + "\n")
    L.append("/-- functions of serialization.py reachable from `deserialize_extraction` -/")
    L.append("def deserPath : List String := " + lean_list((lean_str(c) for c in r["deser"]), per_line=4) + "\n")
    L.append("/-- functions that return a cell (lazy loaders) and functions that call one -/")
    L.append("def loaders : List String := " + lean_list((lean_str(c) for c in r["loaders"]), per_line=4))
    L.append("def registryUsers : List String := " + lean_list((lean_str(c) for c in r["users"]), per_line=4) + "\n")
    L.append("/-- distinct bodies of the `to_json` / `from_json` methods of data_types.py -/")
    L.append("def methodBodies : List (String × String) := "
             + lean_list(f"({lean_str(m)}, {lean_str(b)})" for m, b in r["bodies"]) + "\n")
    L.append("/-- translator cross-check notes; must be empty -/")
    L.append("def notes : List String := " + lean_list(lean_str(x) for x in r["notes"]) + "\n")
    L.append("end S2T.Gen.SerialState\n")
    return "\n".join(L)
