"""C14: image tables -> S2T/Gen/Images.lean

* `_CONTENT_TYPE_MAP` of the docx / pptx / xlsx extractors (runtime value cross-checked with the AST literal),
* the JPEG start-of-frame marker sets of the four dimension sniffers (`_JPEG_SOF_MARKERS` in docx / xlsx,
  the inline tuples in the pptx copy and in `image_utils.get_jpeg_dimensions`),
* whether the docx and xlsx copies of `_get_image_pixel_dimensions` are the same program (AST equality),
* the image signatures of `util/image_utils.py`, `EMU_PER_PIXEL`, the order of `ANCHOR_TYPES`.
"""
import ast

from translate import HEADER, ast_literal_assign, chars, fresh_import, generator, lean_list, lean_str, nat_list, parse

DOCX = "sharepoint2text/parsing/extractors/ms_modern/docx_extractor.py"
PPTX = "sharepoint2text/parsing/extractors/ms_modern/pptx_extractor.py"
XLSX = "sharepoint2text/parsing/extractors/ms_modern/xlsx_extractor.py"
UTIL = "sharepoint2text/parsing/extractors/util/image_utils.py"


def _func(rel, name):
    for node in ast.walk(parse(rel)):
        if isinstance(node, ast.FunctionDef) and node.name == name:
            return node
    raise KeyError(f"{rel}: no function {name}")


def _inline_marker_tuples(fn):
    """int tuples used as the right operand of `marker in (...)` inside fn"""
    out = []
    for node in ast.walk(fn):
        if isinstance(node, ast.Compare) and len(node.ops) == 1 and isinstance(node.ops[0], ast.In):
            c = node.comparators[0]
            if isinstance(c, (ast.Tuple, ast.List, ast.Set)) and all(isinstance(e, ast.Constant) and isinstance(e.value, int) for e in c.elts):
                out.append([e.value for e in c.elts])
    return out


def _body_dump(fn):
    """AST of a function without its docstring and annotations' formatting"""
    body = fn.body[1:] if fn.body and isinstance(fn.body[0], ast.Expr) and isinstance(getattr(fn.body[0], "value", None), ast.Constant) else fn.body
    return "\n".join(ast.dump(s) for s in body)


def _probe_markers(fn, util=False):
    """(sof, stop) marker sets of a JPEG walker, read off its behaviour: a marker is a frame marker when a segment
    carrying it is answered with that segment's size; it is a stop marker when a well-formed frame header after it is
    no longer found."""
    import struct
    sof, stop = [], []
    frame = b"\x08" + struct.pack(">HH", 2, 3) + b"\x03\x01\x11\x00\x02\x11\x01\x03\x11\x01"
    for m in range(1, 255):
        seg = bytes([0xFF, m]) + struct.pack(">H", len(frame) + 2) + frame
        d1 = b"\xff\xd8" + seg + b"\x00" * 12
        r1 = fn(d1, "jpeg") if util else fn(d1)
        if tuple(r1) == (3, 2):
            sof.append(m)
            continue
        d2 = b"\xff\xd8" + bytes([0xFF, m, 0, 4, 0, 0]) + bytes([0xFF, 0xC0]) + struct.pack(">H", len(frame) + 2) + frame + b"\x00" * 12
        r2 = fn(d2, "jpeg") if util else fn(d2)
        if tuple(r2) == (None, None):
            stop.append(m)
    return sof, stop


@generator("Images")
def gen_images() -> str:
    docx = fresh_import("sharepoint2text.parsing.extractors.ms_modern.docx_extractor")
    pptx = fresh_import("sharepoint2text.parsing.extractors.ms_modern.pptx_extractor")
    xlsx = fresh_import("sharepoint2text.parsing.extractors.ms_modern.xlsx_extractor")
    util = fresh_import("sharepoint2text.parsing.extractors.util.image_utils")
    notes = []
    maps = {}
    for nm, mod, rel in (("docx", docx, DOCX), ("pptx", pptx, PPTX), ("xlsx", xlsx, XLSX)):
        val = dict(mod._CONTENT_TYPE_MAP)
        lit = ast_literal_assign(rel, "_CONTENT_TYPE_MAP")
        if lit is None:
            notes.append(f"{nm}._CONTENT_TYPE_MAP: not a literal in the source")
        elif lit != val:
            notes.append(f"{nm}._CONTENT_TYPE_MAP: runtime value differs from the source literal")
        maps[nm] = val
    sof, stop = {}, {}
    for nm, mod in (("docx", docx), ("xlsx", xlsx), ("pptx", pptx)):
        sof[nm], stop[nm] = _probe_markers(mod._get_image_pixel_dimensions)
    sof["util"], stop["util"] = _probe_markers(util.get_image_dimensions, util=True)
    # cross-check with the source literals where the source still has them in the expected place
    for nm, mod, rel in (("docx", docx, DOCX), ("xlsx", xlsx, XLSX)):
        if hasattr(mod, "_JPEG_SOF_MARKERS") and sorted(mod._JPEG_SOF_MARKERS) != sof[nm]:
            notes.append(f"{nm}._JPEG_SOF_MARKERS differs from the markers the sniffer answers to: {sorted(mod._JPEG_SOF_MARKERS)} vs {sof[nm]}")
    for nm, rel, fname in (("pptx", PPTX, "_get_image_pixel_dimensions"), ("util", UTIL, "get_jpeg_dimensions")):
        try:
            tp = [t for t in _inline_marker_tuples(_func(rel, fname)) if len(t) > 2]
        except KeyError:
            tp = []
        if len(tp) == 1 and sorted(tp[0]) != sof[nm]:
            notes.append(f"{nm}.{fname}: inline marker tuple differs from the markers the function answers to")
    same = _body_dump(_func(DOCX, "_get_image_pixel_dimensions")) == _body_dump(_func(XLSX, "_get_image_pixel_dimensions"))
    anchor_names = []
    for node in parse(XLSX).body:
        if isinstance(node, ast.Assign) and any(isinstance(t, ast.Name) and t.id == "ANCHOR_TYPES" for t in node.targets):
            anchor_names = [e.id for e in node.value.elts if isinstance(e, ast.Name)]
    if [getattr(xlsx, n) for n in anchor_names] != list(xlsx.ANCHOR_TYPES):
        notes.append("xlsx.ANCHOR_TYPES: runtime value differs from the source literal")

    def table(d):
        return lean_list(f"({chars(k)}, {chars(v)})" for k, v in d.items())

    L = [HEADER.format(src=", ".join((DOCX, PPTX, XLSX, UTIL)))]
    L.append("namespace S2T.Gen.Images\n")
    for nm in ("docx", "pptx", "xlsx"):
        L.append(f"def ctype_{nm} : List (List Char × List Char) := " + table(maps[nm]) + "\n")
    for nm in ("docx", "xlsx", "pptx", "util"):
        L.append(f"def sof_{nm} : List Nat := " + nat_list(sof[nm]) + "\n")
        L.append(f"def stop_{nm} : List Nat := " + nat_list(stop[nm]) + "\n")
    L.append("/-- the docx and the xlsx copy of `_get_image_pixel_dimensions` have the same AST (docstring aside) -/")
    L.append(f"def docx_xlsx_same_sniffer : Bool := {'true' if same else 'false'}\n")
    L.append("def png_signature : List Nat := " + nat_list(util.PNG_SIGNATURE) + "\n")
    L.append("def emu_per_pixel : Nat := " + str(int(xlsx.EMU_PER_PIXEL)) + "\n")
    L.append("/-- local-name order of xlsx `ANCHOR_TYPES` -/")
    L.append("def anchor_types : List String := " + lean_list(lean_str(t.rsplit('}', 1)[-1]) for t in xlsx.ANCHOR_TYPES) + "\n")
    L.append("/-- translator cross-check notes (runtime value vs. source literal); must be empty -/")
    L.append("def notes : List String := " + lean_list(lean_str(n) for n in notes) + "\n")
    L.append("end S2T.Gen.Images\n")
    return "\n".join(L)
